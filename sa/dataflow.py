"""Local-variable dataflow on the statement CFG: defs/uses per node, reaching definitions, the
resumable-parser analysis (T8) used by C03 / C10 / C12."""
from __future__ import annotations

import ast

from .cfg import ALL, EXPLICIT, CFG, Node, cfg_of
from . import rulekit as K


def _targets(t, out):
    if isinstance(t, ast.Name):
        out.add(t.id)
    elif isinstance(t, (ast.Tuple, ast.List)):
        for e in t.elts:
            _targets(e, out)
    elif isinstance(t, ast.Starred):
        _targets(t.value, out)


def node_defs(n: Node) -> set[str]:
    out: set[str] = set()
    a = n.ast
    if n.kind == "stmt":
        if isinstance(a, ast.Assign):
            for t in a.targets:
                _targets(t, out)
        elif isinstance(a, ast.AnnAssign) and a.value is not None:
            _targets(a.target, out)
        elif isinstance(a, ast.AugAssign):
            _targets(a.target, out)
        elif isinstance(a, (ast.FunctionDef, ast.AsyncFunctionDef, ast.ClassDef)):
            out.add(a.name)
            return out
    elif n.kind == "for":
        _targets(a.target, out)
    elif n.kind == "with-enter":
        for it in a.items:
            if it.optional_vars is not None:
                _targets(it.optional_vars, out)
    elif n.kind == "handler":
        if getattr(a, "name", None):
            out.add(a.name)
    for root in K.node_exprs(n):
        for s in ast.walk(root):
            if isinstance(s, ast.NamedExpr):
                out.add(s.target.id)
    return out


def node_uses(n: Node, include_closures=True) -> dict[str, list]:
    """name -> list of Name nodes loaded at this CFG node."""
    out: dict[str, list] = {}
    roots = K.node_exprs(n)
    if n.kind == "stmt" and isinstance(n.ast, (ast.FunctionDef, ast.AsyncFunctionDef)) and include_closures:
        roots = [n.ast]
    for root in roots:
        for s in ast.walk(root):
            if isinstance(s, ast.Name) and isinstance(s.ctx, ast.Load):
                out.setdefault(s.id, []).append(s)
            elif isinstance(s, ast.AugAssign) and isinstance(s.target, ast.Name):
                out.setdefault(s.target.id, []).append(s.target)
    return out


def reaching_defs(g: CFG, model=ALL):
    """RD_in[node.id] = set of (name, def_node_id); ENTRY defines every parameter (def id 0)."""
    gen = {}
    kill_names = {}
    for n in g.nodes:
        d = node_defs(n)
        gen[n.id] = {(x, n.id) for x in d}
        kill_names[n.id] = d
    params = set()
    a = g.fn.args
    for p in a.posonlyargs + a.args + a.kwonlyargs:
        params.add(p.arg)
    if a.vararg:
        params.add(a.vararg.arg)
    if a.kwarg:
        params.add(a.kwarg.arg)
    gen[g.entry.id] = {(p, g.entry.id) for p in params}
    rd_in = {n.id: set() for n in g.nodes}
    rd_out = {n.id: set() for n in g.nodes}
    work = list(g.nodes)
    while work:
        n = work.pop()
        i = set()
        for p, k, h in n.pred:
            if g.edge_ok(model, k, h):
                i |= rd_out[p.id]
        rd_in[n.id] = i
        o = {(x, d) for (x, d) in i if x not in kill_names[n.id]} | gen[n.id]
        if o != rd_out[n.id]:
            rd_out[n.id] = o
            for t, k, h in n.succ:
                if g.edge_ok(model, k, h):
                    work.append(t)
    return rd_in, rd_out


def loop_nodes(g: CFG, loop_ast) -> set[int]:
    """ids of CFG nodes belonging to the loop (header + body statements)."""
    ids = set()
    inside = set(id(x) for x in ast.walk(loop_ast))
    for n in g.nodes:
        a = n.ast
        if n.kind in ("entry", "exit", "raise"):
            continue
        if a is loop_ast.test if isinstance(loop_ast, ast.While) else False:
            ids.add(n.id)
        elif id(a) in inside and a is not loop_ast:
            ids.add(n.id)
        elif a is loop_ast and n.kind == "for":
            ids.add(n.id)
    return ids


def main_loop(fn_node):
    """The outermost loop of the function that contains the most statements."""
    best = None
    for n in ast.walk(fn_node):
        if isinstance(n, (ast.While, ast.For)):
            # outermost only
            p = n.parent
            nested = False
            while p is not None and p is not fn_node:
                if isinstance(p, (ast.While, ast.For, ast.FunctionDef, ast.AsyncFunctionDef)):
                    nested = True
                    break
                p = p.parent
            if nested:
                continue
            size = sum(1 for _ in ast.walk(n))
            if best is None or size > best[0]:
                best = (size, n)
    return best[1] if best else None


class Carried:
    def __init__(self, name):
        self.name = name
        self.entry_defs: list[Node] = []  # definitions outside the loop that reach the loop head
        self.loop_defs: list[Node] = []  # definitions inside the loop that reach the loop head (back edge)
        self.uses: list = []  # Name nodes inside the loop reached from the head without redefinition


def carried_locals(fn_node, loop_ast) -> dict[str, Carried]:
    g = cfg_of(fn_node)
    rd_in, _ = reaching_defs(g)
    lids = loop_nodes(g, loop_ast)
    heads = [n for n in g.nodes if n.id in lids and (n.ast is getattr(loop_ast, "test", None) or (n.kind == "for" and n.ast is loop_ast)) and n.in_finally_copy is None]
    if not heads:
        return {}
    head = heads[0]
    at_head = rd_in[head.id]
    out: dict[str, Carried] = {}
    # propagate the head facts through the loop body (one iteration), kill on redefinition
    alive = {head.id: set(at_head)}
    work = [head]
    while work:
        n = work.pop()
        facts = alive[n.id]
        uses = node_uses(n)
        for (x, d) in facts:
            if x in uses:
                c = out.setdefault(x, Carried(x))
                for u in uses[x]:
                    if u not in c.uses:
                        c.uses.append(u)
                dn = g.nodes[d]
                lst = c.loop_defs if d in lids else c.entry_defs
                if dn not in lst:
                    lst.append(dn)
        kills = node_defs(n)
        o = {(x, d) for (x, d) in facts if x not in kills}
        for t, k, h in n.succ:
            if t.id not in lids or t is head:
                continue
            if not (o <= alive.get(t.id, set())) or t.id not in alive:
                alive[t.id] = alive.get(t.id, set()) | o
                work.append(t)
    return out


def free_names(expr) -> set[str]:
    return {s.id for s in ast.walk(expr) if isinstance(s, ast.Name) and isinstance(s.ctx, ast.Load)}


def def_rhs(n: Node, name: str):
    """RHS expression(s) that define `name` at CFG node n, or None for opaque definitions
    ('tuple' marker for tuple-unpacking from a call)."""
    a = n.ast
    if n.kind == "stmt" and isinstance(a, ast.Assign):
        for t in a.targets:
            if isinstance(t, ast.Name) and t.id == name:
                return a.value
            if isinstance(t, (ast.Tuple, ast.List)):
                names = [e.id if isinstance(e, ast.Name) else None for e in t.elts]
                if name in names:
                    if isinstance(a.value, (ast.Tuple, ast.List)) and len(a.value.elts) == len(t.elts):
                        return a.value.elts[names.index(name)]
                    return a.value
    if n.kind == "stmt" and isinstance(a, ast.AnnAssign) and isinstance(a.target, ast.Name) and a.target.id == name:
        return a.value
    if n.kind == "stmt" and isinstance(a, ast.AugAssign) and isinstance(a.target, ast.Name) and a.target.id == name:
        return ast.BinOp(left=ast.Name(id=name, ctx=ast.Load()), op=a.op, right=a.value)
    for root in K.node_exprs(n):
        for s in ast.walk(root):
            if isinstance(s, ast.NamedExpr) and s.target.id == name:
                return s.value
    return None


def defs_reachable(g: CFG, start_edges, name: str, model=EXPLICIT) -> list[Node]:
    """CFG nodes that (re)define local `name` and are reachable from the given (node, edge-kind) starts."""
    seen = set()
    stack = []
    for sn, ek in start_edges:
        for t, k in g.succs(sn, model):
            if ek is None or k == ek:
                stack.append(t)
    out = []
    while stack:
        n = stack.pop()
        if n.id in seen:
            continue
        seen.add(n.id)
        if name in node_defs(n):
            out.append(n)
        for t, _k in g.succs(n, model):
            stack.append(t)
    return out
