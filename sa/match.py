"""Structural AST patterns with metavariables.

Pattern source is Python with `$X` metavariables (any expression, consistent binding), `$_`
(wildcard) and a bare `...` argument (any remaining positional/keyword arguments).  Call
keyword order is irrelevant.  Patterns never match on positions, names of locals are
expected to have been substituted by sa.norm before matching."""
from __future__ import annotations

import ast
import re
from functools import lru_cache

_MV = re.compile(r"\$([A-Za-z_][A-Za-z0-9_]*)")


@lru_cache(maxsize=None)
def compile_pat(src: str, mode: str = "eval"):
    py = _MV.sub(lambda m: "__mv_" + m.group(1), src.strip())
    py = _hoist_ellipsis(py)
    if mode == "eval":
        return ast.parse(py, mode="eval").body
    body = ast.parse(py, mode="exec").body
    if len(body) != 1:
        raise ValueError("statement pattern must be one statement: " + src)
    st = body[0]
    if isinstance(st, ast.Expr):
        return st
    return st


def _hoist_ellipsis(py: str) -> str:
    """`f(a=1, ...)` is not valid Python; rewrite every call whose last argument is `...` and that has
    keyword arguments before it into `f(..., a=1)` (the matcher treats a trailing positional `...` as open end)."""
    out = py
    i = 0
    while True:
        j = out.find(", ...)", i)
        if j < 0:
            return out
        # find the matching '(' of this ')'
        depth = 0
        k = j + 5
        open_at = None
        for x in range(k, -1, -1):
            ch = out[x]
            if ch in ")]}":
                depth += 1
            elif ch in "([{":
                depth -= 1
                if depth == 0:
                    open_at = x
                    break
        if open_at is None:
            return out
        inner = out[open_at + 1 : j]
        # keyword argument present at top level of inner?
        d = 0
        has_kw = False
        for idx, ch in enumerate(inner):
            if ch in "([{":
                d += 1
            elif ch in ")]}":
                d -= 1
            elif ch == "=" and d == 0 and inner[idx + 1 : idx + 2] != "=" and inner[idx - 1 : idx] not in ("=", "!", "<", ">"):
                has_kw = True
        if has_kw:
            out = out[: open_at + 1] + "..., " + inner + ")" + out[j + 6 :]
            i = open_at + 1
        else:
            i = j + 6


def _is_mv(p):
    return isinstance(p, ast.Name) and p.id.startswith("__mv_")


def _is_ellipsis(p):
    return isinstance(p, ast.Constant) and p.value is Ellipsis


def match(p, n, b: dict | None = None) -> dict | None:
    """Match pattern node p against node n; returns bindings dict or None."""
    b = {} if b is None else b
    return b if _m(p, n, b) else None


def _m(p, n, b) -> bool:
    if _is_mv(p):
        name = p.id[5:]
        if name == "_":
            return isinstance(n, ast.AST)
        if not isinstance(n, ast.AST):
            return False
        if name in b:
            return ast.dump(b[name]) == ast.dump(n)
        b[name] = n
        return True
    if isinstance(p, ast.Attribute) and isinstance(n, ast.Attribute) and p.attr.startswith("__mv_"):
        # $X.$ATTR  -> bind attribute name
        nm = p.attr[5:]
        if nm != "_":
            if nm in b and b[nm] != n.attr:
                return False
            b[nm] = n.attr
        return _m(p.value, n.value, b)
    if isinstance(p, ast.Expr) and isinstance(n, ast.Expr):
        return _m(p.value, n.value, b)
    if type(p) is not type(n):
        return False
    if isinstance(p, ast.Constant):
        return type(p.value) is type(n.value) and p.value == n.value
    if isinstance(p, ast.Call):
        if not _m(p.func, n.func, b):
            return False
        pargs, nargs = list(p.args), list(n.args)
        open_end = False
        if pargs and _is_ellipsis(pargs[-1]):
            open_end = True
            pargs = pargs[:-1]
        elif pargs and _is_ellipsis(pargs[0]):
            # `f(..., kw=v)`: any positional arguments, the keywords listed must be present
            open_end = True
            pargs = pargs[1:]
        if len(nargs) < len(pargs) or (not open_end and len(nargs) != len(pargs)):
            return False
        for pa, na in zip(pargs, nargs):
            if not _m(pa, na, b):
                return False
        nkw = {k.arg: k.value for k in n.keywords}
        for k in p.keywords:
            if k.arg not in nkw or not _m(k.value, nkw[k.arg], b):
                return False
        if not open_end and len(nkw) != len(p.keywords):
            return False
        return True
    for f in p._fields:
        if f == "ctx" or f == "type_comment" or f == "kind":
            continue
        pv, nv = getattr(p, f, None), getattr(n, f, None)
        if isinstance(pv, list):
            if not isinstance(nv, list):
                return False
            if pv and isinstance(pv[-1], ast.Expr) and _is_ellipsis(pv[-1].value):
                # statement-list pattern ending with `...`: prefix match
                if len(nv) < len(pv) - 1:
                    return False
                pv = pv[:-1]
                nv = nv[: len(pv)]
            if len(pv) != len(nv):
                return False
            for x, y in zip(pv, nv):
                if isinstance(x, ast.AST):
                    if not _m(x, y, b):
                        return False
                elif x != y:
                    return False
        elif isinstance(pv, ast.AST):
            if not isinstance(nv, ast.AST) or not _m(pv, nv, b):
                return False
        else:
            if pv != nv:
                return False
    return True


def find(root, src: str, mode: str = "eval", nested: bool = True):
    """Yield (node, bindings) for every sub-node of root matching the pattern.
    A pattern that is not an expression (assignment, return, ...) is matched as a statement."""
    if mode == "eval":
        try:
            p = compile_pat(src, "eval")
        except SyntaxError:
            mode = "exec"
            p = compile_pat(src, "exec")
    else:
        p = compile_pat(src, mode)
    want_stmt = mode != "eval"
    for n in _walk(root, nested):
        if want_stmt and not isinstance(n, ast.stmt):
            continue
        if not want_stmt and not isinstance(n, ast.expr):
            continue
        b = match(p, n)
        if b is not None:
            yield n, b


def _walk(root, nested):
    roots = root if isinstance(root, list) else [root]
    stack = list(reversed(roots))
    first = set(id(r) for r in roots)
    while stack:
        n = stack.pop()
        yield n
        for ch in ast.iter_child_nodes(n):
            if not nested and id(n) not in first and isinstance(n, (ast.FunctionDef, ast.AsyncFunctionDef, ast.Lambda, ast.ClassDef)):
                break
            stack.append(ch)


def match_text(src: str, text: str) -> dict | None:
    """Match an expression pattern against expression source text (e.g. a literal's text)."""
    try:
        n = ast.parse(text, mode="eval").body
    except SyntaxError:
        return None
    return match(compile_pat(src), n)


def contains(root, src: str) -> bool:
    for _ in find(root, src):
        return True
    return False


def contains_text(text: str, src: str) -> bool:
    try:
        n = ast.parse(text, mode="eval").body
    except SyntaxError:
        return False
    return contains(n, src)
