"""Rule templates shared by the per-property rule tables (DESIGN section 3)."""
from __future__ import annotations

import ast

from . import match as M
from . import norm, pc as PC, prog
from .cfg import ALL, CANCEL, EXPLICIT, CFG, Node, cfg_of
from .loader import AnalysisError, FunctionInfo, Repo, walk_fn


# ------------------------------------------------------------------------------------------------
# CFG node content


def node_exprs(n: Node) -> list:
    a = n.ast
    if n.kind == "stmt":
        if isinstance(a, (ast.FunctionDef, ast.AsyncFunctionDef, ast.ClassDef)):
            return []
        return [a]
    if n.kind == "test":
        return [a]
    if n.kind == "for":
        return [a.target, a.iter]
    if n.kind == "with-enter":
        out = []
        for it in a.items:
            out.append(it.context_expr)
            if it.optional_vars is not None:
                out.append(it.optional_vars)
        return out
    return []


def node_has(n: Node, pattern: str, mode: str = "eval") -> bool:
    for root in node_exprs(n):
        for _ in M.find(root, pattern, mode, nested=False):
            return True
    return False


def node_find(n: Node, pattern: str, mode: str = "eval"):
    for root in node_exprs(n):
        for hit in M.find(root, pattern, mode, nested=False):
            yield hit


def node_calls(n: Node):
    for root in node_exprs(n):
        stack = [root]
        while stack:
            x = stack.pop()
            if isinstance(x, ast.Call):
                yield x
            if isinstance(x, (ast.Lambda, ast.FunctionDef, ast.AsyncFunctionDef)) and x is not root:
                continue
            stack.extend(ast.iter_child_nodes(x))


def node_suspends(n: Node, repo: Repo | None = None, nonsuspending=()) -> bool:
    """Does executing this CFG node contain a suspension point?"""
    if n.kind == "with-enter" or n.kind == "with-exit":
        a = n.ast
        if isinstance(a, ast.AsyncWith):
            # entering/leaving a timeout context never suspends (trusted: asyncio/async_timeout)
            return not all(prog.is_timeout_ctx(it.context_expr) for it in a.items)
        return False
    if n.kind == "for":
        return isinstance(n.ast, ast.AsyncFor)
    for root in node_exprs(n):
        for aw in prog.awaits_in(root):
            if any(M.match(M.compile_pat(p), aw.value) is not None for p in nonsuspending):
                continue
            return True
    return False


# ------------------------------------------------------------------------------------------------
# finding statements


def stmts(scope, pattern: str):
    """Statements under `scope` (FunctionInfo, ClassInfo, Module, or AST) matching a statement pattern."""
    root = _root(scope)
    return list(M.find(root, pattern, "exec"))


def exprs(scope, pattern: str):
    root = _root(scope)
    return list(M.find(root, pattern, "eval"))


def _root(scope):
    if hasattr(scope, "node"):
        return scope.node
    if hasattr(scope, "tree"):
        return scope.tree
    return scope


def stmt_of(node):
    while node is not None and not isinstance(node, ast.stmt):
        node = node.parent
    return node


def src(node) -> str:
    return norm.raw(node)


def short(node, n=90) -> str:
    s = " ".join(norm.raw(node).split())
    return s if len(s) <= n else s[: n - 3] + "..."


# ------------------------------------------------------------------------------------------------
# T1: guards


def require_lits(chk, rule: str, node, required: list[tuple[str, bool, str]], what: str, construct: str | None = None, extra_pc=None) -> bool:
    """T1-gate: every required literal (pattern, polarity, description) is a unit clause of pc(node).
    One finding per missing literal, keyed by the literal."""
    clauses = PC.pc(node) + list(extra_pc or [])
    ok = True
    binds: dict = {}
    for pat, pos, desc in required:
        b = PC.has_lit(clauses, pat, pos)
        if b is None:
            ok = False
            lit = fmt_req(pat, pos)
            chk.violation(
                rule, node, construct or short(node), lit,
                f"{what}: required condition {lit} [{desc}] is not established on every path to this statement",
                path_condition=norm.fmt_cnf(clauses),
            )
        else:
            binds.update(b)
    if ok:
        chk.ok(rule, node, f"{what}: {short(node, 60)} under " + " & ".join(fmt_req(p, s) for p, s, _ in required))
    return ok


def fmt_req(pat, pos) -> str:
    if isinstance(pat, (list, tuple)):
        return " or ".join(fmt_req(p, s) for p, s in pat)
    return f"({pat})" if pos else f"!({pat})"


def _alts(pat, pos):
    return list(pat) if isinstance(pat, (list, tuple)) else [(pat, pos)]


def guard_present(clauses, pat: str, pos: bool) -> bool:
    return PC.has_lit(clauses, pat, pos) is not None


def raises_in(scope, exc_names: tuple[str, ...] | None = None):
    """(raise_node, class_name) for raise statements in scope; `raise exc` resolved through the
    single definition of the local."""
    out = []
    root = _root(scope)
    for n in ast.walk(root):
        if isinstance(n, ast.Raise):
            cls = raise_class(n)
            if exc_names is None or cls in exc_names:
                out.append((n, cls))
    return out


def raise_class(n: ast.Raise) -> str | None:
    e = n.exc
    if e is None:
        return None
    if isinstance(e, ast.Name):
        fn = getattr(n, "fn", None)
        if fn is not None:
            v = None
            ds = norm.fn_defs(fn.node).defs.get(e.id, [])
            # all definitions must construct the same class
            classes = set()
            for _node, val in ds:
                if isinstance(val, ast.Call):
                    classes.add(ast.unparse(val.func))
                else:
                    classes.add(None)
            if len(classes) == 1 and None not in classes:
                return classes.pop()
        return e.id
    if isinstance(e, ast.Call):
        return ast.unparse(e.func)
    return ast.unparse(e)


def find_rejection(chk, rule: str, scope, required: list[tuple[str, bool, str]], classes, what: str,
                   forbidden: list[tuple[str, bool, str]] = (), allowed_extra: list[tuple[str, bool]] = (),
                   where_hint=None, strict_extra: bool = True, subclass_of=None):
    """T1-rej: a raise of an acceptable class exists in scope whose PC contains the required literals,
    none of the forbidden ones, and (strict_extra) nothing else but allow-listed literals and the
    negations of other guard exits.  Returns the raise node or None (violation recorded)."""
    root = _root(scope)
    cands = []
    for n, cls in raises_in(root):
        if classes is not None and (cls is None or cls.split(".")[-1] not in classes):
            continue
        clauses = PC.pc(n)
        if all(PC.has_lit(clauses, p, s) is not None for p, s, _d in required):
            cands.append((n, cls, clauses))
    anchor = where_hint if where_hint is not None else scope
    req_txt = " & ".join(fmt_req(p, s) for p, s, _ in required)
    if not cands:
        chk.violation(rule, _anchor(anchor), f"rejection[{what}]", req_txt,
                      f"required rejection missing: no raise of {sorted(classes) if classes else 'an error'} under {req_txt} in the searched scope")
        return None
    # prefer a candidate that passes all further tests; otherwise report on the first
    problems_first = None
    for n, cls, clauses in cands:
        problems = []
        for p, s, d in forbidden:
            if _mentions(clauses, p, s):
                problems.append((f"{'(' if s else '!('}{p})", f"rejection is conditional on forbidden literal [{d}]"))
        if strict_extra:
            gcs = PC.guard_clauses(n)
            for c in clauses:
                # the negation of another rejection tested earlier (a sibling guard all of whose exits are raises)
                if any(kinds <= {"raise"} and c <= gc for gc, kinds in gcs):
                    continue
                if len(c) == 1:
                    lit = next(iter(c))
                    if any(M.match_text(p2, lit.text) is not None and lit.pos == s2 for p, s, _ in required for p2, s2 in _alts(p, s)):
                        continue
                    if any(M.match_text(p, lit.text) is not None and lit.pos == s for p, s in allowed_extra):
                        continue
                    if not lit.pos and _is_other_guard_exit(n, lit):
                        continue
                    problems.append((str(lit), "rejection is weakened by an extra condition"))
                else:
                    # disjunctive clause: acceptable only if allow-listed as a whole or loop/dispatch condition
                    txt = norm.fmt_cnf([c])
                    if all(any(M.match_text(p, l.text) is not None and l.pos == s for p, s in list(allowed_extra) + [(p3, s3) for p2, s2, _d in required for p3, s3 in _alts(p2, s2)]) for l in c):
                        continue
                    problems.append((txt, "rejection is weakened by an extra (disjunctive) condition"))
        if not problems:
            chk.ok(rule, n, f"{what}: raise {cls} under {req_txt}")
            return n
        if problems_first is None:
            problems_first = (n, cls, clauses, problems)
    n, cls, clauses, problems = problems_first
    for lit, why in problems:
        chk.violation(rule, n, f"rejection[{what}]", lit, f"{what}: {why}: {lit}", path_condition=norm.fmt_cnf(clauses))
    return None


def _anchor(x):
    if isinstance(x, ast.AST):
        return x
    if hasattr(x, "where"):
        return x
    if hasattr(x, "node") and hasattr(x, "module"):
        return (f"{x.module.rel}:{x.qualname}", x.node.lineno)
    if hasattr(x, "rel"):
        return (f"{x.rel}:<module>", 0)
    return str(x)


def _mentions(clauses, pat: str, pos: bool) -> bool:
    for c in clauses:
        for lit in c:
            if lit.pos == pos and (M.match_text(pat, lit.text) is not None or M.contains_text(lit.text, pat)):
                return True
    return False


def _is_other_guard_exit(raise_node, lit) -> bool:
    """A negative literal that comes from an earlier guard whose body cannot fall through
    (another rejection / early exit tested first)."""
    n = raise_node
    while n is not None and not isinstance(n, (ast.FunctionDef, ast.AsyncFunctionDef)):
        blk = PC._block_of(n) if isinstance(n, ast.stmt) else None
        if blk is not None:
            for sib in blk[: blk.index(n)]:
                if isinstance(sib, ast.If) and PC.terminates(sib.body):
                    for c in norm.cnf(sib.test, False, raise_node):
                        if len(c) == 1 and next(iter(c)) == lit:
                            return True
                    # elif chain
                    cur = sib
                    while len(cur.orelse) == 1 and isinstance(cur.orelse[0], ast.If):
                        cur = cur.orelse[0]
                        if PC.terminates(cur.body):
                            for c in norm.cnf(cur.test, False, raise_node):
                                if len(c) == 1 and next(iter(c)) == lit:
                                    return True
        par = n.parent
        # `if a: raise X  elif b: raise Y` : !a in Y's PC comes from the sibling branch
        if isinstance(par, ast.If) and getattr(n, "pfield", None) == "orelse" and PC.terminates(par.body):
            for c in norm.cnf(par.test, False, raise_node):
                if len(c) == 1 and next(iter(c)) == lit:
                    return True
        n = par
    return False


# ------------------------------------------------------------------------------------------------
# T2: must-pass


def must_pass(chk, rule: str, fn: FunctionInfo, starts, via, what: str, model=EXPLICIT, targets=None, start_edges=None,
              construct: str | None = None, missing: str = "", exempt=None, report=True):
    """No path from `starts` (CFG nodes) to a target (default: function exits) avoids all `via` nodes.
    via/targets/exempt are predicates on CFG nodes.  Returns True if the obligation holds."""
    g = cfg_of(fn.node)
    is_t = targets if targets is not None else g.is_exit
    avoid = (lambda n: via(n) or (exempt(n) if exempt else False))
    path = g.find_path(starts, is_t, avoid, model, start_edges)
    if path is None:
        if report:
            s0 = (starts or [s for s, _ in (start_edges or [])])
            at = s0[0].ast if s0 else fn.node
            chk.ok(rule, at, f"{what}: every path from line(s) {sorted({s.lineno for s in s0})} passes the required step [{model} exits]")
        return True
    if report:
        s0 = path[0]
        chk.violation(rule, s0.ast if isinstance(s0.ast, ast.AST) else fn.node, construct or short(s0.ast), missing,
                      f"{what}: a path avoids the required step", path=g.fmt_path(path), exit_model=model)
    return False


def cfg_nodes(fn: FunctionInfo, pred) -> list[Node]:
    g = cfg_of(fn.node)
    return [n for n in g.nodes if n.kind not in ("entry", "exit", "raise", "join") and pred(n)]


def nodes_matching(fn: FunctionInfo, pattern: str, mode="eval") -> list[Node]:
    return cfg_nodes(fn, lambda n: node_has(n, pattern, mode))


def all_paths_pass(repo: Repo, fn: FunctionInfo, via, model=EXPLICIT, depth=3) -> bool:
    """Wrapper recognition: every path entry -> normal exit of fn passes a via node."""
    g = cfg_of(fn.node)
    v = via_with_calls(repo, via, model, depth - 1) if depth > 0 else via
    return g.find_path([g.entry], lambda n: n is g.exit, v, model) is None


def via_with_calls(repo: Repo, via, model=EXPLICIT, depth=3):
    """via predicate closed under resolved callees all of whose paths pass via."""
    memo: dict = {}

    def pred(n: Node) -> bool:
        if via(n):
            return True
        if depth <= 0:
            return False
        for c in node_calls(n):
            t = prog.resolve_call(repo, c)
            if t is None:
                continue
            k = id(t.node)
            if k not in memo:
                memo[k] = False  # recursion guard
                memo[k] = all_paths_pass(repo, t, via, model, depth)
            if memo[k]:
                return True
        return False

    return pred


# ------------------------------------------------------------------------------------------------
# T3: atomic region


def no_suspension_between(chk, rule: str, fn: FunctionInfo, a_nodes, b_pred, what: str, repo: Repo, summaries=None,
                          start_edges=None, construct=None):
    """No suspension point on any path A -> B (B excluded if it does not itself suspend before its effect).
    `summaries`: {callee name: set of branch kinds} - an `await f()` of a package coroutine is not a
    suspension on the branch for which f returns without having awaited (computed by nonsuspending_returns)."""
    g = cfg_of(fn.node)
    # nodes reachable from A without passing B
    region = g.reachable(a_nodes, avoid=lambda n: False, model=CANCEL) if start_edges is None else None
    # find a path A -> B through a suspending node
    def susp(n):
        return node_suspends(n, repo) and not (summaries and summaries(n))

    # forward BFS from A, stop at B; collect suspending nodes that can reach B
    fwd = set()
    stack = []
    if start_edges is not None:
        for s, ek in start_edges:
            for t, k in g.succs(s, EXPLICIT):
                if ek is None or k == ek:
                    stack.append(t)
    else:
        for s in a_nodes:
            for t, _k in g.succs(s, EXPLICIT):
                stack.append(t)
    while stack:
        n = stack.pop()
        if n.id in fwd:
            continue
        fwd.add(n.id)
        if b_pred(n):
            continue
        for t, _k in g.succs(n, EXPLICIT):
            stack.append(t)
    # backward from B within fwd
    bnodes = [g.nodes[i] for i in fwd if b_pred(g.nodes[i])]
    back = set()
    stack = list(bnodes)
    while stack:
        n = stack.pop()
        if n.id in back:
            continue
        back.add(n.id)
        for p, k, h in n.pred:
            if p.id in fwd and CFG.edge_ok(EXPLICIT, k, h) and not b_pred(p):
                stack.append(p)
            elif p.id in fwd and CFG.edge_ok(EXPLICIT, k, h) and p.id not in back and b_pred(p):
                pass
    offenders = [g.nodes[i] for i in (fwd & back) if not b_pred(g.nodes[i]) and susp(g.nodes[i])]
    s0 = (a_nodes or [s for s, _ in (start_edges or [])])
    if not bnodes:
        chk.violation(rule, s0[0].ast if s0 else fn.node, construct or what, "target of the atomic region not reachable",
                      f"{what}: the end of the region is not reachable from its start (rule cannot be evaluated)")
        return False
    if offenders:
        for o in sorted(offenders, key=lambda n: n.lineno):
            chk.violation(rule, o.ast, construct or short(s0[0].ast), short(o.ast),
                          f"{what}: suspension point between the two steps (another task can run here)", region_start=s0[0].lineno)
        return False
    chk.ok(rule, s0[0].ast if s0 else fn.node, f"{what}: no suspension point on any of the paths from line(s) {sorted({s.lineno for s in s0})} to line(s) {sorted({b.lineno for b in bnodes})} ({len(fwd & back)} CFG nodes)")
    return True


def returns_without_await(fn: FunctionInfo, repo: Repo) -> list[ast.Return]:
    """Return statements of fn reachable from its entry without passing a suspension point."""
    g = cfg_of(fn.node)
    seen = set()
    stack = [g.entry]
    out = []
    while stack:
        n = stack.pop()
        if n.id in seen:
            continue
        seen.add(n.id)
        if n is not g.entry and node_suspends(n, repo):
            continue
        if n.kind == "stmt" and isinstance(n.ast, ast.Return):
            out.append(n.ast)
        for t, _k in g.succs(n, EXPLICIT):
            stack.append(t)
    return out


# ------------------------------------------------------------------------------------------------
# T4: who may write


def owners(chk, rule: str, repo: Repo, modules: list[str], attr: str, allowed: dict[str, str], what: str, cls_hint: str | None = None, classes: tuple[str, ...] | None = None):
    """Writers of `.attr` within `modules` are contained in `allowed` (qualname -> reason), closed
    under helper extraction (a new writer all of whose package callers are allowed writers)."""
    w = prog.writers(repo, modules, attr)
    if classes is not None:
        # attribute names are shared between classes of a module: judge the writers of the named classes only
        w = {f: h for f, h in w.items() if f.qualname.split(".")[0] in classes}
    if not w:
        chk.analysis_error(f"{rule}: no writer of .{attr} found in {modules}: anchor attribute vanished")
        return
    names = {f.qualname for f in w}

    def allowed_fn(f: FunctionInfo, depth=0, seen=None) -> bool:
        seen = seen or set()
        if f.qualname in allowed:
            return True
        if depth > 3 or f.qualname in seen:
            return False
        seen = seen | {f.qualname}
        sites = prog.call_sites(repo, f, modules)
        if not sites:
            return False
        return all(c.fn is not None and allowed_fn(c.fn, depth + 1, seen) for c in sites)

    for f, hits in sorted(w.items(), key=lambda kv: kv[0].qualname):
        if allowed_fn(f):
            chk.ok(rule, hits[0][0], f"{what}: .{attr} written by allowed owner {f.qualname} ({', '.join(k for _n, k in hits)})")
        else:
            for node, kind in hits:
                chk.violation(rule, node, short(stmt_of(node)), f"writer {f.qualname}",
                              f"{what}: .{attr} is mutated ({kind}) outside its owners {sorted(allowed)}")


# ------------------------------------------------------------------------------------------------
# misc


def in_finally(node) -> ast.Try | None:
    n = node
    while n is not None and not isinstance(n, (ast.FunctionDef, ast.AsyncFunctionDef)):
        p = getattr(n, "parent", None)
        if isinstance(p, ast.Try) and getattr(n, "pfield", None) == "finalbody":
            return p
        n = p
    return None


def enclosing_try_handlers(node):
    """(try_node, handler) pairs for every enclosing try whose *body* contains node, innermost first."""
    out = []
    n = node
    while n is not None and not isinstance(n, (ast.FunctionDef, ast.AsyncFunctionDef)):
        p = getattr(n, "parent", None)
        if isinstance(p, ast.Try) and getattr(n, "pfield", None) == "body":
            for h in p.handlers:
                out.append((p, h))
        n = p
    return out


def loop_ancestors(node):
    return list(prog.enclosing(node, (ast.For, ast.AsyncFor, ast.While)))


def wake_tests(fn: FunctionInfo, waiter_attr: str = "_waiter"):
    """`if <waiter> is not None: ... set_result/set_exception(<waiter>)` statements of fn, where
    <waiter> is self.<waiter_attr> or a local bound to it (incl. the walrus form)."""
    out = []
    for n in ast.walk(fn.node):
        if not isinstance(n, ast.If):
            continue
        t = norm.text(n.test, n)
        if f"self.{waiter_attr}" not in t:
            # `waiter = self._waiter` immediately before, with `waiter` re-used for several futures
            names = {x.id for x in ast.walk(n.test) if isinstance(x, ast.Name)}
            blk = PC._block_of(n) or []
            prev = blk[blk.index(n) - 1] if n in blk and blk.index(n) > 0 else None
            if not (isinstance(prev, ast.Assign) and len(prev.targets) == 1 and isinstance(prev.targets[0], ast.Name) and prev.targets[0].id in names
                    and norm.raw(prev.value) == f"self.{waiter_attr}"):
                continue
        body_txt = " ".join(norm.raw(b) for b in n.body)
        if "set_result(" in body_txt or "set_exception(" in body_txt:
            out.append(n)
    return out


def wakes_waiter(chk, rule: str, repo: Repo, fn: FunctionInfo, trigger_pats: list[str], what: str, waiter_attr: str = "_waiter", helper: str | None = "_release_waiter"):
    """T2: after each producer state change every path to exit evaluates the waiter wake-up."""
    g = cfg_of(fn.node)
    tests = wake_tests(fn, waiter_attr)
    tnodes = [n for t in tests for n in g.nodes_of(t.test)]

    def via(n):
        if n in tnodes:
            return True
        if helper and node_has(n, f"self.{helper}()"):
            return True
        return False

    found = 0
    for pat in trigger_pats:
        trig = [n for n in g.nodes if n.in_finally_copy is None and node_has(n, pat)]
        for t in trig:
            found += 1
            must_pass(chk, rule, fn, [t], via, f"{what}: after `{short(t.ast, 50)}` a waiting reader is woken on every path", construct=short(t.ast, 60), missing="waiter wake-up")
    return found


# ------------------------------------------------------------------------------------------------
# T10 companion: the quantity compared with the limit grows with what the loop accumulates
_COUNTERS: dict = {}


def package_counters(repo) -> set[str]:
    """Attribute names that are the target of `+=` somewhere in the package (running totals maintained by their owner)."""
    k = id(repo)
    if k not in _COUNTERS:
        out = set()
        for m in repo.all_modules():
            for n in ast.walk(m.tree):
                if isinstance(n, ast.AugAssign) and isinstance(n.op, ast.Add) and isinstance(n.target, ast.Attribute):
                    out.add(n.target.attr)
        _COUNTERS[k] = out
    return _COUNTERS[k]


def cumulative_in_loop(loop, test, repo=None) -> tuple[bool, list[str]]:
    """Does the comparison `test` (the guard of a limit rejection inside `loop`) involve a quantity that is carried and increased
    across iterations?  Accepted: a name / attribute that is the target of an augmented assignment inside the loop; `len(A)` (or A
    itself) where A is appended to / extended / augmented inside the loop.  Returns (ok, names seen)."""
    aug = set()
    grown = set()
    for n in ast.walk(loop):
        if isinstance(n, ast.AugAssign) and isinstance(n.op, (ast.Add, ast.Sub)):
            aug.add(norm.raw(n.target))
        elif isinstance(n, ast.Call) and isinstance(n.func, ast.Attribute) and n.func.attr in ("append", "extend", "write", "add", "appendleft"):
            grown.add(norm.raw(n.func.value))
    seen = []
    counters = package_counters(repo) if repo is not None else set()
    # both spellings: as written (a local that aliases an attribute is still the thing the loop grows) and with single-def locals resolved
    for n in list(ast.walk(test)) + list(ast.walk(norm.subst(test, test))):
        if isinstance(n, (ast.Name, ast.Attribute)):
            t = norm.raw(n)
            seen.append(t)
            if t in aug or t in grown or (isinstance(n, ast.Attribute) and n.attr in counters):
                return True, seen
    return False, seen


# ---- short reads -------------------------------------------------------------------------------------------------------------------------
SHORT_READS = ("read", "readany")


def _is_short_read(e, helpers=()) -> bool:
    """`await X.read(n)` / `await X.readany()` (StreamReader API: returns what is buffered, up to n), or a call of a helper that returns one."""
    if isinstance(e, ast.Await):
        e = e.value
    if not (isinstance(e, ast.Call) and isinstance(e.func, ast.Attribute)):
        return False
    if e.func.attr in SHORT_READS and not (isinstance(e.func.value, ast.Name) and e.func.value.id in ("f", "fp", "fobj", "file")):
        return True
    return e.func.attr in helpers and isinstance(e.func.value, ast.Name) and e.func.value.id in ("self", "cls")


def short_read_compares(cls_node) -> list[tuple[ast.Compare, str]]:
    """Equality comparisons of a possibly short read with a bytes constant of two or more bytes, inside one class.
    One level of helper methods (every `return` a short read) is followed."""
    helpers = set()
    for m in cls_node.body:
        if isinstance(m, (ast.FunctionDef, ast.AsyncFunctionDef)):
            rets = [r for r in ast.walk(m) if isinstance(r, ast.Return) and r.value is not None]
            if rets and any(_is_short_read(r.value) for r in rets):
                helpers.add(m.name)
    out = []
    for m in cls_node.body:
        if not isinstance(m, (ast.FunctionDef, ast.AsyncFunctionDef)):
            continue
        defs = {}
        for st in ast.walk(m):
            if isinstance(st, ast.Assign) and len(st.targets) == 1 and isinstance(st.targets[0], ast.Name):
                defs.setdefault(st.targets[0].id, []).append(st.value)
        for c in ast.walk(m):
            if not (isinstance(c, ast.Compare) and len(c.ops) == 1 and isinstance(c.ops[0], (ast.Eq, ast.NotEq))):
                continue
            a, b = c.left, c.comparators[0]
            for x, k in ((a, b), (b, a)):
                if isinstance(k, ast.Constant) and isinstance(k.value, bytes) and len(k.value) >= 2:
                    srcs = [x] + (defs.get(x.id, []) if isinstance(x, ast.Name) else [])
                    for s in srcs:
                        if _is_short_read(s, helpers):
                            out.append((c, ast.unparse(s)))
                            break
    return out


def _short_read_selfcheck() -> bool:
    pos = ast.parse("class A:\n async def _end(self):\n  if self._n:\n   return await self._content.read(2)\n  return await self._content.readline()\n"
                    " async def f(self):\n  if await self._end() != b'\\r\\n':\n   raise ValueError\n")
    neg = ast.parse("class A:\n async def f(self):\n  if await self._content.readline() != b'\\r\\n':\n   raise ValueError\n  c = await self._content.read(1)\n  if c == b'x':\n   pass\n")
    return len(short_read_compares(pos.body[0])) == 1 and not short_read_compares(neg.body[0])


# ---- timeout scopes ------------------------------------------------------------------------------------------------------------------------
def timeout_budget(w, fn_node=None):
    """The budget expression (text) of an `async with async_timeout.timeout(T)` / `timeout_at(D)` block, or None when `w` is no such block.
    `timeout_at(D)`: D is followed through its single definition `<loop>.time() + T` (a deadline shared by several blocks) -> T."""
    for it in getattr(w, "items", []):
        ce = it.context_expr
        if not isinstance(ce, ast.Call) or not ce.args:
            continue
        f = norm.raw(ce.func)
        if f in ("async_timeout.timeout", "asyncio.timeout", "timeout"):
            return norm.raw(ce.args[0])
        if f in ("async_timeout.timeout_at", "asyncio.timeout_at", "timeout_at"):
            d = ce.args[0]
            if isinstance(d, ast.Name) and fn_node is not None:
                vals = [v for _d, v in norm.fn_defs(fn_node).defs.get(d.id, []) if v is not None]
                if len(vals) == 1:
                    d = vals[0]
            if isinstance(d, ast.BinOp) and isinstance(d.op, ast.Add):
                for a, b in ((d.left, d.right), (d.right, d.left)):
                    if isinstance(a, ast.Call) and norm.raw(a.func).endswith(".time"):
                        return norm.raw(b)
            return "deadline:" + norm.raw(ce.args[0])
    return None


def find_path_edges(g, starts, is_target, avoid, avoid_edge, model=EXPLICIT):
    """Like CFG.find_path, with a predicate on edges: avoid_edge(node, successor, kind) -> True to leave the edge out (e.g. the False edge of
    a test that an earlier statement on the path has established)."""
    prev = {}
    work = []
    for s_ in starts:
        for t, k in g.succs(s_, model):
            if not avoid_edge(s_, t, k) and t.id not in prev:
                prev[t.id] = s_
                work.append(t)
    startids = {s_.id for s_ in starts}
    while work:
        n = work.pop(0)
        if avoid(n):
            continue
        if is_target(n):
            path = [n]
            cur = n
            while cur.id in prev:
                p_ = prev[cur.id]
                path.append(p_)
                if p_.id in startids:
                    break
                cur = p_
            return list(reversed(path))
        for t, k in g.succs(n, model):
            if t.id not in prev and not avoid_edge(n, t, k):
                prev[t.id] = n
                work.append(t)
    return None


def tail_spellings(fn, attr: str) -> list[str]:
    """Texts under which the bytes retained in `self.<attr>` appear in guards: the attribute itself and every non-constant value assigned to it
    in `fn` (as written, and with single-definition locals resolved): a limit may be tested on the value before it is stored."""
    out = [f"self.{attr}"]
    for a in ast.walk(_root(fn)):
        if isinstance(a, ast.Assign) and any(norm.raw(t) == f"self.{attr}" for t in a.targets) and not isinstance(a.value, ast.Constant) and norm.raw(a.value) not in ("EMPTY", "b''"):
            for t in (norm.raw(a.value), norm.text(a.value, a)):
                if t not in out and f"self.{attr}" not in t:
                    out.append(t)
    return out


# ---- extract-method refactors ---------------------------------------------------------------------------------------------------------------
_INLINED: dict = {}


def with_tail_delegate(cls, name: str):
    """FunctionInfo of method `name` with a *tail delegate* inlined: when the method ends (possibly inside try/finally) in
    `return await self._helper(<its own parameters, by name>)` and `_helper` is a private method of the same class called from nowhere
    else in the class, the returned function has the helper's body in place of that statement.  Rules stated on the method's paths
    (ordering, must-pass, timeouts) then see through an `extract method` refactor.  The original tree is not modified."""
    import copy
    fn = cls.methods[name]
    key = (id(fn.node), name)
    if key in _INLINED:
        return _INLINED[key]
    target = None
    for r in ast.walk(fn.node):
        if isinstance(r, ast.Return) and r.value is not None:
            v = r.value.value if isinstance(r.value, ast.Await) else r.value
            if isinstance(v, ast.Call) and isinstance(v.func, ast.Attribute) and norm.raw(v.func.value) == "self" and v.func.attr.startswith("_") and v.func.attr in cls.methods and not v.keywords:
                h = cls.methods[v.func.attr]
                params = [a.arg for a in h.node.args.args[1:]]
                if [norm.raw(a) for a in v.args] == params and sum(1 for m in cls.methods.values() for c in ast.walk(m.node) if isinstance(c, ast.Call) and norm.raw(c.func) == f"self.{v.func.attr}") == 1:
                    target = (r, h)
    if target is None:
        _INLINED[key] = fn
        return fn
    r, h = target
    node = copy.deepcopy(fn.node)
    # find the copied return statement by position
    rr = next(x for x in ast.walk(node) if isinstance(x, ast.Return) and x.lineno == r.lineno and x.col_offset == r.col_offset)
    body = copy.deepcopy(h.node.body)
    if body and isinstance(body[0], ast.Expr) and isinstance(body[0].value, ast.Constant) and isinstance(body[0].value.value, str):
        body = body[1:]

    def repl(parent):
        for field, value in ast.iter_fields(parent):
            if isinstance(value, list) and rr in value:
                i = value.index(rr)
                value[i:i + 1] = body
                return True
        return False

    for parent in ast.walk(node):
        if repl(parent):
            break

    def setp(n, par, field=None):
        n.parent = par
        n.pfield = field
        n.mod = getattr(fn.node, "mod", None)
        n.fn = None
        for f_, v_ in ast.iter_fields(n):
            for ch in (v_ if isinstance(v_, list) else [v_]):
                if isinstance(ch, ast.AST):
                    setp(ch, n, f_)

    setp(node, getattr(fn.node, "parent", None))
    merged = FunctionInfo(fn.module, node, fn.qualname, fn.cls, fn.outer)
    for x in ast.walk(node):
        x.fn = merged
    _INLINED[key] = merged
    return merged


_SPAWN = ("asyncio.Task", "asyncio.create_task", "asyncio.ensure_future")


def _spawns(node) -> bool:
    return any(isinstance(c, ast.Call) and (norm.raw(c.func) in _SPAWN or (isinstance(c.func, ast.Attribute) and c.func.attr in ("create_task", "ensure_future"))) for c in ast.walk(node))


def with_spawn_helpers(cls, name: str):
    """FunctionInfo of method `name` with its *spawn helpers* inlined: a statement `await self._helper(<args>)` whose callee is a private
    coroutine method of the same class that creates a task and returns no value (`_run_shielded(coro)`: wrap the coroutine in a Task, keep it
    referenced, await it through asyncio.shield) is replaced by `<param> = <arg>` assignments followed by the helper's body.  Rules about how
    a method spawns, shields and feeds its tasks then see through an `extract method` refactor.  The original tree is not modified; positions
    of the call's own nodes are kept, so a node of the original can be found again in the result (`same_node`)."""
    import copy
    fn = cls.methods[name]
    key = (id(fn.node), name, "spawn")
    if key in _INLINED:
        return _INLINED[key]

    def helper_of(st):
        if not (isinstance(st, ast.Expr) and isinstance(st.value, ast.Await) and isinstance(st.value.value, ast.Call)):
            return None
        v = st.value.value
        if not (isinstance(v.func, ast.Attribute) and norm.raw(v.func.value) == "self" and v.func.attr.startswith("_") and v.func.attr in cls.methods and v.func.attr != name):
            return None
        h = cls.methods[v.func.attr]
        params = [a.arg for a in h.node.args.args[1:]]
        if not isinstance(h.node, ast.AsyncFunctionDef) or h.node.args.vararg or h.node.args.kwarg or h.node.args.kwonlyargs or v.keywords or len(v.args) != len(params):
            return None
        if any(isinstance(r, ast.Return) and r.value is not None for r in ast.walk(h.node)) or not _spawns(h.node):
            return None
        return h, params, v

    if not any(helper_of(st) for st in ast.walk(fn.node) if isinstance(st, ast.Expr)):
        _INLINED[key] = fn
        return fn
    node = copy.deepcopy(fn.node)
    changed = True
    while changed:
        changed = False
        for parent in ast.walk(node):
            for field, value in ast.iter_fields(parent):
                if not isinstance(value, list):
                    continue
                for i, st in enumerate(value):
                    hp = helper_of(st) if isinstance(st, ast.AST) else None
                    if hp is None:
                        continue
                    h, params, v = hp
                    body = copy.deepcopy(h.node.body)
                    if body and isinstance(body[0], ast.Expr) and isinstance(body[0].value, ast.Constant) and isinstance(body[0].value.value, str):
                        body = body[1:]
                    binds = []
                    for p_, a_ in zip(params, v.args):
                        b_ = ast.Assign(targets=[ast.Name(id=p_, ctx=ast.Store())], value=a_, type_comment=None)
                        ast.copy_location(b_, st)
                        ast.copy_location(b_.targets[0], st)
                        binds.append(b_)
                    value[i:i + 1] = binds + body
                    changed = True
                    break
                if changed:
                    break
            if changed:
                break

    def setp(n, par, field=None):
        n.parent = par
        n.pfield = field
        n.mod = getattr(fn.node, "mod", None)
        n.fn = None
        for f_, v_ in ast.iter_fields(n):
            for ch in (v_ if isinstance(v_, list) else [v_]):
                if isinstance(ch, ast.AST):
                    setp(ch, n, f_)

    setp(node, getattr(fn.node, "parent", None))
    merged = FunctionInfo(fn.module, node, fn.qualname, fn.cls, fn.outer)
    for x in ast.walk(node):
        x.fn = merged
    _INLINED[key] = merged
    return merged


def same_node(fn, orig):
    """The node of (inlined) function `fn` that stands for node `orig` of the original tree: same type, position and text."""
    for x in ast.walk(fn.node):
        if type(x) is type(orig) and getattr(x, "lineno", None) == getattr(orig, "lineno", None) and getattr(x, "col_offset", None) == getattr(orig, "col_offset", None) and norm.raw(x) == norm.raw(orig):
            return x
    return orig


# ---- int() of text ---------------------------------------------------------------------------------------------------------------------------
def int_sites(chk, rule: str, repo: Repo, folder, modules: list[str], table: dict, what: str, gate=None, min_sites: int = 1):
    """Every `int(<non-constant>)` call of `modules` is one of: lexically gated with a bounded number of digits (or a power-of-two base) by
    `gate(call, folder)`; enclosed by a handler for ValueError / Exception in its own function; or listed in `table`
    {(module, function qualname, argument text): reason} - the instances confirmed by reading (a number already, text the application
    supplies, a function whose contract is to raise ValueError).  Anything else is text of a peer converted with nothing between it and the
    caller: `int()` raises ValueError for a non-number and, since CPython 3.11, for a decimal string of more than 4300 digits, which every
    `[0-9]+` / `isdigit()` gate lets through."""
    from . import pc as PC
    n = 0
    used = set()
    for rel in modules:
        mod = repo.module(rel)
        for fn in mod.functions.values():
            for c in ast.walk(fn.node):
                if not (isinstance(c, ast.Call) and isinstance(c.func, ast.Name) and c.func.id == "int" and c.args and not isinstance(c.args[0], ast.Constant)):
                    continue
                if getattr(c, "fn", None) is not fn:
                    continue
                n += 1
                key = (rel, fn.qualname, norm.raw(c.args[0]))
                handled = any(any(x in ("ValueError", "Exception", "BaseException") for x in PC.handler_types(h)) for _t, h in enclosing_try_handlers(c))
                if gate is not None and gate(c, folder):
                    chk.ok(rule, c, f"`{short(c, 40)}`: lexically gated, bounded number of digits (or power-of-two base)")
                elif handled:
                    chk.ok(rule, c, f"`{short(c, 40)}`: a ValueError handler of {fn.qualname} encloses the call")
                elif key in table:
                    used.add(key)
                    chk.ok(rule, c, f"`{short(c, 40)}`: {table[key]}")
                else:
                    chk.violation(rule, c, short(c), "a bounded lexical gate ([0-9]{1,N}), or `except ValueError` around the conversion",
                                  f"{fn.qualname}: {what} - `{short(c, 40)}` raises ValueError for text that is no number and for a decimal string of more than 4300 digits (about 5 kB, inside the header limits; `[0-9]+`, `\\\\d*` and isdigit() let it through): the exception reaches the caller as it is")
    stale = [k for k in table if k[0] in modules and k not in used]
    for k in stale:
        chk.analysis_error(f"{rule}: the listed instance {k} no longer exists - re-confirm the table")
    chk.expect_count(rule, n, min_sites, f"int() conversions of non-constant values in {', '.join(modules)}")


def iteration_edges(loop: ast.For, value):
    """Edge predicate for find_path_edges: True for the branch of a test of the loop variable alone (`retry_count == 0`, in either polarity and
    branch order) that is *not* taken when the loop variable has `value`.  A way round `for i in range(K)` is then examined once per iteration
    that is followed by another one (i = 0 .. K-2); what the last iteration does is not a way round."""
    from .dtable import Evaluator
    lv = {x.id for x in ast.walk(loop.target) if isinstance(x, ast.Name)}

    def pred(a, b, k):
        if not (a.kind == "test" and k in ("T", "F") and lv and {x.id for x in ast.walk(a.ast) if isinstance(x, ast.Name)} <= lv):
            return False
        try:
            v = bool(Evaluator({n: value for n in lv}).ev(a.ast))
        except Exception:
            return False
        return (k == "T") != v
    return pred


def repeating_values(loop: ast.For):
    """Values of the loop variable in the iterations of `for i in range(K)` (K constant) that are followed by another iteration; None if the
    iterable is something else."""
    it = loop.iter
    if isinstance(it, ast.Call) and isinstance(it.func, ast.Name) and it.func.id == "range" and len(it.args) == 1 and isinstance(it.args[0], ast.Constant) and isinstance(it.args[0].value, int):
        return list(range(max(it.args[0].value - 1, 0)))
    return None
