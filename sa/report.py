"""Verdict protocol, evidence files, known findings, replay files."""
from __future__ import annotations

import ast
import hashlib
import json
import os
import re
import time

VERIF = os.path.dirname(os.path.dirname(os.path.abspath(__file__)))


def _norm_construct(s: str) -> str:
    return re.sub(r"\s+", " ", s.strip())


class Finding:
    def __init__(self, prop, rule, file, scope, construct, missing, message, lineno=0, detail=None):
        self.prop = prop
        self.rule = rule
        self.file = file
        self.scope = scope
        self.construct = _norm_construct(construct)
        self.missing = _norm_construct(missing or "")
        self.message = message
        self.lineno = lineno
        self.detail = detail or {}

    def key(self):
        return (self.prop, self.rule, self.file, self.scope, self.construct, self.missing)

    def as_dict(self):
        return {
            "property": self.prop,
            "rule": self.rule,
            "file": self.file,
            "scope": self.scope,
            "construct": self.construct,
            "missing": self.missing,
            "message": self.message,
            "lineno": self.lineno,
            "detail": self.detail,
        }


class Check:
    def __init__(self, prop: str, tier: str, repo, seed: int = 0, quiet: bool = False):
        self.prop = prop
        self.tier = tier
        self.repo = repo
        self.seed = seed
        self.quiet = quiet
        self.t0 = time.time()
        self.instances: list[dict] = []  # satisfied rule instances
        self.findings: list[Finding] = []
        self.by_rule: dict[str, int] = {}
        self.notes: list[str] = []
        self.explanation = ""
        self.not_decided = ""
        self.assumptions: list[str] = []
        self.exhaustive_domains: list[str] = []
        self.extra: dict = {}
        self.analysis_errors: list[str] = []
        self.write_evidence = True

    # -- recording --------------------------------------------------------------------------------
    def ok(self, rule: str, node_or_where, what: str, **detail):
        where, line = self._where(node_or_where)
        self.instances.append({"rule": rule, "where": where, "line": line, "what": what, **detail})
        self.by_rule[rule] = self.by_rule.get(rule, 0) + 1

    def _where(self, x):
        if isinstance(x, str):
            return x, 0
        if isinstance(x, tuple):
            return x[0], x[1]
        if isinstance(x, ast.AST):
            mod = getattr(x, "mod", None)
            fn = getattr(x, "fn", None)
            rel = mod.rel if mod is not None else "?"
            q = fn.qualname if fn is not None else "<module>"
            return f"{rel}:{q}", getattr(x, "lineno", 0)
        if hasattr(x, "where"):
            return x.where, getattr(x.node, "lineno", 0)
        return str(x), 0

    def violation(self, rule: str, node_or_where, construct: str, missing: str, message: str, **detail):
        where, line = self._where(node_or_where)
        file, _, scope = where.partition(":")
        f = Finding(self.prop, rule, file, scope, construct, missing, message, line, detail)
        # dedupe
        if f.key() not in {g.key() for g in self.findings}:
            self.findings.append(f)
        self.by_rule.setdefault(rule, 0)

    def include(self, run_fn, rule_prefixes: tuple[str, ...], rename: tuple[str, str]):
        """Run another property's rule table and adopt the instances / findings of the named rules under this
        property's id (shared rules: one implementation, evaluated for every property that relies on it)."""
        sub = Check(self.prop, self.tier, self.repo, self.seed, quiet=True)
        sub.write_evidence = False
        run_fn(sub)
        old, new = rename
        for i in sub.instances:
            if i["rule"].startswith(rule_prefixes):
                j = dict(i)
                j["rule"] = new + i["rule"][len(old):] if i["rule"].startswith(old) else i["rule"]
                self.instances.append(j)
                self.by_rule[j["rule"]] = self.by_rule.get(j["rule"], 0) + 1
        for f in sub.findings:
            if f.rule.startswith(rule_prefixes):
                f.prop = self.prop
                f.rule = new + f.rule[len(old):] if f.rule.startswith(old) else f.rule
                if f.key() not in {g.key() for g in self.findings}:
                    self.findings.append(f)
                self.by_rule.setdefault(f.rule, 0)
        for e in sub.analysis_errors:
            if any(p in e for p in rule_prefixes):
                self.analysis_errors.append(e)

    def analysis_error(self, msg: str):
        self.analysis_errors.append(msg)

    def expect_count(self, rule: str, found: int, confirmed: int, what: str):
        """Vacuity guard for sweep rules: fewer matches than confirmed by hand is an analysis error."""
        if found < confirmed:
            self.analysis_error(f"{rule}: sweep matched {found} {what}, {confirmed} were confirmed by hand; the rule no longer sees its sites")

    # -- known findings -----------------------------------------------------------------------------
    def _known(self):
        p = os.path.join(VERIF, "known_findings.json")
        if not os.path.exists(p):
            return []
        with open(p) as fh:
            return json.load(fh).get("findings", [])

    # -- finish ---------------------------------------------------------------------------------------
    def finish(self) -> int:
        known = [k for k in self._known() if k.get("status") == "known" and k.get("property") == self.prop]
        unlisted = []
        listed = []
        for f in self.findings:
            hit = None
            for k in known:
                if (
                    k.get("rule") == f.rule
                    and k.get("file") == f.file
                    and k.get("scope") == f.scope
                    and _norm_construct(k.get("construct", "")) == f.construct
                    and _norm_construct(k.get("missing", "")) == f.missing
                ):
                    hit = k
                    break
            (listed if hit else unlisted).append((f, hit))
        wall = time.time() - self.t0
        replay_paths = []
        rdir = os.path.join(VERIF, "replays", self.prop)
        for f, _ in unlisted:
            os.makedirs(rdir, exist_ok=True)
            h = hashlib.sha1(repr(f.key()).encode()).hexdigest()[:12]
            rp = os.path.join(rdir, f"{f.rule}-{h}.json")
            d = f.as_dict()
            try:
                mod = self.repo.module(f.file)
                d["excerpt"] = mod.excerpt(f.lineno, 4, 4) if f.lineno else ""
            except Exception:
                d["excerpt"] = ""
            with open(rp, "w") as fh:
                json.dump(d, fh, indent=1, default=str)
            replay_paths.append(rp)
        if self.write_evidence:
            self._write_evidence(wall, len(unlisted))
        if not self.quiet:
            for rule, n in sorted(self.by_rule.items()):
                print(f"  rule {rule}: {n} instance(s) hold")
            for f, k in listed:
                print(f"KNOWN-FINDING: property={self.prop} {f.rule} {f.file}:{f.scope} `{f.construct}` missing `{f.missing}` - {k.get('what', f.message)}")
            for (f, _), rp in zip(unlisted, replay_paths):
                print(f"  {f.file}:{f.lineno} [{f.rule}] in {f.scope}: {f.message}")
                print(f"    construct: {f.construct}")
                if f.missing:
                    print(f"    missing/offending: {f.missing}")
                for k2, v in f.detail.items():
                    print(f"    {k2}: {v}")
                print(f"VIOLATION property={self.prop} replay={rp}")
            for e in self.analysis_errors:
                print(f"ANALYSIS-ERROR property={self.prop} {e}")
            print(
                f"[{self.prop}/{self.tier}] instances={len(self.instances)} rules={len(self.by_rule)} "
                f"violations={len(unlisted)} known={len(listed)} analysis_errors={len(self.analysis_errors)} wall={wall:.2f}s"
            )
        if unlisted:
            return 1
        if self.analysis_errors:
            return 2
        return 0

    def _write_evidence(self, wall: float, n_viol: int):
        distinct = {(i["rule"], i["where"], i["what"]) for i in self.instances}
        samples = []
        seen_rules = set()
        for i in self.instances:
            if i["rule"] not in seen_rules or len(samples) < 12:
                if len(samples) < 40:
                    samples.append(i)
                seen_rules.add(i["rule"])
        ev = {
            "property_id": self.prop,
            "tier": self.tier,
            "seed": self.seed,
            "level": "other",
            "coverage": {
                "explanation": self.explanation + (" NOT DECIDED: " + self.not_decided if self.not_decided else ""),
                "evaluations": len(self.instances) + len(self.findings),
                "distinct_nontrivial": len(distinct),
                "rule": "one evaluation = one rule instance (a matched construct of /repo's current source together with the obligation checked on it); "
                "distinct = different (rule, enclosing function, construct); non-trivial = the rule matched a construct and checked a non-empty obligation on it",
                "samples": samples,
                "instances_by_rule": dict(sorted(self.by_rule.items())),
                "modules_consulted": sorted(self.repo.consulted),
                "exhaustive": bool(self.exhaustive_domains),
                "exhaustive_domains": self.exhaustive_domains,
                "findings": [f.as_dict() for f in self.findings],
                "analysis_errors": self.analysis_errors,
                **self.extra,
            },
            "assumptions": self.assumptions
            + [
                "CPython ast / re._parser are correct; analysed text is /repo's working tree at the time of the run",
                "assert statements hold; no monkey-patching; application-supplied subclasses/handlers are out of scope",
            ],
            "wall_s": round(wall, 3),
            "violations": n_viol,
        }
        os.makedirs(os.path.join(VERIF, "evidence"), exist_ok=True)
        with open(os.path.join(VERIF, "evidence", f"{self.prop}.json"), "w") as fh:
            json.dump(ev, fh, indent=1, default=str)
