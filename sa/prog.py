"""Program-level facts: call resolution, attribute writers, call sites, suspension points."""
from __future__ import annotations

import ast

from .loader import ClassInfo, FunctionInfo, Repo, enclosing_class, walk_fn
from . import norm

MUTATORS = {
    "append", "appendleft", "pop", "popleft", "popitem", "clear", "add", "discard", "remove", "extend", "update",
    "setdefault", "move_to_end", "insert", "sort", "reverse", "extendleft", "difference_update", "intersection_update",
}


# --------------------------------------------------------------------------------------------------
# call resolution


def _self_name(fn: FunctionInfo) -> str | None:
    f = fn
    while f is not None:
        if f.cls is not None:
            a = f.node.args
            allp = a.posonlyargs + a.args
            decos = [ast.unparse(d) for d in f.node.decorator_list]
            if "staticmethod" in decos:
                return None
            return allp[0].arg if allp else None
        f = f.outer
    return None


def attr_class(repo: Repo, ci: ClassInfo, attr: str) -> ClassInfo | None:
    """Class of `self.attr` from `self.attr = Cls(...)` / `self.attr: Cls` in any method of the MRO."""
    for c in repo.mro(ci):
        for m in c.methods.values():
            for n in walk_fn(m.node):
                tgt = val = ann = None
                if isinstance(n, ast.Assign) and len(n.targets) == 1:
                    tgt, val = n.targets[0], n.value
                elif isinstance(n, ast.AnnAssign):
                    tgt, val, ann = n.target, n.value, n.annotation
                if isinstance(tgt, ast.Attribute) and tgt.attr == attr and isinstance(tgt.value, ast.Name) and tgt.value.id == "self":
                    for cand in (ann, val):
                        if cand is None:
                            continue
                        for sub in ast.walk(cand):
                            nm = None
                            if isinstance(sub, ast.Call) and isinstance(sub.func, ast.Name):
                                nm = sub.func.id
                            elif isinstance(sub, ast.Name):
                                nm = sub.id
                            elif isinstance(sub, ast.Constant) and isinstance(sub.value, str) and sub.value.isidentifier():
                                nm = sub.value
                            if nm:
                                r = repo.resolve_name(c.module, nm)
                                if r and r[0] == "class":
                                    return r[1]
        for k, v in c.attrs.items():
            pass
    # class-level annotations:  attr: "Cls"
    for c in repo.mro(ci):
        for st in c.node.body:
            if isinstance(st, ast.AnnAssign) and isinstance(st.target, ast.Name) and st.target.id == attr:
                for sub in ast.walk(st.annotation):
                    nm = sub.id if isinstance(sub, ast.Name) else (sub.value if isinstance(sub, ast.Constant) and isinstance(sub.value, str) else None)
                    if nm and nm.isidentifier():
                        r = repo.resolve_name(c.module, nm)
                        if r and r[0] == "class":
                            return r[1]
    return None


def resolve_call(repo: Repo, call: ast.Call) -> FunctionInfo | None:
    fn: FunctionInfo | None = getattr(call, "fn", None)
    mod = call.mod
    f = call.func
    if isinstance(f, ast.Name):
        # nested function of an enclosing function
        g = fn
        while g is not None:
            q = g.qualname + "." + f.id
            if q in mod.functions:
                return mod.functions[q]
            g = g.outer
        r = repo.resolve_name(mod, f.id)
        if r and r[0] == "func":
            return r[1]
        if r and r[0] == "class":
            return repo.method(r[1], "__init__")
        return None
    if isinstance(f, ast.Attribute):
        v = f.value
        if fn is not None:
            ci = enclosing_class(repo, fn)
            sn = _self_name(fn)
            if ci is not None and isinstance(v, ast.Name) and sn and v.id == sn:
                return repo.method(ci, f.attr)
            if ci is not None and isinstance(v, ast.Call) and isinstance(v.func, ast.Name) and v.func.id == "super":
                mro = repo.mro(ci)
                for c in mro[1:]:
                    if f.attr in c.methods:
                        return c.methods[f.attr]
                return None
            if ci is not None and isinstance(v, ast.Attribute) and isinstance(v.value, ast.Name) and sn and v.value.id == sn:
                ac = attr_class(repo, ci, v.attr)
                if ac is not None:
                    return repo.method(ac, f.attr)
        if isinstance(v, ast.Name):
            r = repo.resolve_name(mod, v.id)
            if r and r[0] == "module":
                return r[1].functions.get(f.attr)
            if r and r[0] == "class":
                return repo.method(r[1], f.attr)
            # local variable constructed from a class:  x = Cls(...)
            if fn is not None:
                d = norm.fn_defs(fn.node).single_value(v.id)
                if isinstance(d, ast.Call) and isinstance(d.func, ast.Name):
                    r2 = repo.resolve_name(mod, d.func.id)
                    if r2 and r2[0] == "class":
                        return repo.method(r2[1], f.attr)
    return None


def unique_method(repo: Repo, name: str, modules: list[str] | None = None) -> FunctionInfo | None:
    """Duck-typed receivers: the package's single implementation of a method name, if unique."""
    hits = []
    for m in (repo.all_modules() if modules is None else [repo.module(x) for x in modules]):
        for c in m.classes.values():
            if name in c.methods:
                hits.append(c.methods[name])
    return hits[0] if len(hits) == 1 else None


def calls_in(fn_node, nested=False):
    for n in walk_fn(fn_node, include_nested=nested):
        if isinstance(n, ast.Call):
            yield n


def call_name(call: ast.Call) -> str:
    f = call.func
    if isinstance(f, ast.Name):
        return f.id
    if isinstance(f, ast.Attribute):
        return f.attr
    return ""


def call_sites(repo: Repo, target: FunctionInfo, modules: list[str] | None = None, by_name_fallback=True):
    """Call nodes in the package that resolve to `target` (or, for unresolved receivers, whose
    method name equals the target's and no other package class defines that name)."""
    out = []
    uniq = unique_method(repo, target.name) is target if target.cls is not None else False
    for m in (repo.all_modules() if modules is None else [repo.module(x) for x in modules]):
        for fn in m.functions.values():
            for c in calls_in(fn.node):
                if call_name(c) != target.name:
                    continue
                r = resolve_call(repo, c)
                if r is target:
                    out.append(c)
                elif r is None and by_name_fallback and isinstance(c.func, ast.Attribute) and uniq:
                    out.append(c)
                elif r is not None and r is not target and target.cls is not None and r.cls is not None:
                    # call through a base class method that the target overrides
                    if r.name == target.name and r.cls in repo.mro(target.cls)[1:]:
                        out.append(c)
    return out


# --------------------------------------------------------------------------------------------------
# attribute writers


def _attr_chain_has(node, attr: str) -> bool:
    """node is X.attr, X.attr[...], (X.attr[...])[...]"""
    n = node
    while isinstance(n, ast.Subscript):
        n = n.value
    return isinstance(n, ast.Attribute) and n.attr == attr


def writers(repo: Repo, modules: list[str], attr: str, receiver_self_only: bool = False):
    """{FunctionInfo: [(node, kind)]} of writes to `<recv>.attr` in the given modules, through
    subscripts and single-definition local aliases.  kind: assign|aug|del|call:<mutator>"""
    out: dict[FunctionInfo, list] = {}
    for rel in modules:
        m = repo.module(rel)
        for fn in m.functions.values():
            hits = []
            defs = norm.fn_defs(fn.node)
            aliases = set()
            for name, ds in defs.defs.items():
                for _n, v in ds:
                    if v is not None and _attr_chain_has(v, attr):
                        aliases.add(name)
                    # alias of bound mutator: self._put = self._buffer.append
                    if v is not None and isinstance(v, ast.Attribute) and v.attr in MUTATORS and _attr_chain_has(v.value, attr):
                        aliases.add(name + "()")

            def is_target(t):
                if _attr_chain_has(t, attr):
                    return True
                n = t
                while isinstance(n, ast.Subscript):
                    n = n.value
                return isinstance(n, ast.Name) and n.id in aliases and isinstance(t, ast.Subscript)

            for n in walk_fn(fn.node):
                if isinstance(n, ast.Assign):
                    for t in n.targets:
                        for tt in (t.elts if isinstance(t, (ast.Tuple, ast.List)) else [t]):
                            if is_target(tt):
                                hits.append((n, "assign"))
                elif isinstance(n, ast.AnnAssign):
                    if n.value is not None and is_target(n.target):
                        hits.append((n, "assign"))
                elif isinstance(n, ast.AugAssign):
                    if is_target(n.target):
                        hits.append((n, "aug"))
                elif isinstance(n, ast.Delete):
                    for t in n.targets:
                        if is_target(t):
                            hits.append((n, "del"))
                elif isinstance(n, ast.Call) and isinstance(n.func, ast.Attribute) and n.func.attr in MUTATORS:
                    recv = n.func.value
                    if _attr_chain_has(recv, attr):
                        hits.append((n, "call:" + n.func.attr))
                    else:
                        r = recv
                        while isinstance(r, ast.Subscript):
                            r = r.value
                        if isinstance(r, ast.Name) and r.id in aliases:
                            hits.append((n, "call:" + n.func.attr))
                elif isinstance(n, ast.Call) and isinstance(n.func, ast.Name) and (n.func.id + "()") in aliases:
                    hits.append((n, "call:alias"))
            if hits:
                out[fn] = hits
    return out


# --------------------------------------------------------------------------------------------------
# suspension points


def awaits_in(node) -> list:
    """Await expressions (and async-with / async-for headers) inside node, not descending into nested defs."""
    out = []
    stack = [node]
    while stack:
        n = stack.pop()
        if isinstance(n, ast.Await):
            out.append(n)
        if isinstance(n, (ast.FunctionDef, ast.AsyncFunctionDef, ast.Lambda, ast.ClassDef)) and n is not node:
            continue
        stack.extend(ast.iter_child_nodes(n))
    return out


TIMEOUT_CTX = ("ceil_timeout", "timeout", "async_timeout.timeout", "asyncio.timeout")


def is_timeout_ctx(expr) -> bool:
    if isinstance(expr, ast.Call):
        t = ast.unparse(expr.func)
        return t in TIMEOUT_CTX or t.endswith(".timeout") or t.endswith("ceil_timeout")
    return False


def enclosing(node, types, stop_at_fn=True):
    """Yield enclosing nodes of the given types, innermost first."""
    n = getattr(node, "parent", None)
    while n is not None:
        if stop_at_fn and isinstance(n, (ast.FunctionDef, ast.AsyncFunctionDef, ast.Lambda)):
            return
        if isinstance(n, types):
            yield n
        n = getattr(n, "parent", None)


def in_body_of(node, compound, field="body") -> bool:
    """Is node inside compound.<field> (e.g. try body, finally body)?"""
    n = node
    while n is not None and n is not compound:
        p = getattr(n, "parent", None)
        if p is compound:
            return getattr(n, "pfield", None) == field
        n = p
    return False
