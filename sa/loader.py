"""Source provider and program model: modules, classes, functions, parents, imports, MRO.

All engines read sources through Repo; an in-memory overlay (rel path -> text) lets the
self-validation analyse mutated programs without touching the disk."""
from __future__ import annotations

import ast
import os
from typing import Iterator


class AnalysisError(Exception):
    """The analysis could not be carried out (exit 2, never a verdict)."""


class FunctionInfo:
    def __init__(self, module: "Module", node, qualname: str, cls: "ClassInfo | None", outer: "FunctionInfo | None"):
        self.module = module
        self.node = node
        self.qualname = qualname
        self.cls = cls
        self.outer = outer
        self.is_async = isinstance(node, ast.AsyncFunctionDef)
        self.name = node.name

    @property
    def where(self) -> str:
        return f"{self.module.rel}:{self.qualname}"

    def __repr__(self) -> str:
        return f"<fn {self.where}>"


class ClassInfo:
    def __init__(self, module: "Module", node: ast.ClassDef, qualname: str):
        self.module = module
        self.node = node
        self.name = node.name
        self.qualname = qualname
        self.methods: dict[str, FunctionInfo] = {}
        self.attrs: dict[str, ast.AST] = {}  # class-level assignments name -> value node

    def base_names(self) -> list[str]:
        out = []
        for b in self.node.bases:
            if isinstance(b, ast.Subscript):
                b = b.value
            if isinstance(b, ast.Name):
                out.append(b.id)
            elif isinstance(b, ast.Attribute):
                out.append(b.attr)
        return out

    def __repr__(self) -> str:
        return f"<class {self.module.rel}:{self.qualname}>"


class Module:
    def __init__(self, repo: "Repo", rel: str, src: str):
        self.repo = repo
        self.rel = rel
        # code that was moved into names the reference tree does not know is analysed in its inlined normal form (see sa/inline.py);
        # a module without such names is analysed as it is in the file
        from . import inline

        self.src_file = src
        src, self.inlined = inline.normalise_source(src, rel)
        self.src = src
        self.lines = src.splitlines()
        try:
            self.tree = ast.parse(src, filename=rel)
        except SyntaxError as e:  # pragma: no cover
            raise AnalysisError(f"cannot parse {rel}: {e}") from e
        # locals are identified by how they are bound, not by their spelling (see sa/alpha.py)
        from . import alpha

        self.renamed_locals = alpha.normalise_module(self.tree, rel) if os.environ.get("VERIF_NO_ALPHA") != "1" else 0
        # ... and comparisons by what they test, not by which operand is written first (see sa/orient.py); after the renaming, so that
        # the texts are comparable with the reference
        from . import orient

        self.mirrored_compares = orient.normalise_module(self.tree, rel) if os.environ.get("VERIF_NO_ALPHA") != "1" else 0
        self.canon_aug = orient.canon_augassign(self.tree) if os.environ.get("VERIF_NO_ALPHA") != "1" else 0
        self.canon_walrus = orient.canon_walrus(self.tree) if os.environ.get("VERIF_NO_ALPHA") != "1" else 0
        self.canon_tmp = orient.canon_single_use_temps(self.tree) if os.environ.get("VERIF_NO_ALPHA") != "1" else 0
        self.canon_if = orient.canon_nested_if(self.tree) if os.environ.get("VERIF_NO_ALPHA") != "1" else 0
        self.functions: dict[str, FunctionInfo] = {}
        self.classes: dict[str, ClassInfo] = {}
        self.consts: dict[str, ast.AST] = {}
        self.imports: dict[str, tuple[str, str | None]] = {}  # local name -> (module rel or dotted, attr or None)
        self._index()

    # -- indexing -------------------------------------------------------------------------
    def _index(self) -> None:
        self.tree.parent = None  # type: ignore[attr-defined]
        self.tree.fn = None  # type: ignore[attr-defined]
        self.tree.mod = self  # type: ignore[attr-defined]

        def walk(node, fn: FunctionInfo | None, cls: ClassInfo | None, prefix: str):
            for field, value in ast.iter_fields(node):
                children = value if isinstance(value, list) else [value]
                for ch in children:
                    if not isinstance(ch, ast.AST):
                        continue
                    ch.parent = node  # type: ignore[attr-defined]
                    ch.pfield = field  # type: ignore[attr-defined]
                    ch.mod = self  # type: ignore[attr-defined]
                    ch.fn = fn  # type: ignore[attr-defined]
                    if isinstance(ch, (ast.FunctionDef, ast.AsyncFunctionDef)):
                        q = prefix + ch.name
                        # decorators/defaults belong to the outer scope; body to the new one
                        info = FunctionInfo(self, ch, q, cls if (fn is None or fn.node is not node) and isinstance(node, ast.ClassDef) else None, fn)
                        if q not in self.functions:  # first definition wins (overloads come first -> replace)
                            self.functions[q] = info
                        else:
                            # @overload stubs: keep the last real definition
                            self.functions[q] = info
                        if isinstance(node, ast.ClassDef) and cls is not None and cls.node is node:
                            cls.methods[ch.name] = info
                        walk(ch, info, None, q + ".")
                    elif isinstance(ch, ast.ClassDef):
                        q = prefix + ch.name
                        ci = ClassInfo(self, ch, q)
                        self.classes[q] = ci
                        walk(ch, fn, ci, q + ".")
                    else:
                        walk(ch, fn, cls if isinstance(node, ast.ClassDef) else None, prefix)
                        if isinstance(node, ast.ClassDef) and cls is not None and cls.node is node:
                            if isinstance(ch, ast.Assign) and len(ch.targets) == 1 and isinstance(ch.targets[0], ast.Name):
                                cls.attrs[ch.targets[0].id] = ch.value
                            elif isinstance(ch, ast.AnnAssign) and isinstance(ch.target, ast.Name) and ch.value is not None:
                                cls.attrs[ch.target.id] = ch.value

        walk(self.tree, None, None, "")
        pkg_dir = os.path.dirname(self.rel)
        for st in ast.walk(self.tree):
            if isinstance(st, ast.ImportFrom):
                base = pkg_dir
                if st.level:
                    for _ in range(st.level - 1):
                        base = os.path.dirname(base)
                    modpath = base + ("/" + st.module.replace(".", "/") if st.module else "")
                else:
                    modpath = (st.module or "").replace(".", "/")
                for a in st.names:
                    self.imports[a.asname or a.name] = (modpath, a.name)
            elif isinstance(st, ast.Import):
                for a in st.names:
                    self.imports[a.asname or a.name.split(".")[0]] = (a.name.replace(".", "/"), None)
        for st in self.tree.body:
            self._collect_const(st)

    def _collect_const(self, st) -> None:
        if isinstance(st, ast.Assign) and len(st.targets) == 1 and isinstance(st.targets[0], ast.Name):
            self.consts[st.targets[0].id] = st.value
        elif isinstance(st, ast.AnnAssign) and isinstance(st.target, ast.Name) and st.value is not None:
            self.consts[st.target.id] = st.value
        elif isinstance(st, (ast.If, ast.Try, ast.With)):
            for sub in getattr(st, "body", []):
                self._collect_const(sub)

    def text(self, node) -> str:
        return ast.get_source_segment(self.src, node) or ast.unparse(node)

    def excerpt(self, lineno: int, before: int = 2, after: int = 2) -> str:
        lo = max(1, lineno - before)
        hi = min(len(self.lines), lineno + after)
        return "\n".join(f"{i:5d}  {self.lines[i - 1]}" for i in range(lo, hi + 1))


class Repo:
    PKG = "aiohttp"

    def __init__(self, root: str = "/repo", overlay: dict[str, str] | None = None):
        self.root = root
        self.overlay = dict(overlay or {})
        self._mods: dict[str, Module] = {}
        self.consulted: set[str] = set()

    def rels(self) -> list[str]:
        out = []
        base = os.path.join(self.root, self.PKG)
        for d, _dirs, files in os.walk(base):
            for f in files:
                if f.endswith(".py"):
                    out.append(os.path.relpath(os.path.join(d, f), self.root))
        for k in self.overlay:
            if k not in out:
                out.append(k)
        return sorted(out)

    def read(self, rel: str) -> str:
        if rel in self.overlay:
            return self.overlay[rel]
        p = os.path.join(self.root, rel)
        if not os.path.exists(p):
            raise AnalysisError(f"anchor file vanished: {rel}")
        with open(p, encoding="utf-8") as fh:
            return fh.read()

    def module(self, rel: str) -> Module:
        if not rel.endswith(".py"):
            rel = rel + ".py"
        if rel not in self._mods:
            self._mods[rel] = Module(self, rel, self.read(rel))
        self.consulted.add(rel)
        return self._mods[rel]

    def has_module(self, rel: str) -> bool:
        if not rel.endswith(".py"):
            rel += ".py"
        return rel in self.overlay or os.path.exists(os.path.join(self.root, rel))

    def all_modules(self) -> list[Module]:
        return [self.module(r) for r in self.rels()]

    # -- lookups (fail as analysis errors: a vanished anchor is never a silent pass) --------
    def func(self, rel: str, qualname: str) -> FunctionInfo:
        m = self.module(rel)
        if qualname not in m.functions:
            raise AnalysisError(f"anchor function vanished: {rel}:{qualname}")
        return m.functions[qualname]

    def func_opt(self, rel: str, qualname: str) -> FunctionInfo | None:
        m = self.module(rel)
        return m.functions.get(qualname)

    def cls(self, rel: str, qualname: str) -> ClassInfo:
        m = self.module(rel)
        if qualname not in m.classes:
            raise AnalysisError(f"anchor class vanished: {rel}:{qualname}")
        return m.classes[qualname]

    def resolve_name(self, mod: Module, name: str, depth: int = 0):
        """Resolve a module-level name to ('class', ClassInfo) / ('func', FunctionInfo) /
        ('const', Module, node) / ('module', Module) / None, following package imports."""
        if depth > 6:
            return None
        if name in mod.classes:
            return ("class", mod.classes[name])
        if name in mod.functions:
            return ("func", mod.functions[name])
        if name in mod.consts:
            return ("const", mod, mod.consts[name])
        if name in mod.imports:
            modpath, attr = mod.imports[name]
            if attr is None:
                if self.has_module(modpath):
                    return ("module", self.module(modpath))
                return None
            # 'from . import hdrs' -> module; 'from .x import Y' -> Y in x
            if self.has_module(modpath + "/" + attr):
                return ("module", self.module(modpath + "/" + attr))
            if self.has_module(modpath + "/__init__"):
                if self.has_module(modpath + "/" + attr):
                    return ("module", self.module(modpath + "/" + attr))
                return self.resolve_name(self.module(modpath + "/__init__"), attr, depth + 1)
            if self.has_module(modpath):
                return self.resolve_name(self.module(modpath), attr, depth + 1)
        return None

    def mro(self, ci: ClassInfo) -> list[ClassInfo]:
        """Linearisation restricted to package classes (depth-first, left to right, dedup)."""
        out: list[ClassInfo] = []
        seen = set()

        def rec(c: ClassInfo, d: int):
            if id(c) in seen or d > 12:
                return
            seen.add(id(c))
            out.append(c)
            for b in c.base_names():
                r = self.resolve_name(c.module, b)
                if r and r[0] == "class":
                    rec(r[1], d + 1)

        rec(ci, 0)
        return out

    def method(self, ci: ClassInfo, name: str) -> FunctionInfo | None:
        for c in self.mro(ci):
            if name in c.methods:
                return c.methods[name]
        return None

    def class_attr(self, ci: ClassInfo, name: str):
        for c in self.mro(ci):
            if name in c.attrs:
                return c, c.attrs[name]
        return None

    def subclasses(self, ci: ClassInfo) -> list[ClassInfo]:
        out = []
        for m in self.all_modules():
            for c in m.classes.values():
                if c is not ci and ci in self.mro(c):
                    out.append(c)
        return out


def enclosing_stmt(node):
    while node is not None and not isinstance(node, ast.stmt):
        node = node.parent
    return node


def enclosing_class(repo: Repo, fn: FunctionInfo) -> ClassInfo | None:
    f = fn
    while f is not None:
        if f.cls is not None:
            return f.cls
        f = f.outer
    return None


def walk_fn(fn_node, include_nested: bool = False) -> Iterator[ast.AST]:
    """Walk the body of a function; nested function/class bodies excluded unless asked."""
    stack = list(reversed(fn_node.body))
    while stack:
        n = stack.pop()
        yield n
        for ch in ast.iter_child_nodes(n):
            if not include_nested and isinstance(ch, (ast.FunctionDef, ast.AsyncFunctionDef, ast.ClassDef, ast.Lambda)):
                continue
            stack.append(ch)
