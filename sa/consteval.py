"""Folding of module-level constants of the repository (never calls repository code).

Supported: literals, f-strings, tuple/list/set/dict displays, set/frozenset/tuple/list/range/len/
int/str/bytes/min/max/sorted/bool/ord/chr, arithmetic and set algebra on folded values,
comparisons, comprehensions over folded iterables, `re.escape`, `re.compile` (-> RegexConst),
`struct.Struct` (-> StructConst), `istr`/`upstr`, enum classes of the package (members folded
from the class body), names imported from package modules, a few stdlib constants."""
from __future__ import annotations

import ast
import operator
import re
import string
import sys
import zlib

from .loader import ClassInfo, Module, Repo


class NotConst(Exception):
    pass


class RegexConst:
    def __init__(self, pattern, flags):
        self.pattern = pattern
        self.flags = flags

    def __repr__(self):
        return f"RegexConst({self.pattern!r}, {self.flags})"


class StructConst:
    def __init__(self, fmt):
        self.fmt = fmt

    def __repr__(self):
        return f"StructConst({self.fmt!r})"


class EnumMember(int):
    """int subclass carrying the member name (IntEnum semantics are enough for the rules)."""

    def __new__(cls, value, name="", enum=""):
        o = int.__new__(cls, value)
        o.name_ = name
        o.enum_ = enum
        return o


class EnumConst:
    def __init__(self, name, members: dict):
        self.name = name
        self.members = members

    def __iter__(self):
        return iter(self.members.values())


_BIN = {
    ast.Add: operator.add, ast.Sub: operator.sub, ast.Mult: operator.mul, ast.BitOr: operator.or_, ast.BitAnd: operator.and_,
    ast.BitXor: operator.xor, ast.Mod: operator.mod, ast.FloorDiv: operator.floordiv, ast.LShift: operator.lshift,
    ast.RShift: operator.rshift, ast.Pow: operator.pow, ast.Div: operator.truediv,
}
_CMP = {
    ast.Eq: operator.eq, ast.NotEq: operator.ne, ast.Lt: operator.lt, ast.LtE: operator.le, ast.Gt: operator.gt, ast.GtE: operator.ge,
    ast.In: lambda a, b: a in b, ast.NotIn: lambda a, b: a not in b, ast.Is: lambda a, b: _same(a, b), ast.IsNot: lambda a, b: not _same(a, b),
}


def _same(a, b) -> bool:
    if isinstance(a, EnumMember) and isinstance(b, EnumMember):
        return a.enum_ == b.enum_ and a.name_ == b.name_
    return a is b


_SAFE_CALLS = {
    "set": set, "frozenset": frozenset, "tuple": tuple, "list": list, "range": range, "len": len, "int": int, "str": str,
    "bytes": bytes, "min": min, "max": max, "sorted": sorted, "bool": bool, "ord": ord, "chr": chr, "istr": str, "upstr": str,
    "dict": dict, "sum": sum, "any": any, "all": all, "abs": abs,
}
_STDLIB = {
    ("re", "ASCII"): re.ASCII, ("re", "A"): re.A, ("re", "IGNORECASE"): re.IGNORECASE, ("re", "I"): re.I, ("re", "VERBOSE"): re.VERBOSE,
    ("re", "X"): re.X, ("re", "DOTALL"): re.DOTALL, ("re", "S"): re.S, ("re", "MULTILINE"): re.MULTILINE, ("re", "M"): re.M,
    ("sys", "maxsize"): sys.maxsize, ("string", "printable"): string.printable, ("string", "digits"): string.digits,
    ("string", "ascii_letters"): string.ascii_letters, ("string", "hexdigits"): string.hexdigits,
    ("zlib", "MAX_WBITS"): zlib.MAX_WBITS, ("zlib", "Z_SYNC_FLUSH"): zlib.Z_SYNC_FLUSH, ("zlib", "Z_FULL_FLUSH"): zlib.Z_FULL_FLUSH,
}


class Folder:
    def __init__(self, repo: Repo):
        self.repo = repo
        self._memo: dict = {}

    def name(self, mod: Module, name: str, depth=0):
        key = (mod.rel, name)
        if key in self._memo:
            v = self._memo[key]
            if isinstance(v, NotConst):
                raise v
            return v
        try:
            v = self._name(mod, name, depth)
        except NotConst as e:
            self._memo[key] = e
            raise
        self._memo[key] = v
        return v

    def _name(self, mod, name, depth):
        if depth > 12:
            raise NotConst("depth")
        if name in ("True", "False", "None"):
            return {"True": True, "False": False, "None": None}[name]
        r = self.repo.resolve_name(mod, name)
        if r is None:
            raise NotConst(f"unresolved name {name} in {mod.rel}")
        if r[0] == "const":
            return self.eval(r[1], r[2], depth + 1)
        if r[0] == "class":
            return self.enum(r[1])
        raise NotConst(f"{name} is a {r[0]}")

    def enum(self, ci: ClassInfo):
        k = ("enum", ci.module.rel, ci.qualname)
        if k in self._memo:
            return self._memo[k]
        v = self._enum(ci)
        self._memo[k] = v
        return v

    def _enum(self, ci: ClassInfo):
        bases = ci.base_names()
        if not any(b in ("IntEnum", "Enum", "IntFlag", "Flag", "StrEnum") for b in bases):
            raise NotConst(f"class {ci.name} is not an enum")
        members = {}
        for k, v in ci.attrs.items():
            if k.startswith("_"):
                continue
            try:
                val = self.eval(ci.module, v)
            except NotConst:
                continue
            if isinstance(val, int) and not isinstance(val, bool):
                members[k] = EnumMember(val, k, ci.name)
            else:
                members[k] = val
        return EnumConst(ci.name, members)

    def eval(self, mod: Module, node, depth=0, env=None):
        env = env or {}
        ev = lambda n: self.eval(mod, n, depth + 1, env)  # noqa: E731
        if depth > 40:
            raise NotConst("depth")
        if isinstance(node, ast.Constant):
            return node.value
        if isinstance(node, ast.Name):
            if node.id in env:
                return env[node.id]
            return self.name(mod, node.id, depth + 1)
        if isinstance(node, ast.Attribute):
            if isinstance(node.value, ast.Name):
                base = node.value.id
                if (base, node.attr) in _STDLIB and base not in env:
                    return _STDLIB[(base, node.attr)]
                if base not in env:
                    r = self.repo.resolve_name(mod, base)
                    if r and r[0] == "module":
                        return self.name(r[1], node.attr, depth + 1)
                    if r and r[0] == "class":
                        try:
                            e = self.enum(r[1])
                            if node.attr in e.members:
                                return e.members[node.attr]
                        except NotConst:
                            pass
                        ca = self.repo.class_attr(r[1], node.attr)
                        if ca:
                            return self.eval(ca[0].module, ca[1], depth + 1)
            v = ev(node.value)
            if isinstance(v, EnumConst) and node.attr in v.members:
                return v.members[node.attr]
            if isinstance(v, EnumMember) and node.attr == "value":
                return int(v)
            if isinstance(v, RegexConst) and node.attr == "pattern":
                return v.pattern
            raise NotConst(f"attribute {ast.unparse(node)}")
        if isinstance(node, ast.JoinedStr):
            out = ""
            for p in node.values:
                if isinstance(p, ast.Constant):
                    out += p.value
                elif isinstance(p, ast.FormattedValue):
                    v = ev(p.value)
                    if isinstance(v, RegexConst):
                        v = v.pattern
                    out += format(v, ev(p.format_spec) if p.format_spec else "")
            return out
        if isinstance(node, (ast.Tuple, ast.List, ast.Set)):
            vals = []
            for e in node.elts:
                if isinstance(e, ast.Starred):
                    vals.extend(ev(e.value))
                else:
                    vals.append(ev(e))
            return {ast.Tuple: tuple, ast.List: list, ast.Set: set}[type(node)](vals)
        if isinstance(node, ast.Dict):
            d = {}
            for k, v in zip(node.keys, node.values):
                if k is None:
                    d.update(ev(v))
                else:
                    d[ev(k)] = ev(v)
            return d
        if isinstance(node, ast.BinOp):
            op = _BIN.get(type(node.op))
            if not op:
                raise NotConst("binop")
            l, r = ev(node.left), ev(node.right)
            try:
                return op(l, r)
            except Exception as e:
                raise NotConst(str(e))
        if isinstance(node, ast.UnaryOp):
            v = ev(node.operand)
            if isinstance(node.op, ast.Not):
                return not v
            if isinstance(node.op, ast.USub):
                return -v
            if isinstance(node.op, ast.Invert):
                return ~v
            return +v
        if isinstance(node, ast.BoolOp):
            if isinstance(node.op, ast.And):
                v = True
                for x in node.values:
                    v = ev(x)
                    if not v:
                        return v
                return v
            v = False
            for x in node.values:
                v = ev(x)
                if v:
                    return v
            return v
        if isinstance(node, ast.Compare):
            l = ev(node.left)
            for op, c in zip(node.ops, node.comparators):
                r = ev(c)
                if not _CMP[type(op)](l, r):
                    return False
                l = r
            return True
        if isinstance(node, ast.IfExp):
            return ev(node.body) if ev(node.test) else ev(node.orelse)
        if isinstance(node, ast.Subscript):
            v = ev(node.value)
            if isinstance(node.slice, ast.Slice):
                s = node.slice
                return v[slice(ev(s.lower) if s.lower else None, ev(s.upper) if s.upper else None, ev(s.step) if s.step else None)]
            return v[ev(node.slice)]
        if isinstance(node, (ast.SetComp, ast.ListComp, ast.GeneratorExp, ast.DictComp)):
            return self._comp(mod, node, depth, env)
        if isinstance(node, ast.Call):
            return self._call(mod, node, depth, env)
        raise NotConst(f"unsupported {type(node).__name__}: {ast.unparse(node)[:60]}")

    def _comp(self, mod, node, depth, env):
        out = []

        def rec(i, e):
            if i == len(node.generators):
                if isinstance(node, ast.DictComp):
                    out.append((self.eval(mod, node.key, depth + 1, e), self.eval(mod, node.value, depth + 1, e)))
                else:
                    out.append(self.eval(mod, node.elt, depth + 1, e))
                return
            g = node.generators[i]
            it = self.eval(mod, g.iter, depth + 1, e)
            for v in it:
                e2 = dict(e)
                self._bind(g.target, v, e2)
                if all(self.eval(mod, c, depth + 1, e2) for c in g.ifs):
                    rec(i + 1, e2)

        rec(0, dict(env))
        if isinstance(node, ast.SetComp):
            return set(out)
        if isinstance(node, ast.DictComp):
            return dict(out)
        return list(out)

    def _bind(self, t, v, env):
        if isinstance(t, ast.Name):
            env[t.id] = v
        elif isinstance(t, (ast.Tuple, ast.List)):
            for a, b in zip(t.elts, v):
                self._bind(a, b, env)
        else:
            raise NotConst("bind")

    def _call(self, mod, node, depth, env):
        ev = lambda n: self.eval(mod, n, depth + 1, env)  # noqa: E731
        f = node.func
        args = None
        if isinstance(f, ast.Name) and f.id not in env:
            r = self.repo.resolve_name(mod, f.id)
            if f.id in _SAFE_CALLS and (r is None or f.id in ("istr", "upstr")):
                args = [ev(a) for a in node.args]
                kw = {k.arg: ev(k.value) for k in node.keywords}
                try:
                    return _SAFE_CALLS[f.id](*args, **kw)
                except Exception as e:
                    raise NotConst(str(e))
            if f.id in ("Struct",):
                return StructConst(ev(node.args[0]))
            if f.id == "cast" and len(node.args) == 2:
                return ev(node.args[1])
        if isinstance(f, ast.Attribute):
            if isinstance(f.value, ast.Name) and f.value.id == "re":
                if f.attr == "compile":
                    pat = ev(node.args[0])
                    flags = ev(node.args[1]) if len(node.args) > 1 else 0
                    for k in node.keywords:
                        if k.arg == "flags":
                            flags = ev(k.value)
                    return RegexConst(pat, int(flags))
                if f.attr == "escape":
                    return re.escape(ev(node.args[0]))
            if isinstance(f.value, ast.Name) and f.value.id == "struct" and f.attr == "Struct":
                return StructConst(ev(node.args[0]))
            # methods of folded values
            try:
                v = ev(f.value)
            except NotConst:
                raise
            if isinstance(v, (str, bytes, frozenset, set, tuple, dict, list)) and f.attr in (
                "lower", "upper", "encode", "decode", "union", "difference", "intersection", "join", "split", "strip", "keys", "values", "items",
                "format", "replace", "title", "casefold",
            ):
                args = [ev(a) for a in node.args]
                try:
                    return getattr(v, f.attr)(*args)
                except Exception as e:
                    raise NotConst(str(e))
        raise NotConst(f"call {ast.unparse(node)[:60]}")


def fold_in_function(folder: Folder, node):
    """Fold an expression occurring inside a function (module constants only)."""
    return folder.eval(node.mod, node)
