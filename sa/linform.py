"""Linear length forms: the length of a bytes expression / the value of an integer expression as
(constant, multiset of symbolic terms).  `b"--" + X + b"\\r\\n"` -> (4, {len(X): 1});
`2 + len(X) + 2 + n` -> (4, {len(X): 1, n: 1})."""
from __future__ import annotations

import ast
from collections import Counter

from . import norm


class NotLinear(Exception):
    pass


def of_bytes(e) -> tuple[int, Counter]:
    """Length form of a bytes-valued expression."""
    if isinstance(e, ast.Constant) and isinstance(e.value, (bytes, str)):
        return len(e.value), Counter()
    if isinstance(e, ast.BinOp) and isinstance(e.op, ast.Add):
        c1, t1 = of_bytes(e.left)
        c2, t2 = of_bytes(e.right)
        return c1 + c2, t1 + t2
    return 0, Counter({f"len({norm.raw(e)})": 1})


def of_int(e) -> tuple[int, Counter]:
    """Form of an integer expression built from +, int constants, len() calls and names."""
    if isinstance(e, ast.Constant) and isinstance(e.value, int):
        return e.value, Counter()
    if isinstance(e, ast.BinOp) and isinstance(e.op, ast.Add):
        c1, t1 = of_int(e.left)
        c2, t2 = of_int(e.right)
        return c1 + c2, t1 + t2
    if isinstance(e, ast.Call) and isinstance(e.func, ast.Name) and e.func.id == "int" and len(e.args) == 1:
        return of_int(e.args[0])
    if isinstance(e, ast.Call) and isinstance(e.func, ast.Name) and e.func.id == "len" and len(e.args) == 1:
        return 0, Counter({f"len({norm.raw(e.args[0])})": 1})
    if isinstance(e, (ast.Name, ast.Attribute)):
        return 0, Counter({norm.raw(e): 1})
    raise NotLinear(norm.raw(e))


def add(a, b):
    return a[0] + b[0], a[1] + b[1]


def fmt(f) -> str:
    c, t = f
    parts = [str(c)] + [(f"{n}*" if n != 1 else "") + k for k, n in sorted(t.items())]
    return " + ".join(parts)
