"""Expression normalisation: local-definition substitution, constant aliases, boolean tests -> CNF.

A *literal* is (text, positive) where text is the unparsed normalised atom.  A test is turned into a
conjunction of clauses (CNF); a clause is a frozenset of literals (disjunction)."""
from __future__ import annotations

import ast
from dataclasses import dataclass

MAX_CLAUSES = 64
SUBST_DEPTH = 4


def clone(node):
    """Structural copy of an AST node (fields and positions only; no parent/fn back pointers)."""
    if isinstance(node, list):
        return [clone(x) for x in node]
    if not isinstance(node, ast.AST):
        return node
    new = node.__class__()
    for f in node._fields:
        if hasattr(node, f):
            setattr(new, f, clone(getattr(node, f)))
    for a in ("lineno", "col_offset", "end_lineno", "end_col_offset"):
        if hasattr(node, a):
            setattr(new, a, getattr(node, a))
    return new


@dataclass(frozen=True)
class Lit:
    text: str
    pos: bool

    def neg(self) -> "Lit":
        return Lit(self.text, not self.pos)

    def __str__(self) -> str:
        return f"({self.text})" if self.pos else f"!({self.text})"


# ------------------------------------------------------------------------------------------------
# definitions of locals inside one function


_FRESH_CALLS = {"deque", "list", "dict", "set", "bytearray", "defaultdict", "monotonic", "time", "ensure_future", "cast", "iter", "open"}


class FnDefs:
    """Single-definition locals of a function (incl. walrus) and ALL-CAPS parameter aliases."""

    def __init__(self, fn_node):
        self.fn_node = fn_node
        self.defs: dict[str, list] = {}
        self.param_alias: dict[str, ast.AST] = {}
        self._collect()

    def _add(self, name, node, value):
        self.defs.setdefault(name, []).append((node, value))

    def _target(self, t, node, value):
        if isinstance(t, ast.Name):
            self._add(t.id, node, value)
        elif isinstance(t, (ast.Tuple, ast.List)):
            for e in t.elts:
                self._target(e, node, None)
        elif isinstance(t, ast.Starred):
            self._target(t.value, node, None)

    def _collect(self):
        fn = self.fn_node
        args = fn.args
        allargs = args.posonlyargs + args.args + args.kwonlyargs
        defaults = [None] * (len(args.posonlyargs + args.args) - len(args.defaults)) + list(args.defaults) + list(args.kw_defaults)
        for a, d in zip(allargs, defaults):
            self._add(a.arg, a, None)
            if d is not None and a.arg.isupper() and isinstance(d, (ast.Attribute, ast.Constant)):
                self.param_alias[a.arg] = d
        if args.vararg:
            self._add(args.vararg.arg, args.vararg, None)
        if args.kwarg:
            self._add(args.kwarg.arg, args.kwarg, None)
        stack = list(fn.body)
        while stack:
            n = stack.pop()
            if isinstance(n, (ast.FunctionDef, ast.AsyncFunctionDef, ast.ClassDef)):
                self._add(n.name, n, None)
                continue
            if isinstance(n, ast.Lambda):
                continue
            if isinstance(n, ast.Assign):
                for t in n.targets:
                    self._target(t, n, n.value if len(n.targets) == 1 else None)
            elif isinstance(n, ast.AnnAssign):
                if n.value is not None:
                    self._target(n.target, n, n.value)
            elif isinstance(n, ast.AugAssign):
                self._target(n.target, n, None)
            elif isinstance(n, ast.NamedExpr):
                self._target(n.target, n, n.value)
            elif isinstance(n, (ast.For, ast.AsyncFor)):
                self._target(n.target, n, None)
            elif isinstance(n, (ast.With, ast.AsyncWith)):
                for it in n.items:
                    if it.optional_vars is not None:
                        self._target(it.optional_vars, n, None)
            elif isinstance(n, ast.ExceptHandler):
                if n.name:
                    self._add(n.name, n, None)
            elif isinstance(n, ast.comprehension):
                self._target(n.target, n, None)
            elif isinstance(n, (ast.Import, ast.ImportFrom)):
                for a in n.names:
                    self._add((a.asname or a.name).split(".")[0], n, None)
            elif isinstance(n, ast.Delete):
                for t in n.targets:
                    self._target(t, n, None)
            stack.extend(ast.iter_child_nodes(n))
        # ALL-CAPS params that are re-assigned are not aliases
        for k in list(self.param_alias):
            if len(self.defs.get(k, [])) != 1:
                del self.param_alias[k]

    def single_value(self, name: str):
        ds = self.defs.get(name)
        if not ds or len(ds) != 1:
            return None
        node, value = ds[0]
        if value is None:
            return None
        for sub in ast.walk(value):
            if isinstance(sub, (ast.Await, ast.Yield, ast.YieldFrom, ast.Lambda, ast.NamedExpr)):
                return None
        if isinstance(value, (ast.List, ast.Dict, ast.Set, ast.ListComp, ast.DictComp, ast.SetComp, ast.GeneratorExp)):
            return None  # mutable / fresh object: identity matters, the definition is not its value later
        if isinstance(value, ast.Call):
            f = value.func
            nm = f.id if isinstance(f, ast.Name) else (f.attr if isinstance(f, ast.Attribute) else "")
            if nm[:1].isupper() or nm in _FRESH_CALLS or nm.startswith("create_"):
                return None
        return value

    def def_nodes(self, name: str):
        return [n for n, _v in self.defs.get(name, [])]


_DEFS_CACHE: dict[int, FnDefs] = {}


def fn_defs(fn_node) -> FnDefs:
    k = id(fn_node)
    if k not in _DEFS_CACHE:
        _DEFS_CACHE[k] = FnDefs(fn_node)
    return _DEFS_CACHE[k]


class _Subst(ast.NodeTransformer):
    def __init__(self, chain: list[FnDefs], depth: int, skip: set):
        self.chain = chain
        self.depth = depth
        self.skip = skip

    def visit_Name(self, node):
        if not isinstance(node.ctx, ast.Load) or node.id in self.skip:
            return node
        for defs in self.chain:
            if node.id in defs.param_alias:
                return clone(defs.param_alias[node.id])
            if node.id in defs.defs:
                if self.depth <= 0:
                    return node
                v = defs.single_value(node.id)
                if v is None:
                    return node
                return _Subst(self.chain, self.depth - 1, self.skip | {node.id}).visit(clone(v))
        return node

    def visit_NamedExpr(self, node):
        # value of the walrus expression
        has_await = any(isinstance(s, ast.Await) for s in ast.walk(node.value))
        if has_await:
            return ast.Name(id=node.target.id, ctx=ast.Load())
        return self.visit(clone(node.value))

    def visit_Lambda(self, node):
        return node

    def visit_ListComp(self, node):
        return self._comp(node)

    visit_SetComp = visit_GeneratorExp = visit_DictComp = visit_ListComp

    def _comp(self, node):
        bound = set()
        for g in node.generators:
            for s in ast.walk(g.target):
                if isinstance(s, ast.Name):
                    bound.add(s.id)
        return _Subst(self.chain, self.depth, self.skip | bound).generic_visit(node)


def defs_chain(node) -> list[FnDefs]:
    chain = []
    fn = getattr(node, "fn", None)
    while fn is not None:
        chain.append(fn_defs(fn.node))
        fn = fn.outer
    return chain


def subst(expr, ctx_node=None, depth: int = SUBST_DEPTH):
    """Copy of expr with single-definition locals replaced by their defining expression."""
    chain = defs_chain(ctx_node if ctx_node is not None else expr)
    e = clone(expr)
    if not chain:
        return e
    return ast.fix_missing_locations(_Subst(chain, depth, set()).visit(e))


def text(expr, ctx_node=None, depth: int = SUBST_DEPTH) -> str:
    return ast.unparse(subst(expr, ctx_node, depth))


def raw(expr) -> str:
    return ast.unparse(expr)


# ------------------------------------------------------------------------------------------------
# tests -> CNF


def _atom(e, ctx, pos: bool) -> list[frozenset]:
    return [frozenset([Lit(ast.unparse(e), pos)])]


def _and(a: list[frozenset], b: list[frozenset]) -> list[frozenset]:
    return a + b


def _or(a: list[frozenset], b: list[frozenset]) -> list[frozenset]:
    out = []
    for x in a:
        for y in b:
            out.append(x | y)
            if len(out) > MAX_CLAUSES:
                return None  # type: ignore[return-value]
    return out


def _cnf(e, pos: bool):
    """CNF of (e if pos else not e); e is already substituted."""
    if isinstance(e, ast.UnaryOp) and isinstance(e.op, ast.Not):
        return _cnf(e.operand, not pos)
    if isinstance(e, ast.Call) and isinstance(e.func, ast.Name) and e.func.id == "bool" and len(e.args) == 1 and not e.keywords:
        return _cnf(e.args[0], pos)
    if isinstance(e, ast.BoolOp):
        is_and = isinstance(e.op, ast.And)
        parts = [_cnf(v, pos) for v in e.values]
        if any(p is None for p in parts):
            return _atom(e, None, pos)
        conj = is_and == pos  # And/pos or Or/neg -> conjunction
        acc = parts[0]
        for p in parts[1:]:
            acc = _and(acc, p) if conj else _or(acc, p)
            if acc is None:
                return _atom(e, None, pos)
        return acc
    if isinstance(e, ast.Compare):
        if len(e.ops) > 1:
            # a < b < c  ==  a < b and b < c
            parts = []
            left = e.left
            for op, right in zip(e.ops, e.comparators):
                parts.append(ast.Compare(left=left, ops=[op], comparators=[right]))
                left = right
            return _cnf(ast.BoolOp(op=ast.And(), values=parts), pos)
        op = e.ops[0]
        l, r = e.left, e.comparators[0]
        flip = {ast.IsNot: ast.Is, ast.NotEq: ast.Eq, ast.NotIn: ast.In, ast.GtE: ast.Lt, ast.LtE: ast.Gt}
        for k, v in flip.items():
            if isinstance(op, k):
                return _atom(ast.Compare(left=l, ops=[v()], comparators=[r]), None, not pos)
        return _atom(e, None, pos)
    if isinstance(e, ast.Constant):
        if bool(e.value) == pos:
            return []  # true: no constraint
        return [frozenset()]  # false: empty clause (unsatisfiable)
    return _atom(e, None, pos)


def cnf(test, pos: bool = True, ctx_node=None) -> list[frozenset]:
    e = subst(test, ctx_node if ctx_node is not None else test)
    return _cnf(e, pos)


def cnf_raw(test, pos: bool = True) -> list[frozenset]:
    return _cnf(clone(test), pos)


def fmt_cnf(clauses) -> str:
    parts = []
    for c in clauses:
        if len(c) == 1:
            parts.append(str(next(iter(c))))
        else:
            parts.append("[" + " | ".join(sorted(str(x) for x in c)) + "]")
    return " & ".join(parts) if parts else "TRUE"
