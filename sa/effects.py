"""Exception-escape analysis (T7): which exception classes can leave a function.

Sources: explicit `raise` (class resolved through the definition of the raised local), bare re-raise
(types of the enclosing handler, narrowed by an `isinstance` guard), resolved package callees
(recursively, virtual dispatch of `self.m()` on the *entry* class), and a curated table of external
raisers (DESIGN section 2).  Sinks: enclosing `except` clauses by class hierarchy, `suppress(...)`.
Everything not in the table is assumed not to raise; `assert` statements are assumed to hold."""
from __future__ import annotations

import ast

from . import match as M, norm, pc as PC, prog
from .loader import ClassInfo, FunctionInfo, Repo, enclosing_class, walk_fn

BUILTIN_BASES = {
    "BaseException": None, "Exception": "BaseException", "CancelledError": "BaseException", "asyncio.CancelledError": "BaseException",
    "KeyboardInterrupt": "BaseException", "SystemExit": "BaseException", "GeneratorExit": "BaseException",
    "ValueError": "Exception", "UnicodeError": "ValueError", "UnicodeDecodeError": "UnicodeError", "UnicodeEncodeError": "UnicodeError",
    "LookupError": "Exception", "KeyError": "LookupError", "IndexError": "LookupError", "TypeError": "Exception", "AttributeError": "Exception",
    "RuntimeError": "Exception", "NotImplementedError": "RuntimeError", "AssertionError": "Exception", "OSError": "Exception", "IOError": "OSError",
    "ConnectionError": "OSError", "ConnectionResetError": "ConnectionError", "BrokenPipeError": "ConnectionError", "TimeoutError": "OSError",
    "asyncio.TimeoutError": "OSError", "struct.error": "Exception", "binascii.Error": "ValueError", "zlib.error": "Exception",
    "OverflowError": "ArithmeticError", "ArithmeticError": "Exception", "ZeroDivisionError": "ArithmeticError", "StopIteration": "Exception",
    "StopAsyncIteration": "Exception", "EOFError": "Exception", "MemoryError": "Exception", "RecursionError": "RuntimeError",
    "asyncio.IncompleteReadError": "EOFError", "asyncio.LimitOverrunError": "Exception", "asyncio.InvalidStateError": "Exception",
    "json.JSONDecodeError": "ValueError", "FileNotFoundError": "OSError", "PermissionError": "OSError", "NotADirectoryError": "OSError",
}

# (pattern, exception class, reason).  `gated` raisers are decided by the caller-supplied predicate.
EXTERNAL = [
    ("URL($X, ...)", "ValueError", "yarl.URL() validates the authority eagerly for some inputs"),
    ("URL.build(...)", "ValueError", "yarl.URL.build() validates its components"),
    ("$X.decode()", "UnicodeDecodeError", "strict decode"),
    ("$X.decode($E)", "UnicodeDecodeError", "strict decode"),
    ("struct.unpack(...)", "struct.error", "short buffer"),
    ("$S.unpack(...)", "struct.error", "short buffer"),
    ("$S.unpack_from(...)", "struct.error", "short buffer"),
    ("base64.b64decode(...)", "binascii.Error", "bad padding / characters"),
    ("binascii.a2b_base64(...)", "binascii.Error", "bad padding"),
    ("binascii.a2b_qp(...)", "binascii.Error", "bad quoted-printable"),
    ("json.loads(...)", "ValueError", "invalid JSON"),
]
YARL_LAZY_ATTRS = {"host", "port", "raw_host", "explicit_port", "authority", "raw_authority", "host_subcomponent", "host_port_subcomponent"}


TOTAL_CODECS = {"latin1", "latin-1", "iso-8859-1", "iso8859-1", "l1"}


def _const_lits(node):
    """Unit literals of pc(node) that test a bare module-level flag (HAS_ZSTD, DEBUG, ...)."""
    out = set()
    for l in PC.units(PC.pc(node)):
        if l.text.isidentifier() and l.text.isupper():
            out.add(l)
    return out


class Escape:
    __slots__ = ("cls", "site", "chain", "why", "flags")

    def __init__(self, cls, site, chain, why, flags=frozenset()):
        self.cls = cls
        self.site = site
        self.chain = chain
        self.why = why
        self.flags = flags

    def where(self):
        mod = getattr(self.site, "mod", None)
        return f"{mod.rel if mod else '?'}:{getattr(self.site, 'lineno', 0)}"


class Effects:
    def __init__(self, repo: Repo, int_gate=None, max_depth: int = 5, extra_external=(), no_raise_calls=(), receiver_hints=None):
        self.repo = repo
        self.receiver_hints = dict(receiver_hints or {})  # (class name, attr) -> ClassInfo | FunctionInfo
        self.int_gate = int_gate
        self.max_depth = max_depth
        self.external = list(EXTERNAL) + list(extra_external)
        self.no_raise = set(no_raise_calls)
        self._memo: dict = {}
        self._bases: dict[str, str | None] = dict(BUILTIN_BASES)
        for m in repo.all_modules():
            for c in m.classes.values():
                bs = c.base_names()
                if bs and c.name not in self._bases:
                    # first base that is an exception-looking name
                    self._bases[c.name] = bs[0]
        self.stats = {"functions": 0, "calls_resolved": 0, "calls_external": 0, "calls_unresolved": 0}

    # -- hierarchy ------------------------------------------------------------------------------------
    def _norm(self, name: str) -> str:
        if name in self._bases:
            return name
        short = name.split(".")[-1]
        return short if short in self._bases else name

    def is_subclass(self, c: str, base: str) -> bool:
        c, base = self._norm(c), self._norm(base)
        if base in ("BaseException",):
            return True
        seen = set()
        while c is not None and c not in seen:
            if c == base or (c in ("asyncio.TimeoutError", "TimeoutError") and base in ("asyncio.TimeoutError", "TimeoutError")) \
                    or (c in ("asyncio.CancelledError", "CancelledError") and base in ("asyncio.CancelledError", "CancelledError")):
                return True
            seen.add(c)
            if c not in self._bases:
                return base == "Exception"  # unknown class: assume plain Exception subclass
            c = self._bases[c]
            c = self._norm(c) if c else None
        return False

    def caught_by(self, cls: str, handler: ast.ExceptHandler) -> bool:
        return any(self.is_subclass(cls, t) for t in PC.handler_types(handler))

    # -- escape sets ---------------------------------------------------------------------------------------
    def escapes(self, fn: FunctionInfo, self_cls: ClassInfo | None = None, depth: int = 0, chain=()) -> list[Escape]:
        key = (id(fn.node), id(self_cls.node) if self_cls else None)
        if key in self._memo:
            return self._memo[key]
        self._memo[key] = []  # recursion guard
        self.stats["functions"] += 1
        out: list[Escape] = []
        for n in walk_fn(fn.node):
            for cls, why, sub in self._sources(n, fn, self_cls, depth, chain):
                if not self._caught(n, cls, fn):
                    flags = frozenset(_const_lits(n)) | (sub[2] if sub else frozenset())
                    if any(l.neg() in flags for l in flags):
                        continue  # infeasible: the callee raises only under a module flag the caller has excluded
                    out.append(Escape(cls, sub[0] if sub else n, (chain + (fn.where,)) if not sub else sub[1], why, flags))
        # dedupe by class+site
        seen = set()
        res = []
        for e in out:
            k = (e.cls, id(e.site))
            if k not in seen:
                seen.add(k)
                res.append(e)
        self._memo[key] = res
        return res

    def region_escapes(self, fn: FunctionInfo, nodes, self_cls=None) -> list[Escape]:
        """Escapes whose source statement is one of `nodes` (AST statements of fn) or inside them."""
        inside = set()
        for s in nodes:
            for x in ast.walk(s):
                inside.add(id(x))
        out = []
        for n in walk_fn(fn.node):
            if id(n) not in inside:
                continue
            for cls, why, sub in self._sources(n, fn, self_cls, 0, ()):
                if not self._caught(n, cls, fn):
                    flags = frozenset(_const_lits(n)) | (sub[2] if sub else frozenset())
                    if any(l.neg() in flags for l in flags):
                        continue
                    out.append(Escape(cls, sub[0] if sub else n, (fn.where,) if not sub else sub[1], why, flags))
        return out

    def _caught(self, n, cls: str, fn: FunctionInfo) -> bool:
        x = n
        while x is not None and x is not fn.node:
            p = getattr(x, "parent", None)
            if isinstance(p, ast.Try) and getattr(x, "pfield", None) == "body":
                for h in p.handlers:
                    if self.caught_by(cls, h):
                        return True
            if isinstance(p, (ast.With, ast.AsyncWith)) and getattr(x, "pfield", None) == "body":
                for it in p.items:
                    c = it.context_expr
                    if isinstance(c, ast.Call) and norm.raw(c.func).endswith("suppress"):
                        if any(self.is_subclass(cls, norm.raw(a)) for a in c.args):
                            return True
            x = p
        return False

    def _sources(self, n, fn, self_cls, depth, chain):
        """Yield (class, why, (site, chain) | None) for AST node n."""
        if isinstance(n, ast.Raise):
            if n.exc is None:
                # bare re-raise: the enclosing handler's types, narrowed by isinstance guards
                h = next(iter(prog.enclosing(n, (ast.ExceptHandler,))), None)
                if h is not None:
                    types = PC.handler_types(h)
                    narrowed = None
                    if h.name:
                        for lit in PC.units(PC.pc(n, stop=h)):
                            b = M.match_text(f"isinstance({h.name}, $T)", lit.text) if lit.pos else None
                            if b is not None:
                                t = b["T"]
                                narrowed = [norm.raw(e) for e in (t.elts if isinstance(t, ast.Tuple) else [t])]
                    for t in narrowed or types:
                        yield t, "re-raise", None
                return
            from .rulekit import raise_class

            c = raise_class(n)
            if c is not None:
                if isinstance(n.exc, ast.Name):
                    # `raise exc` where exc is a handler variable / parameter
                    h = next((h for h in prog.enclosing(n, (ast.ExceptHandler,)) if h.name == n.exc.id), None)
                    if h is not None:
                        for t in PC.handler_types(h):
                            yield t, "re-raise of the caught exception", None
                        return
                yield c, "raise", None
            return
        if isinstance(n, ast.Assign) and len(n.targets) == 1 and isinstance(n.targets[0], (ast.Tuple, ast.List)):
            v = n.value
            if isinstance(v, ast.Call) and isinstance(v.func, ast.Attribute) and v.func.attr in ("split", "rsplit"):
                yield "ValueError", f"unpacking {len(n.targets[0].elts)} values from a split()", None
        if isinstance(n, ast.Attribute) and n.attr in YARL_LAZY_ATTRS and isinstance(n.ctx, ast.Load):
            # lazily validated yarl accessors on a URL built in this function
            base = n.value
            if isinstance(base, ast.Name):
                ds = norm.fn_defs(fn.node).defs.get(base.id, [])
                if any(v is not None and (M.match(M.compile_pat("URL($X, ...)"), v) is not None or M.match(M.compile_pat("URL.build(...)"), v) is not None) for _d, v in ds):
                    yield "ValueError", f"yarl validates host/port lazily on `.{n.attr}`", None
                    # observed with yarl 1.24.5 (F92): `http://[::1]@/x` - brackets in the userinfo, empty host - raises IndexError
                    yield "IndexError", f"yarl splits the authority lazily on `.{n.attr}` (IndexError for an empty host after a bracketed userinfo)", None
        if not isinstance(n, ast.Call):
            return
        name = prog.call_name(n)
        if name in self.no_raise:
            return
        if isinstance(n.func, ast.Name) and n.func.id in ("int", "float") and n.args:
            a = n.args[0]
            if not isinstance(a, ast.Constant) and not (isinstance(a, ast.Call) and prog.call_name(a) in ("len", "int", "round", "max", "min", "ord")):
                if self.int_gate is None or not self.int_gate(n):
                    yield "ValueError", f"`{norm.raw(n)[:40]}` on text without a lexical gate", None
            return
        target = self._resolve(n, fn, self_cls)
        if target is not None:
            self.stats["calls_resolved"] += 1
            if target.is_async and not isinstance(getattr(n, "parent", None), ast.Await):
                return  # creates a coroutine object; its exceptions surface where it is awaited / in its task
            if depth < self.max_depth:
                sc = self_cls if self._is_self_call(n, fn) else (enclosing_class(self.repo, target) if target.cls is not None or target.outer is not None else None)
                if target.name == "__init__" and target.cls is not None:
                    sc = target.cls
                passed = {k.arg for k in n.keywords if k.arg} | set(self._positional_params(target, len(n.args)))
                star = any(k.arg is None for k in n.keywords) or any(isinstance(a, ast.Starred) for a in n.args)
                for e in self.escapes(target, sc, depth + 1, chain + (fn.where,)):
                    if not star and getattr(e.site, "fn", None) is target and self._needs_absent_param(e.site, target, passed):
                        continue  # raise guarded by `param is not None` for a defaulted parameter this call does not pass
                    yield e.cls, e.why, (e.site, e.chain, e.flags)
            return
        for pat, cls, why in self.external:
            b = M.match(M.compile_pat(pat), n)
            if b is not None:
                if "E" in b and isinstance(b["E"], ast.Constant) and str(b["E"].value).lower() in TOTAL_CODECS:
                    return  # total codec: cannot fail
                self.stats["calls_external"] += 1
                yield cls, why, None
                return
        self.stats["calls_unresolved"] += 1

    def _positional_params(self, target: FunctionInfo, n: int):
        a = target.node.args
        ps = [p.arg for p in a.posonlyargs + a.args]
        if target.cls is not None and ps and "staticmethod" not in [norm.raw(d) for d in target.node.decorator_list]:
            ps = ps[1:]
        return ps[:n]

    def _needs_absent_param(self, site, target: FunctionInfo, passed: set) -> bool:
        a = target.node.args
        names = [p.arg for p in a.posonlyargs + a.args]
        defaults = dict(zip(names[len(names) - len(a.defaults):], a.defaults))
        for p, d in zip(a.kwonlyargs, a.kw_defaults):
            if d is not None:
                defaults[p.arg] = d
        none_defaults = {k for k, v in defaults.items() if isinstance(v, ast.Constant) and v.value is None}
        for l in PC.units(PC.pc(site)):
            b = M.match_text("$P is None", l.text)
            if b is not None and not l.pos and isinstance(b["P"], ast.Name) and b["P"].id in none_defaults and b["P"].id not in passed:
                return True
        return False

    def _is_self_call(self, call, fn) -> bool:
        f = call.func
        sn = prog._self_name(fn)
        if isinstance(f, ast.Attribute) and isinstance(f.value, ast.Call) and isinstance(f.value.func, ast.Name) and f.value.func.id == "super":
            return True
        return isinstance(f, ast.Attribute) and isinstance(f.value, ast.Name) and sn is not None and f.value.id == sn

    def _resolve(self, call, fn, self_cls):
        f = call.func
        if isinstance(f, ast.Attribute) and isinstance(f.value, ast.Call) and isinstance(f.value.func, ast.Name) and f.value.func.id == "super":
            return prog.resolve_call(self.repo, call)
        if self_cls is not None and self._is_self_call(call, fn):
            m = self.repo.method(self_cls, f.attr)
            if m is not None:
                return m
        if self_cls is not None and isinstance(f, ast.Attribute) and isinstance(f.value, ast.Attribute) and isinstance(f.value.value, ast.Name) \
                and f.value.value.id == prog._self_name(fn):
            ac = prog.attr_class(self.repo, self_cls, f.value.attr)
            hint = None
            for c in self.repo.mro(self_cls):
                hint = hint or self.receiver_hints.get((c.name, f.value.attr))
            if hint is not None and isinstance(hint, ClassInfo):
                ac = hint
            if ac is not None:
                return self.repo.method(ac, f.attr)
        if self_cls is not None and isinstance(f, ast.Attribute) and isinstance(f.value, ast.Name) and f.value.id == prog._self_name(fn):
            for c in self.repo.mro(self_cls):
                h = self.receiver_hints.get((c.name, f.attr))
                if isinstance(h, FunctionInfo):
                    return h
        return prog.resolve_call(self.repo, call)
