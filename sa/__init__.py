"""Static-analysis engine for the aiohttp property checks (stdlib only: ast, re._parser).

Nothing in here imports or executes code of the analysed repository."""
