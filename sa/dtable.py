"""Decision tables: evaluate a *pure* guard expression (or a small pure function made of
assignments / if / return) of the repository under every assignment of its atoms from explicitly
declared finite domains.  The evaluator is this file's own; no repository code is imported or run.

Atoms are looked up by their unparsed source text in `env` (e.g. "self._limit",
"len(self._acquired)"); anything that is not an atom, a constant, a boolean/comparison/arithmetic
operator, a conditional expression, a walrus, `len`/`bool`/`min`/`max`/`int`, `.get(k)` on an env
mapping, or a folded module constant makes the evaluation fail (AnalysisError), never guess."""
from __future__ import annotations

import ast
import operator

from .consteval import Folder, NotConst
from .loader import AnalysisError

_BIN = {ast.Add: operator.add, ast.Sub: operator.sub, ast.Mult: operator.mul, ast.BitAnd: operator.and_, ast.BitOr: operator.or_, ast.Mod: operator.mod,
        ast.Div: operator.truediv, ast.FloorDiv: operator.floordiv}
_CMP = {
    ast.Eq: operator.eq, ast.NotEq: operator.ne, ast.Lt: operator.lt, ast.LtE: operator.le, ast.Gt: operator.gt, ast.GtE: operator.ge,
    ast.In: lambda a, b: a in b, ast.NotIn: lambda a, b: a not in b, ast.Is: operator.is_, ast.IsNot: operator.is_not,
}


class _Return(Exception):
    def __init__(self, v):
        self.v = v


class Evaluator:
    def __init__(self, env: dict, folder: Folder | None = None, mod=None, opaque_calls=()):
        self.actions: list[str] = []
        self.opaque_calls = tuple(opaque_calls)
        self.env = dict(env)
        self.folder = folder
        self.mod = mod

    def ev(self, n):
        t = ast.unparse(n)
        if t in self.env:
            return self.env[t]
        if isinstance(n, ast.Constant):
            return n.value
        if isinstance(n, ast.NamedExpr):
            v = self.ev(n.value)
            self.env[n.target.id] = v
            return v
        if isinstance(n, ast.BoolOp):
            if isinstance(n.op, ast.And):
                v = True
                for x in n.values:
                    v = self.ev(x)
                    if not v:
                        return v
                return v
            v = False
            for x in n.values:
                v = self.ev(x)
                if v:
                    return v
            return v
        if isinstance(n, ast.UnaryOp):
            v = self.ev(n.operand)
            if isinstance(n.op, ast.Not):
                return not v
            if isinstance(n.op, ast.USub):
                return -v
        if isinstance(n, ast.Compare):
            l = self.ev(n.left)
            for op, c in zip(n.ops, n.comparators):
                r = self.ev(c)
                if not _CMP[type(op)](l, r):
                    return False
                l = r
            return True
        if isinstance(n, ast.BinOp) and type(n.op) in _BIN:
            return _BIN[type(n.op)](self.ev(n.left), self.ev(n.right))
        if isinstance(n, ast.IfExp):
            return self.ev(n.body) if self.ev(n.test) else self.ev(n.orelse)
        if isinstance(n, (ast.Tuple, ast.Set, ast.List)):
            vals = [self.ev(e) for e in n.elts]
            return {ast.Tuple: tuple, ast.Set: frozenset, ast.List: list}[type(n)](vals)
        if isinstance(n, ast.Call):
            f = n.func
            if isinstance(f, ast.Name) and f.id in ("len", "bool", "min", "max", "int", "abs") and not n.keywords:
                args = [self.ev(a) for a in n.args]
                return {"len": len, "bool": bool, "min": min, "max": max, "int": int, "abs": abs}[f.id](*args)
            if isinstance(f, ast.Attribute) and f.attr == "get" and len(n.args) in (1, 2):
                base = self.ev(f.value)
                if isinstance(base, dict):
                    return base.get(self.ev(n.args[0]), self.ev(n.args[1]) if len(n.args) == 2 else None)
        if isinstance(n, ast.Name) and n.id in self.env:
            return self.env[n.id]
        if self.folder is not None and self.mod is not None:
            try:
                return self.folder.eval(self.mod, n)
            except NotConst:
                pass
        raise AnalysisError(f"dtable: cannot evaluate `{t}` (not a declared atom)")

    def run(self, stmts):
        try:
            self._block(stmts)
        except _Return as r:
            return r.v
        return None

    def _block(self, stmts):
        for st in stmts:
            if isinstance(st, ast.Expr) and isinstance(st.value, ast.Call) and self.opaque_calls and any(ast.unparse(st.value).startswith(p) for p in self.opaque_calls):
                self.actions.append(ast.unparse(st))
            elif isinstance(st, ast.Expr):
                if isinstance(st.value, ast.Constant):
                    continue
                self.ev(st.value)
            elif isinstance(st, ast.Assign) and len(st.targets) == 1 and isinstance(st.targets[0], ast.Name):
                self.env[st.targets[0].id] = self.ev(st.value)
            elif isinstance(st, ast.AnnAssign) and isinstance(st.target, ast.Name) and st.value is not None:
                self.env[st.target.id] = self.ev(st.value)
            elif isinstance(st, ast.AugAssign) and isinstance(st.target, ast.Name) and type(st.op) in _BIN:
                self.env[st.target.id] = _BIN[type(st.op)](self.env[st.target.id], self.ev(st.value))
            elif isinstance(st, ast.Assign) and len(st.targets) == 1 and isinstance(st.targets[0], ast.Subscript):
                t = st.targets[0]
                base = self.ev(t.value)
                if not isinstance(base, dict):
                    raise AnalysisError(f"dtable: store into non-table `{ast.unparse(t.value)}`")
                base[self.ev(t.slice)] = self.ev(st.value)
                self.actions.append(ast.unparse(st))
            elif isinstance(st, ast.Assign) and len(st.targets) >= 1 and all(isinstance(t, (ast.Name, ast.Attribute)) for t in st.targets):
                v = self.ev(st.value)
                for t in st.targets:
                    self.env[ast.unparse(t)] = v
                self.actions.append(ast.unparse(st))
            elif isinstance(st, ast.Delete) and all(isinstance(t, ast.Subscript) for t in st.targets):
                for t in st.targets:
                    base = self.ev(t.value)
                    base.pop(self.ev(t.slice), None)
                self.actions.append(ast.unparse(st))
            elif isinstance(st, ast.Expr) and isinstance(st.value, ast.Call) and self.opaque_calls and any(ast.unparse(st.value).startswith(p) for p in self.opaque_calls):
                self.actions.append(ast.unparse(st))
            elif isinstance(st, ast.Raise):
                self.actions.append("raise " + (ast.unparse(st.exc.func) if isinstance(st.exc, ast.Call) else ast.unparse(st.exc) if st.exc else ""))
                raise _Return(None)
            elif isinstance(st, ast.Assert):
                pass
            elif isinstance(st, ast.If):
                self._block(st.body if self.ev(st.test) else st.orelse)
            elif isinstance(st, ast.Return):
                raise _Return(self.ev(st.value) if st.value is not None else None)
            elif isinstance(st, ast.Pass):
                pass
            else:
                raise AnalysisError(f"dtable: unsupported statement `{ast.unparse(st)[:60]}`")


def truth_table(expr, atoms: dict[str, list], folder=None, mod=None, fixed: dict | None = None):
    """Yield (assignment dict, value) for every assignment of atoms (text -> domain list)."""
    import itertools

    keys = list(atoms)
    for combo in itertools.product(*[atoms[k] for k in keys]):
        env = dict(zip(keys, combo))
        if fixed:
            env.update(fixed)
        yield env, Evaluator(env, folder, mod).ev(expr)
