"""Entry point: runs the rule table of one property against /repo's current working tree."""
from __future__ import annotations

import argparse
import importlib
import json
import os
import sys
import traceback

HERE = os.path.dirname(os.path.abspath(__file__))
sys.path.insert(0, os.path.dirname(HERE))

from sa.loader import AnalysisError, Repo  # noqa: E402
from sa.report import Check  # noqa: E402


def run_property(prop: str, tier: str, root: str, overlay=None, quiet=False, seed=0):
    repo = Repo(root, overlay)
    chk = Check(prop, tier, repo, seed=seed, quiet=quiet)
    chk.write_evidence = os.path.realpath(root) == "/repo" and overlay is None
    mod = importlib.import_module(f"rules.{prop}")
    mod.run(chk)
    return chk


def main() -> int:
    ap = argparse.ArgumentParser()
    ap.add_argument("prop", nargs="?")
    ap.add_argument("--tier", default=os.environ.get("VERIF_TIER", "quick"), choices=["quick", "thorough"])
    ap.add_argument("--repo", default=os.environ.get("VERIF_REPO", "/repo"))
    ap.add_argument("--replay")
    args = ap.parse_args()
    seed = int(os.environ.get("VERIF_SEED", "0") or 0)
    if args.replay:
        d = json.load(open(args.replay))
        print(json.dumps(d, indent=1))
        prop = d["property"]
        try:
            chk = run_property(prop, "quick", args.repo, quiet=True, seed=seed)
        except Exception as e:
            print(f"ANALYSIS-ERROR property={prop} {type(e).__name__}: {e}")
            return 2
        again = [f for f in chk.findings if f.rule == d["rule"] and f.construct == d["construct"] and f.scope == d["scope"]]
        print("REPLAY:", "still violated on the current tree" if again else "not reproduced on the current tree")
        return 1 if again else 0
    if not args.prop:
        ap.error("property id required")
    try:
        chk = run_property(args.prop, args.tier, args.repo, seed=seed)
        rc = chk.finish()
        if args.tier == "thorough":
            try:
                from selftest import runner

                runner.run_for_property(args.prop, args.repo, chk)
            except ImportError:
                pass
        return rc
    except AnalysisError as e:
        print(f"ANALYSIS-ERROR property={args.prop} {e}")
        return 2
    except Exception as e:  # a crash must never look like a finding
        traceback.print_exc()
        print(f"ANALYSIS-ERROR property={args.prop} internal error {type(e).__name__}: {e}")
        return 2


if __name__ == "__main__":
    sys.exit(main())
