"""Normal form for code that was moved into a NEW name: helper functions / properties and module-level constants that the reference
tree (sa/ref_functions.json, written by tools/mkref.py from the tree the rule tables were confirmed on) does not know are inlined
back into their users before any rule looks at the module.

Why: every rule anchors on constructs of functions it knows by name.  An extract-method refactoring (`self._swap_acquired(...)`,
`_drop_body_headers(headers)`, a property for a repeated test, a frozenset moved to module level) moves the construct behind a name no
rule can know.  The program obtained by inlining such a helper at its call sites is equivalent to the one in the file, and it has the
shape the rules were written for - so the verdict on it is the verdict on the file.  The transformation is source to source
(ast -> ast -> ast.unparse); a module without new names is returned untouched, byte for byte, so the unchanged tree is analysed as it is.

Only transformations that are equivalence-preserving by construction are applied; anything else is left alone (the rules then see the
call, as before):
  * the helper is a plain function / method / staticmethod / classmethod / property of the same module, not a generator, not recursive,
    without nested scopes other than comprehensions, without *args / **kwargs;
  * an expression helper (`return <expr>` only) is substituted wherever it is called, when every argument is simple or used once;
  * a statement helper is spliced in where the call is a whole statement (`h()`, `await h()`), the whole right-hand side of an
    assignment, the operand of `return`, or the first thing an `if` test evaluates; its `return`s must be in tail position
    (guards are turned into if/else), its locals are renamed where they would capture a name of the caller, parameters are replaced by
    simple arguments (names, constants, attribute chains not assigned in the helper) and bound by an assignment otherwise;
  * an `async def` helper is inlined only where it is awaited at once.
"""
from __future__ import annotations

import ast
import copy
import json
import os

_REF_PATH = os.path.join(os.path.dirname(os.path.abspath(__file__)), "ref_functions.json")
_REF: dict | None = None


def _ref() -> dict:
    global _REF
    if _REF is None:
        try:
            with open(_REF_PATH) as fh:
                _REF = json.load(fh)
        except OSError:
            _REF = {}
    return _REF


_ALL_BASE: set[str] | None = None


def _all_basenames() -> set[str]:
    global _ALL_BASE
    if _ALL_BASE is None:
        _ALL_BASE = {q.rsplit(".", 1)[-1] for m in _ref().values() for q in m["functions"]}
    return _ALL_BASE


def build_reference(root: str) -> dict:
    out = {}
    pkg = os.path.join(root, "aiohttp")
    for dp, _dn, fns in os.walk(pkg):
        for f in sorted(fns):
            if not f.endswith(".py"):
                continue
            path = os.path.join(dp, f)
            rel = os.path.relpath(path, root)
            try:
                tree = ast.parse(open(path, encoding="utf-8").read())
            except SyntaxError:
                continue
            out[rel] = {"functions": sorted(_qualnames(tree)), "globals": sorted(_module_names(tree))}
    return out


def _qualnames(tree) -> set[str]:
    out = set()

    def walk(node, prefix):
        for ch in ast.iter_child_nodes(node):
            if isinstance(ch, (ast.FunctionDef, ast.AsyncFunctionDef, ast.ClassDef)):
                out.add(prefix + ch.name)
                walk(ch, prefix + ch.name + ".")
            else:
                walk(ch, prefix)

    walk(tree, "")
    return out


def _module_names(tree) -> set[str]:
    out = set()
    for st in ast.walk(tree):
        if isinstance(st, (ast.FunctionDef, ast.AsyncFunctionDef, ast.ClassDef, ast.Lambda)):
            continue
    for st in tree.body:
        for n in _stmt_store_names(st):
            out.add(n)
    return out


def _stmt_store_names(st):
    if isinstance(st, (ast.FunctionDef, ast.AsyncFunctionDef, ast.ClassDef)):
        yield st.name
        return
    if isinstance(st, (ast.Import, ast.ImportFrom)):
        for a in st.names:
            yield (a.asname or a.name).split(".")[0]
        return
    for n in ast.walk(st):
        if isinstance(n, ast.Name) and isinstance(n.ctx, ast.Store):
            yield n.id


# ------------------------------------------------------------------------------------------ helpers
_SCOPES = (ast.FunctionDef, ast.AsyncFunctionDef, ast.Lambda, ast.ClassDef)


def _own_nodes(fn):
    """Nodes of the function body, nested function / class scopes excluded (comprehensions included)."""
    stack = list(fn.body)
    while stack:
        n = stack.pop()
        yield n
        for ch in ast.iter_child_nodes(n):
            if isinstance(ch, _SCOPES):
                yield ch  # the def itself is visible (so that callers can see there is one), not its inside
                continue
            stack.append(ch)


def _decorators(fn) -> set[str] | None:
    out = set()
    for d in fn.decorator_list:
        if isinstance(d, ast.Name) and d.id in ("staticmethod", "classmethod", "property"):
            out.add(d.id)
        elif isinstance(d, ast.Attribute) and d.attr in ("cached_property",):
            return None
        else:
            return None
    return out


def _strip_doc(body):
    if body and isinstance(body[0], ast.Expr) and isinstance(body[0].value, ast.Constant) and isinstance(body[0].value.value, str):
        return body[1:]
    return body


def _simple(e) -> bool:
    if isinstance(e, (ast.Name, ast.Constant)):
        return True
    if isinstance(e, ast.Attribute):
        return _simple(e.value)
    if isinstance(e, ast.UnaryOp) and isinstance(e.operand, ast.Constant):
        return True
    return False


class _Helper:
    def __init__(self, node, cls_name):
        self.node = node
        self.name = node.name
        self.cls = cls_name
        self.is_async = isinstance(node, ast.AsyncFunctionDef)
        self.deco = _decorators(node)
        self.body = _strip_doc(node.body)
        self.ok = self._eligible()
        self.expr = None
        if self.ok and len(self.body) == 1 and isinstance(self.body[0], ast.Return) and self.body[0].value is not None and not self.is_async:
            self.expr = self.body[0].value

    def _eligible(self) -> bool:
        n = self.node
        if self.deco is None or (n.name.startswith("__") and n.name.endswith("__")):
            return False
        a = n.args
        if a.vararg or a.kwarg or a.posonlyargs and False:
            return False
        for d in list(a.defaults) + [d for d in a.kw_defaults if d is not None]:
            if not _simple(d) and not (isinstance(d, (ast.Tuple,)) and not d.elts):
                return False
        if not self.body:
            return False
        for x in _own_nodes(n):
            if isinstance(x, _SCOPES) or isinstance(x, (ast.Yield, ast.YieldFrom, ast.Global, ast.Nonlocal)):
                return False
            if isinstance(x, ast.Name) and x.id == n.name and self.cls is None:
                return False  # recursion (module-level function)
            if isinstance(x, ast.Attribute) and x.attr == n.name:
                return False  # recursion / self reference
            if isinstance(x, ast.Name) and x.id in ("super", "__class__", "locals", "vars"):
                return False
        if "property" in self.deco and (len(a.args) != 1 or self.is_async):
            return False
        return True

    # parameters in call order (self / cls dropped), with defaults
    def params(self):
        a = self.node.args
        pos = list(a.posonlyargs) + list(a.args)
        recv = None
        if self.cls is not None and "staticmethod" not in self.deco:
            if not pos:
                return None, None, None
            recv = pos[0].arg
            pos = pos[1:]
        names = [p.arg for p in pos]
        defaults = {}
        ds = list(a.defaults)
        allpos = list(a.posonlyargs) + list(a.args)
        for p, d in zip(allpos[len(allpos) - len(ds):], ds):
            defaults[p.arg] = d
        kwonly = [p.arg for p in a.kwonlyargs]
        for p, d in zip(a.kwonlyargs, a.kw_defaults):
            if d is not None:
                defaults[p.arg] = d
        return recv, names, (kwonly, defaults)


def _stored_names(nodes) -> set[str]:
    out = set()
    for st in nodes:
        for n in ast.walk(st):
            if isinstance(n, ast.Name) and isinstance(n.ctx, (ast.Store, ast.Del)):
                out.add(n.id)
            elif isinstance(n, ast.ExceptHandler) and n.name:
                out.add(n.name)
    return out


def _stored_attrs(nodes) -> set[str]:
    out = set()
    for st in nodes:
        for n in ast.walk(st):
            if isinstance(n, ast.Attribute) and isinstance(n.ctx, (ast.Store, ast.Del)):
                out.add(n.attr)
    return out


def _all_names(fn) -> set[str]:
    out = {a.arg for a in ast.walk(fn.args) if isinstance(a, ast.arg)}
    for n in ast.walk(fn):
        if isinstance(n, ast.Name):
            out.add(n.id)
        elif isinstance(n, ast.ExceptHandler) and n.name:
            out.add(n.name)
    return out


class _Subst(ast.NodeTransformer):
    def __init__(self, names: dict[str, ast.AST], renames: dict[str, str]):
        self.names = names
        self.renames = renames

    def visit_Name(self, node):
        if node.id in self.names and isinstance(node.ctx, ast.Load):
            return copy.deepcopy(self.names[node.id])
        if node.id in self.renames:
            return ast.copy_location(ast.Name(id=self.renames[node.id], ctx=node.ctx), node)
        return node

    def visit_ExceptHandler(self, node):
        if node.name and node.name in self.renames:
            node.name = self.renames[node.name]
        return self.generic_visit(node)


def _contains_return(st) -> bool:
    return any(isinstance(n, ast.Return) for n in ast.walk(st))


def _falls_through(stmts) -> bool:
    if not stmts:
        return True
    last = stmts[-1]
    if isinstance(last, (ast.Return, ast.Raise)):
        return False
    if isinstance(last, ast.If):
        return _falls_through(last.body) or _falls_through(last.orelse)
    return True


class _GiveUp(Exception):
    pass


def _deliver(target, value):
    """Statements that stand for `return value` at a site whose result goes to `target` (None: discarded)."""
    if target is None:
        if value is None or _simple(value):
            return []
        return [ast.Expr(value=value)]
    v = value if value is not None else ast.Constant(value=None)
    return [target(v)]


def _convert(stmts, target):
    """Turn tail-position returns into deliveries to `target`; raises _GiveUp when a return is not in tail position."""
    out = []
    for i, s in enumerate(stmts):
        rest = stmts[i + 1:]
        if isinstance(s, ast.Return):
            out += _deliver(target, s.value)
            return out or [ast.Pass()]
        if not _contains_return(s):
            out.append(s)
            continue
        if isinstance(s, ast.If):
            b_ft, o_ft = _falls_through(s.body), _falls_through(s.orelse)
            if b_ft and o_ft and rest:
                # both arms may go on: the rest would have to be duplicated - only when it is short and free of returns
                if len(rest) > 2 or any(_contains_return(r) for r in rest):
                    raise _GiveUp()
            nb = _convert(list(s.body) + (copy.deepcopy(rest) if b_ft else []), target)
            no = _convert(list(s.orelse) + (copy.deepcopy(rest) if o_ft else []), target) if (s.orelse or (o_ft and rest)) else []
            if not s.orelse and not rest and target is not None:
                no = _deliver(target, None)
            if no == [ast.Pass()] or (len(no) == 1 and isinstance(no[0], ast.Pass)):
                no = []
            out.append(ast.If(test=s.test, body=nb or [ast.Pass()], orelse=no))
            return out
        if isinstance(s, (ast.With, ast.AsyncWith)) and not rest:
            out.append(type(s)(items=s.items, body=_convert(list(s.body), target)))
            return out
        if isinstance(s, ast.Try) and not rest and not s.orelse and not any(_contains_return(x) for x in s.finalbody):
            nb = _convert(list(s.body), target)
            hs = [ast.ExceptHandler(type=h.type, name=h.name, body=_convert(list(h.body), target)) for h in s.handlers]
            out.append(ast.Try(body=nb, handlers=hs, orelse=[], finalbody=s.finalbody))
            return out
        raise _GiveUp()
    if target is not None:
        out += _deliver(target, None)
    return out or [ast.Pass()]


class _Inliner:
    def __init__(self, tree, helpers: dict[str, _Helper], unique_attr: set[str]):
        self.tree = tree
        self.helpers = helpers
        self.unique_attr = unique_attr
        self.done: set[str] = set()
        self.counter = 0

    # ---- call recognition
    def _match(self, e, caller_cls):
        """-> (helper, receiver expr or None, call node or None) when `e` is a call of / property access to a new helper."""
        aw = False
        if isinstance(e, ast.Await):
            aw, e = True, e.value
        if isinstance(e, ast.Call):
            f = e.func
            h = None
            recv = None
            if isinstance(f, ast.Name) and f.id in self.helpers and self.helpers[f.id].cls is None:
                h = self.helpers[f.id]
            elif isinstance(f, ast.Attribute) and f.attr in self.helpers and self.helpers[f.attr].cls is not None:
                h = self.helpers[f.attr]
                if "property" in h.deco:
                    return None
                if isinstance(f.value, ast.Name):
                    recv = f.value
                    if recv.id not in ("self", "cls", h.cls) and f.attr not in self.unique_attr:
                        return None
                else:
                    return None
            if h is None or not h.ok:
                return None
            if h.is_async != aw:
                return None
            if any(isinstance(a, ast.Starred) for a in e.args) or any(k.arg is None for k in e.keywords):
                return None
            return h, recv, e
        if isinstance(e, ast.Attribute) and not aw and isinstance(e.ctx, ast.Load) and e.attr in self.helpers:
            h = self.helpers[e.attr]
            if h.ok and h.cls is not None and "property" in h.deco and isinstance(e.value, ast.Name):
                if e.value.id in ("self", h.cls) or e.attr in self.unique_attr:
                    return h, e.value, None
        return None

    def _bind(self, h: _Helper, recv, call, caller_names):
        """-> (substitution map, renames, prologue statements) or None."""
        rname, names, extra = h.params()
        if names is None:
            return None
        kwonly, defaults = extra
        args: dict[str, ast.AST] = {}
        if call is not None:
            if len(call.args) > len(names):
                return None
            for p, a in zip(names, call.args):
                args[p] = a
            for k in call.keywords:
                if k.arg in args or k.arg not in names + kwonly:
                    return None
                args[k.arg] = k.value
        for p in names + kwonly:
            if p not in args:
                if p not in defaults:
                    return None
                args[p] = defaults[p]
        stored = _stored_names(h.body)
        sattrs = _stored_attrs(h.body)
        subst: dict[str, ast.AST] = {}
        renames: dict[str, str] = {}
        pro = []
        if rname is not None:
            if recv is None:
                return None
            if rname in stored:
                return None
            subst[rname] = recv
        uses = {}
        for st in h.body:
            for n in ast.walk(st):
                if isinstance(n, ast.Name) and isinstance(n.ctx, ast.Load):
                    uses[n.id] = uses.get(n.id, 0) + 1
        for p, a in args.items():
            direct = p not in stored and (
                isinstance(a, (ast.Name, ast.Constant))
                or (isinstance(a, ast.Attribute) and _simple(a) and a.attr not in sattrs)
                or (isinstance(a, ast.UnaryOp) and _simple(a))
            )
            if isinstance(a, ast.Name) and a.id in stored and p != a.id:
                direct = False  # the helper has a local of that name
            if direct:
                subst[p] = a
            else:
                new = p
                if new in caller_names or new in subst:
                    new = self._fresh(p, h.name, caller_names)
                if new != p:
                    renames[p] = new
                caller_names.add(new)
                pro.append(ast.Assign(targets=[ast.Name(id=new, ctx=ast.Store())], value=a, lineno=0))
        for loc in sorted(stored):
            if loc in renames or loc in subst:
                continue
            if loc in args:
                continue  # a stored parameter: bound by the prologue above
            if loc in caller_names:
                renames[loc] = self._fresh(loc, h.name, caller_names)
                caller_names.add(renames[loc])
            else:
                caller_names.add(loc)
        return subst, renames, pro

    def _fresh(self, base, hname, taken):
        k = 0
        while True:
            cand = f"{base}__{hname.strip('_')}" + (str(k) if k else "")
            if cand not in taken:
                return cand
            k += 1

    # ---- expression helpers
    def _subst_exprs(self, fn, caller_cls):
        me = self

        class T(ast.NodeTransformer):
            changed = 0

            def generic_visit(self, node):
                if isinstance(node, _SCOPES) and node is not fn:
                    return node
                return super().generic_visit(node)

            def _try(self, node):
                m = me._match(node, caller_cls)
                if not m:
                    return None
                h, recv, call = m
                if h.expr is None or h.node is fn:
                    return None
                b = me._bind(h, recv, call, set())
                if b is None:
                    return None
                subst, renames, pro = b
                if pro:
                    # non-simple arguments: only when the parameter is used exactly once (evaluation count preserved)
                    cnt = {}
                    for n in ast.walk(h.expr):
                        if isinstance(n, ast.Name):
                            cnt[n.id] = cnt.get(n.id, 0) + 1
                    for a in pro:
                        p = a.targets[0].id
                        orig = next((k for k, v in renames.items() if v == p), p)
                        if cnt.get(orig, 0) != 1:
                            return None
                        subst[orig] = a.value
                        renames.pop(orig, None)
                new = _Subst(subst, {}).visit(copy.deepcopy(h.expr))
                self.changed += 1
                me.done.add(h.name)
                return new

            def visit_Call(self, node):
                node = self.generic_visit(node)
                return self._try(node) or node

            def visit_Attribute(self, node):
                node = self.generic_visit(node)
                return self._try(node) or node

        t = T()
        t.visit(fn)
        return t.changed

    # ---- statement helpers
    def _inline_stmts(self, fn, caller_cls):
        changed = 0
        caller_names = _all_names(fn)

        single_store: dict[str, int] = {}
        for n in ast.walk(fn):
            if isinstance(n, ast.Name) and isinstance(n.ctx, (ast.Store, ast.Del)):
                single_store[n.id] = single_store.get(n.id, 0) + 1
        for a in ast.walk(fn.args):
            if isinstance(a, ast.arg):
                single_store[a.arg] = single_store.get(a.arg, 0) + 1

        def expand(st):
            """-> replacement statement list or None."""
            tname = None
            if isinstance(st, ast.Expr):
                site, target, mode = st.value, None, "discard"
            elif isinstance(st, ast.Return) and st.value is not None:
                site, target, mode = st.value, None, "return"
            elif isinstance(st, ast.Assign):
                site, mode = st.value, "assign"
                target = lambda v, st=st: ast.Assign(targets=copy.deepcopy(st.targets), value=v, lineno=0)
                if len(st.targets) == 1 and isinstance(st.targets[0], ast.Name) and single_store.get(st.targets[0].id) == 1:
                    tname = st.targets[0].id
            elif isinstance(st, ast.AnnAssign) and st.value is not None and isinstance(st.target, ast.Name):
                site, mode = st.value, "assign"
                target = lambda v, st=st: ast.Assign(targets=[ast.Name(id=st.target.id, ctx=ast.Store())], value=v, lineno=0)
            elif isinstance(st, ast.If):
                # the first thing the test evaluates
                t = st.test
                holder, field = st, "test"
                while True:
                    if isinstance(t, ast.UnaryOp) and isinstance(t.op, ast.Not):
                        holder, field, t = t, "operand", t.operand
                    elif isinstance(t, ast.BoolOp):
                        holder, field, t = t, 0, t.values[0]
                    else:
                        break
                m = self._match(t, caller_cls)
                if not m or m[0].expr is not None or m[0].node is fn:
                    return None
                tmp = self._fresh("r", m[0].name, caller_names)
                caller_names.add(tmp)
                body = self._splice(m, lambda v: ast.Assign(targets=[ast.Name(id=tmp, ctx=ast.Store())], value=v, lineno=0), "assign", caller_names)
                if body is None:
                    return None
                ref = ast.Name(id=tmp, ctx=ast.Load())
                if field == "test":
                    st.test = ref
                elif field == "operand":
                    holder.operand = ref
                else:
                    holder.values[0] = ref
                return body + [st]
            else:
                return None
            m = self._match(site, caller_cls)
            if not m or m[0].node is fn:
                return None
            if m[0].expr is not None:
                return None
            return self._splice(m, target, mode, caller_names, tname)

        def walk_block(stmts):
            nonlocal changed
            out = []
            for st in stmts:
                rep = expand(st)
                if rep is not None:
                    changed += 1
                    # the spliced statements may themselves call new helpers
                    out.extend(walk_block(rep) if changed < 200 else rep)
                    continue
                for field in ("body", "orelse", "finalbody"):
                    blk = getattr(st, field, None)
                    if isinstance(blk, list) and blk and isinstance(blk[0], ast.stmt) and not isinstance(st, _SCOPES):
                        setattr(st, field, walk_block(blk))
                if isinstance(st, ast.Try):
                    for h in st.handlers:
                        h.body = walk_block(h.body)
                if isinstance(st, ast.Match):
                    for c in st.cases:
                        c.body = walk_block(c.body)
                out.append(st)
            return out

        fn.body = walk_block(fn.body)
        return changed

    def _splice(self, m, target, mode, caller_names, target_name=None):
        h, recv, call = m
        b = self._bind(h, recv, call, caller_names)
        if b is None:
            return None
        subst, renames, pro = b
        # `t = h()` where every return of h hands back the same local and t has no other binding in the caller: the local IS t
        if target_name is not None:
            rets = [n for st in h.body for n in ast.walk(st) if isinstance(n, ast.Return)]
            if rets and all(isinstance(r.value, ast.Name) for r in rets):
                loc = {r.value.id for r in rets}
                if len(loc) == 1:
                    (L,) = loc
                    if L == target_name and L not in subst:
                        renames.pop(L, None)
                    elif L in _stored_names(h.body) and L not in subst and target_name not in _stored_names(h.body) | set(subst) \
                            and not any(isinstance(n, ast.Name) and n.id == target_name for st in h.body for n in ast.walk(st)):
                        renames[L] = target_name
        body = [_Subst(subst, renames).visit(copy.deepcopy(s)) for s in h.body]
        try:
            if mode == "return":
                if _falls_through(body):
                    body = body + [ast.Return(value=ast.Constant(value=None))]
            else:
                body = _convert(body, target)
        except _GiveUp:
            return None
        self.done.add(h.name)
        body = [s for s in body if not (isinstance(s, ast.Assign) and len(s.targets) == 1 and isinstance(s.targets[0], ast.Name)
                                        and isinstance(s.value, ast.Name) and s.value.id == s.targets[0].id)] or [ast.Pass()]
        return pro + body


def _const_like(v) -> bool:
    if isinstance(v, ast.Constant):
        return True
    if isinstance(v, (ast.Tuple, ast.List, ast.Set)):
        return all(_const_like(e) for e in v.elts)
    if isinstance(v, ast.Dict):
        return all(k is not None and _const_like(k) and _const_like(x) for k, x in zip(v.keys, v.values))
    if isinstance(v, (ast.Name, ast.Attribute)):
        return _simple(v)
    if isinstance(v, ast.UnaryOp):
        return _const_like(v.operand)
    if isinstance(v, ast.BinOp):
        return _const_like(v.left) and _const_like(v.right)
    if isinstance(v, ast.Call) and isinstance(v.func, ast.Name) and v.func.id in ("frozenset", "set", "tuple") and len(v.args) <= 1 and not v.keywords:
        return all(_const_like(a) for a in v.args)
    return False


def _propagate_new_constants(tree, known_globals: set[str]) -> list[str]:
    cands: dict[str, ast.AST] = {}
    counts: dict[str, int] = {}
    for st in tree.body:
        for n in _stmt_store_names(st):
            counts[n] = counts.get(n, 0) + 1
        if isinstance(st, ast.Assign) and len(st.targets) == 1 and isinstance(st.targets[0], ast.Name):
            name, val = st.targets[0].id, st.value
        elif isinstance(st, ast.AnnAssign) and isinstance(st.target, ast.Name) and st.value is not None:
            name, val = st.target.id, st.value
        else:
            continue
        if name not in known_globals and _const_like(val) and not (name.startswith("__") and name.endswith("__")):
            cands[name] = val
    for n in ast.walk(tree):
        if isinstance(n, ast.Global):
            for g in n.names:
                cands.pop(g, None)
    cands = {k: v for k, v in cands.items() if counts.get(k) == 1}
    # a name stored anywhere inside a function shadows the constant there: skip such names altogether
    for n in ast.walk(tree):
        if isinstance(n, (ast.FunctionDef, ast.AsyncFunctionDef, ast.Lambda)):
            for a in ast.walk(n.args):
                if isinstance(a, ast.arg):
                    cands.pop(a.arg, None)
            if not isinstance(n, ast.Lambda):
                for s in _stored_names(n.body):
                    cands.pop(s, None)
    if not cands:
        return []
    # constants defined from other new constants
    for _ in range(3):
        for k, v in list(cands.items()):
            cands[k] = _Subst({x: y for x, y in cands.items() if x != k}, {}).visit(copy.deepcopy(v))
    used = []

    class T(ast.NodeTransformer):
        def visit_Compare(self, node):
            node = self.generic_visit(node)
            for i, (op, c) in enumerate(zip(node.ops, node.comparators)):
                if isinstance(op, (ast.In, ast.NotIn)) and isinstance(c, ast.Call) and isinstance(c.func, ast.Name) and c.func.id in ("frozenset", "set") \
                        and len(c.args) == 1 and isinstance(c.args[0], (ast.Set, ast.Tuple, ast.List)):
                    node.comparators[i] = ast.Set(elts=c.args[0].elts) if isinstance(c.args[0], ast.Set) else c.args[0]
            return node

        def visit_Name(self, node):
            if isinstance(node.ctx, ast.Load) and node.id in cands:
                used.append(node.id)
                return copy.deepcopy(cands[node.id])
            return node

    t = T()
    for st in tree.body:
        if isinstance(st, (ast.FunctionDef, ast.AsyncFunctionDef, ast.ClassDef)):
            t.visit(st)
    return sorted(set(used))


def normalise_source(src: str, rel: str) -> tuple[str, list[str]]:
    """-> (source text to analyse, names that were inlined).  Untouched (same object) when the module has no new names."""
    if os.environ.get("VERIF_NO_INLINE") == "1":
        return src, []
    ref = _ref().get(rel)
    if ref is None:
        return src, []
    known = set(ref["functions"])
    known_globals = set(ref.get("globals", []))
    # cheap pre-filter (no parse): every def / class / column-0 binding carries a name the reference knows -> nothing to do
    base = ref.get("_basenames")
    if base is None:
        base = ref["_basenames"] = {q.rsplit(".", 1)[-1] for q in known}
    import re

    if all(m in base for m in re.findall(r"(?m)^[ \t]*(?:async[ \t]+)?(?:def|class)[ \t]+(\w+)", src)) and \
            all(m in known_globals for m in re.findall(r"(?m)^([A-Za-z_]\w*)[ \t]*(?::[^=\n]*)?=(?!=)", src)):
        return src, []
    try:
        tree = ast.parse(src)
    except SyntaxError:
        return src, []
    ref_basenames = _all_basenames()
    helpers: dict[str, _Helper] = {}
    dup: set[str] = set()
    classes = {}
    for st in tree.body:
        if isinstance(st, (ast.FunctionDef, ast.AsyncFunctionDef)):
            if st.name not in known:
                (dup.add(st.name) if st.name in helpers else None)
                helpers[st.name] = _Helper(st, None)
        elif isinstance(st, ast.ClassDef):
            classes[st.name] = st
            for m in st.body:
                if isinstance(m, (ast.FunctionDef, ast.AsyncFunctionDef)) and f"{st.name}.{m.name}" not in known:
                    (dup.add(m.name) if m.name in helpers else None)
                    helpers[m.name] = _Helper(m, st.name)
    for d in dup:
        helpers.pop(d, None)
    module_basenames = {q.rsplit(".", 1)[-1] for q in known}
    for k in list(helpers):
        if k in module_basenames:  # `self.k(...)` could be the method of that name the reference knows in another class of the module
            helpers.pop(k)
    # a new name that is also the name of a function the reference knows (another class of the package) is ambiguous at `x.name(...)`
    helpers = {k: h for k, h in helpers.items() if h.ok}
    for k in list(helpers):
        h = helpers[k]
        if h.cls is None and k in known_globals:
            helpers.pop(k)
    new_consts = []
    if not helpers:
        new_consts = _propagate_new_constants(tree, known_globals | known)
        if not new_consts:
            return src, []
        ast.fix_missing_locations(tree)
        return ast.unparse(tree) + "\n", new_consts
    unique_attr = {k for k in helpers if k not in ref_basenames}
    inl = _Inliner(tree, helpers, unique_attr)
    for _round in range(3):
        changed = 0
        for st in tree.body:
            if isinstance(st, (ast.FunctionDef, ast.AsyncFunctionDef)):
                changed += inl._subst_exprs(st, None) + inl._inline_stmts(st, None)
            elif isinstance(st, ast.ClassDef):
                for m in st.body:
                    if isinstance(m, (ast.FunctionDef, ast.AsyncFunctionDef)):
                        changed += inl._subst_exprs(m, st.name) + inl._inline_stmts(m, st.name)
        if not changed:
            break
    # drop private helpers that are no longer referenced
    refs = set()
    for n in ast.walk(tree):
        if isinstance(n, ast.Attribute):
            refs.add(n.attr)
        elif isinstance(n, ast.Name):
            refs.add(n.id)
        elif isinstance(n, ast.Constant) and isinstance(n.value, str) and n.value.isidentifier():
            refs.add(n.value)

    def prune(body):
        out = []
        for st in body:
            if isinstance(st, (ast.FunctionDef, ast.AsyncFunctionDef)) and st.name in inl.done and st.name.startswith("_") and st.name not in refs:
                continue
            out.append(st)
        return out or [ast.Pass()]

    # (the def itself does not count as a reference: recompute without the defs' own names - names are only in .name, not in Name nodes)
    tree.body = prune(tree.body)
    for st in tree.body:
        if isinstance(st, ast.ClassDef):
            st.body = prune(st.body)
    new_consts = _propagate_new_constants(tree, known_globals | known)
    if not inl.done and not new_consts:
        return src, []
    ast.fix_missing_locations(tree)
    return ast.unparse(tree) + "\n", sorted(inl.done) + new_consts
