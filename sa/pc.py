"""Path condition of a statement: what has been tested on every path that reaches it.

Syntactic dominance argument: enclosing if/while tests with polarity, `except T` membership, and
the fall-through condition of every earlier sibling statement that cannot fall through on one of
its branches (guard exits, asserts), at every enclosing block level up to the function."""
from __future__ import annotations

import ast

from . import norm
from .norm import Lit

TERMINATORS = (ast.Raise, ast.Return, ast.Continue, ast.Break)


def terminates(block: list) -> bool:
    """True if control cannot fall out of the end of the block."""
    if not block:
        return False
    last = block[-1]
    if isinstance(last, TERMINATORS):
        return True
    if isinstance(last, ast.If):
        return terminates(last.body) and terminates(last.orelse)
    if isinstance(last, (ast.With, ast.AsyncWith)):
        # `with suppress(...)` may swallow; other context managers do not change termination
        for it in last.items:
            c = it.context_expr
            if isinstance(c, ast.Call) and getattr(c.func, "id", getattr(c.func, "attr", "")) == "suppress":
                return False
        return terminates(last.body)
    if isinstance(last, ast.Try):
        body_t = terminates(last.body) if not last.orelse else terminates(last.orelse)
        return (body_t and all(terminates(h.body) for h in last.handlers)) or terminates(last.finalbody)
    if isinstance(last, ast.While):
        if isinstance(last.test, ast.Constant) and last.test.value is True:
            return not any(isinstance(n, ast.Break) for n in _loop_level(last.body))
    if isinstance(last, ast.Match):
        return False
    return False


def _loop_level(body):
    stack = list(body)
    while stack:
        n = stack.pop()
        yield n
        if isinstance(n, (ast.For, ast.AsyncFor, ast.While, ast.FunctionDef, ast.AsyncFunctionDef, ast.ClassDef)):
            continue
        stack.extend(ast.iter_child_nodes(n))


def fallthrough(st, ctx) -> list[frozenset]:
    """Clauses that hold after statement st when control falls through it."""
    if isinstance(st, ast.Assert):
        return norm.cnf(st.test, True, ctx)
    if isinstance(st, ast.If):
        bt, et = terminates(st.body), terminates(st.orelse)
        if bt and not et:
            out = norm.cnf(st.test, False, ctx)
            if len(st.orelse) == 1 and isinstance(st.orelse[0], ast.If):
                out = out + fallthrough(st.orelse[0], ctx)
            return out
        if et and not bt:
            return norm.cnf(st.test, True, ctx)
    return []


def _block_of(node):
    parent = node.parent
    field = getattr(node, "pfield", None)
    blk = getattr(parent, field, None)
    if isinstance(blk, list) and node in blk:
        return blk
    return None


def handler_types(h: ast.ExceptHandler) -> list[str]:
    if h.type is None:
        return ["BaseException"]
    t = h.type
    elts = t.elts if isinstance(t, ast.Tuple) else [t]
    return [ast.unparse(e) for e in elts]


def pc(node, stop=None) -> list[frozenset]:
    """CNF path condition of `node` (a statement or expression) inside its function."""
    clauses: list[frozenset] = []
    n = node
    # climb to the statement
    while n is not None and not isinstance(n, (ast.stmt, ast.ExceptHandler)):
        par = n.parent
        # short-circuit operands: `a and b` -> b evaluated under a ; IfExp branches
        if isinstance(par, ast.BoolOp) and n in par.values:
            idx = par.values.index(n)
            for prev in par.values[:idx]:
                clauses += norm.cnf(prev, isinstance(par.op, ast.And), node)
        elif isinstance(par, ast.IfExp):
            if n is par.body:
                clauses += norm.cnf(par.test, True, node)
            elif n is par.orelse:
                clauses += norm.cnf(par.test, False, node)
        n = par
    while n is not None and not isinstance(n, (ast.FunctionDef, ast.AsyncFunctionDef, ast.Module, ast.ClassDef, ast.Lambda)):
        if n is stop:
            break
        parent = n.parent
        blk = _block_of(n) if isinstance(n, (ast.stmt, ast.ExceptHandler)) else None
        if blk is not None and isinstance(n, ast.stmt):
            i = blk.index(n)
            for sib in blk[:i]:
                clauses += fallthrough(sib, node)
        field = getattr(n, "pfield", None)
        if isinstance(parent, ast.If):
            if field == "body":
                clauses += norm.cnf(parent.test, True, node)
            elif field == "orelse":
                clauses += norm.cnf(parent.test, False, node)
        elif isinstance(parent, ast.While):
            if field == "body":
                clauses += norm.cnf(parent.test, True, node)
        elif isinstance(parent, ast.ExceptHandler):
            clauses.append(frozenset([Lit("except " + "|".join(handler_types(parent)), True)]))
        elif isinstance(parent, ast.Try) and field == "orelse":
            clauses.append(frozenset([Lit("try-else", True)]))
        elif isinstance(parent, ast.match_case):
            clauses.append(frozenset([Lit("case " + ast.unparse(parent.pattern), True)]))
        n = parent
    # dedupe preserving order
    seen = set()
    out = []
    for c in clauses:
        if c not in seen:
            seen.add(c)
            out.append(c)
    return out


def units(clauses) -> list[Lit]:
    return [next(iter(c)) for c in clauses if len(c) == 1]


def has_lit(clauses, pattern: str, pos: bool, binds: dict | None = None):
    """Is there a unit clause whose literal matches `pattern` with polarity `pos`?
    Returns the bindings (dict) or None."""
    from . import match as M

    for lit in units(clauses):
        if lit.pos != pos:
            continue
        b = M.match_text(pattern, lit.text)
        if b is not None:
            if binds:
                ok = True
                for k, v in binds.items():
                    if k in b and ast.dump(b[k]) != ast.dump(v):
                        ok = False
                if not ok:
                    continue
            return b
    return None


def implied_false(clauses) -> bool:
    return any(len(c) == 0 for c in clauses)
