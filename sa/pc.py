"""Path condition of a statement: what has been tested on every path that reaches it.

Syntactic dominance argument: enclosing if/while tests with polarity, `except T` membership, and
the fall-through condition of every earlier sibling statement that cannot fall through on one of
its branches (guard exits, asserts), at every enclosing block level up to the function."""
from __future__ import annotations

import ast
import re

from . import norm
from .norm import Lit

TERMINATORS = (ast.Raise, ast.Return, ast.Continue, ast.Break)
_RAW = [False]


def _cnf(test, pos, ctx):
    return norm.cnf_raw(test, pos) if _RAW[0] else norm.cnf(test, pos, ctx)


def terminates(block: list) -> bool:
    """True if control cannot fall out of the end of the block."""
    if not block:
        return False
    last = block[-1]
    if isinstance(last, TERMINATORS):
        return True
    if isinstance(last, ast.If):
        return terminates(last.body) and terminates(last.orelse)
    if isinstance(last, (ast.With, ast.AsyncWith)):
        # `with suppress(...)` may swallow; other context managers do not change termination
        for it in last.items:
            c = it.context_expr
            if isinstance(c, ast.Call) and getattr(c.func, "id", getattr(c.func, "attr", "")) == "suppress":
                return False
        return terminates(last.body)
    if isinstance(last, ast.Try):
        body_t = terminates(last.body) if not last.orelse else terminates(last.orelse)
        return (body_t and all(terminates(h.body) for h in last.handlers)) or terminates(last.finalbody)
    if isinstance(last, ast.While):
        if isinstance(last.test, ast.Constant) and last.test.value is True:
            return not any(isinstance(n, ast.Break) for n in _loop_level(last.body))
    if isinstance(last, ast.Match):
        return False
    return False


def _loop_level(body):
    stack = list(body)
    while stack:
        n = stack.pop()
        yield n
        if isinstance(n, (ast.For, ast.AsyncFor, ast.While, ast.FunctionDef, ast.AsyncFunctionDef, ast.ClassDef)):
            continue
        stack.extend(ast.iter_child_nodes(n))


FALSE = [frozenset()]


def _is_false(cn) -> bool:
    return any(len(c) == 0 for c in cn)


def _or_cnf(a, b):
    if _is_false(a):
        return b
    if _is_false(b):
        return a
    out = []
    for x in a:
        for y in b:
            c = x | y
            # drop tautologies (p | !p)
            if any(l.neg() in c for l in c):
                continue
            if c not in out:
                out.append(c)
            if len(out) > norm.MAX_CLAUSES:
                return []  # give up: no information
    return out


def block_fallthrough(stmts, ctx) -> list[frozenset]:
    """CNF of the condition under which control falls out of the end of the block
    (FALSE if it cannot).  Only guard exits contribute; everything else is TRUE."""
    if terminates(stmts):
        return FALSE
    out: list[frozenset] = []
    for st in stmts:
        out = out + fallthrough(st, ctx)
    return out


def fallthrough(st, ctx) -> list[frozenset]:
    """Clauses that hold after statement st when control falls through it."""
    if isinstance(st, ast.Assert):
        return _cnf(st.test, True, ctx)
    if isinstance(st, ast.If):
        fb = block_fallthrough(st.body, ctx)
        fe = block_fallthrough(st.orelse, ctx) if st.orelse else []
        a = FALSE if _is_false(fb) else _cnf(st.test, True, ctx) + fb
        b = FALSE if _is_false(fe) else _cnf(st.test, False, ctx) + fe
        if not _is_false(fb) and not fb and not _is_false(fe) and not fe:
            return []  # neither branch constrains anything
        return _or_cnf(a, b)
    return []


def _block_of(node):
    parent = node.parent
    field = getattr(node, "pfield", None)
    blk = getattr(parent, field, None)
    if isinstance(blk, list) and node in blk:
        return blk
    return None


def handler_types(h: ast.ExceptHandler) -> list[str]:
    if h.type is None:
        return ["BaseException"]
    t = h.type
    elts = t.elts if isinstance(t, ast.Tuple) else [t]
    return [ast.unparse(e) for e in elts]


_outer_from = [0]
_WORD = re.compile(r"[A-Za-z_][A-Za-z0-9_]*(?:\.[A-Za-z_][A-Za-z0-9_]*)*")


def _stores(loop) -> set[str]:
    """Names and attribute chains (`self._x`) assigned anywhere in the loop (its test excluded): plain, augmented, for-targets, walrus."""
    out: set[str] = set()
    for st in loop.body + loop.orelse:
        for x in ast.walk(st):
            if isinstance(x, (ast.FunctionDef, ast.AsyncFunctionDef, ast.Lambda)):
                continue
            if isinstance(x, (ast.Name, ast.Attribute)) and isinstance(getattr(x, "ctx", None), (ast.Store, ast.Del)):
                try:
                    out.add(ast.unparse(x))
                except Exception:
                    pass
            elif isinstance(x, ast.AugAssign):
                out.add(ast.unparse(x.target))
    return out


def _mentions(text: str, names: set[str]) -> bool:
    for m in _WORD.finditer(text):
        w = m.group(0)
        if w in names:
            return True
        # `self._x.y` mentions `self._x`
        parts = w.split(".")
        for k in range(len(parts) - 1, 0, -1):
            if ".".join(parts[:k]) in names:
                return True
    return False


def pc(node, stop=None, raw: bool = False) -> list[frozenset]:
    """CNF path condition of `node` (a statement or expression) inside its function.
    raw=True: literals as written (no substitution of single-definition locals)."""
    if raw:
        _RAW[0] = True
        try:
            return pc(node, stop, False)
        finally:
            _RAW[0] = False
    clauses: list[frozenset] = []
    n = node
    # climb to the statement
    while n is not None and not isinstance(n, (ast.stmt, ast.ExceptHandler)):
        par = n.parent
        # short-circuit operands: `a and b` -> b evaluated under a ; IfExp branches
        if isinstance(par, ast.BoolOp) and n in par.values:
            idx = par.values.index(n)
            for prev in par.values[:idx]:
                clauses += _cnf(prev, isinstance(par.op, ast.And), node)
        elif isinstance(par, ast.IfExp):
            if n is par.body:
                clauses += _cnf(par.test, True, node)
            elif n is par.orelse:
                clauses += _cnf(par.test, False, node)
        n = par
    killed: set[str] = set()  # names / attribute chains assigned inside a loop that was left on the way up

    def _alive(cs):
        if not killed:
            return cs
        return [c for c in cs if not any(_mentions(l.text, killed) for l in c)]

    while n is not None and not isinstance(n, (ast.FunctionDef, ast.AsyncFunctionDef, ast.Module, ast.ClassDef, ast.Lambda)):
        if n is stop:
            break
        parent = n.parent
        blk = _block_of(n) if isinstance(n, (ast.stmt, ast.ExceptHandler)) else None
        if blk is not None and isinstance(n, ast.stmt):
            i = blk.index(n)
            for sib in blk[:i]:
                clauses += _alive(fallthrough(sib, node))
        field = getattr(n, "pfield", None)
        if isinstance(parent, (ast.While, ast.For, ast.AsyncFor)) and field in ("body",):
            # a test made before the loop says nothing, in a later iteration, about what the loop body assigns
            own = len(clauses)
            killed |= _stores(parent)
            _outer_from[0] = own
        if isinstance(parent, ast.If):
            if field == "body":
                clauses += _alive(_cnf(parent.test, True, node))
            elif field == "orelse":
                clauses += _alive(_cnf(parent.test, False, node))
        elif isinstance(parent, ast.While):
            if field == "body":
                # the loop's own test is evaluated at the start of each iteration; outer loops' tests are subject to the same invalidation
                inner_kill = killed - _stores(parent)
                clauses += [c for c in _cnf(parent.test, True, node) if not any(_mentions(l.text, inner_kill) for l in c)]
        elif isinstance(parent, ast.ExceptHandler):
            clauses.append(frozenset([Lit("EXCEPT(" + ", ".join(handler_types(parent)) + ")", True)]))
        elif isinstance(parent, ast.Try) and field == "orelse":
            clauses.append(frozenset([Lit("TRY_ELSE", True)]))
        elif isinstance(parent, ast.match_case):
            clauses.append(frozenset([Lit("CASE(" + repr(ast.unparse(parent.pattern)) + ")", True)]))
        n = parent
    # dedupe preserving order
    seen = set()
    out = []
    for c in clauses:
        if c not in seen:
            seen.add(c)
            out.append(c)
    return simplify(out)


def _eq_parts(text: str):
    """('lhs', 'const') for a literal text of the form `lhs == CONST` (dotted name or literal constant)."""
    try:
        e = ast.parse(text, mode="eval").body
    except SyntaxError:
        return None
    if isinstance(e, ast.Compare) and len(e.ops) == 1 and isinstance(e.ops[0], (ast.Eq, ast.Is)):
        r = e.comparators[0]
        if isinstance(r, ast.Constant) or (isinstance(r, ast.Attribute) and isinstance(r.value, ast.Name) and r.attr.isupper()):
            return ast.unparse(e.left), ast.unparse(r)
    return None


def simplify(clauses):
    """Unit propagation.  A unit (E == C2) also satisfies !(E == C1) for a different constant C1."""
    clauses = list(clauses)
    for _ in range(8):
        units_ = {next(iter(c)) for c in clauses if len(c) == 1}
        eqs = {}
        for u in units_:
            if u.pos:
                p = _eq_parts(u.text)
                if p:
                    eqs[p[0]] = p[1]
        changed = False
        out = []
        for c in clauses:
            if len(c) <= 1:
                out.append(c)
                continue
            sat = False
            keep = set()
            for l in c:
                if l in units_:
                    sat = True
                    break
                p = _eq_parts(l.text)
                if p and p[0] in eqs and eqs[p[0]] != p[1]:
                    if not l.pos:
                        sat = True
                        break
                    continue  # (E == C1) is false given (E == C2): drop the literal
                if l.neg() in units_:
                    continue
                keep.add(l)
            if sat:
                changed = True
                continue
            fc = frozenset(keep)
            if fc != c:
                changed = True
            if fc not in out:
                out.append(fc)
        clauses = out
        if not changed:
            break
    return clauses


def units(clauses) -> list[Lit]:
    return [next(iter(c)) for c in clauses if len(c) == 1]


def has_lit(clauses, pattern: str, pos: bool, binds: dict | None = None):
    """Is there a unit clause whose literal matches `pattern` with polarity `pos`?
    Returns the bindings (dict) or None."""
    from . import match as M

    if isinstance(pattern, (list, tuple)):
        # alternatives: [(pattern, polarity), ...] - the first that is established wins
        for alt, apos in pattern:
            b = has_lit(clauses, alt, apos, binds)
            if b is not None:
                return b
        return None
    for lit in units(clauses):
        if lit.pos != pos:
            continue
        b = M.match_text(pattern, lit.text)
        if b is not None:
            if binds:
                ok = True
                for k, v in binds.items():
                    if k in b and ast.dump(b[k]) != ast.dump(v):
                        ok = False
                if not ok:
                    continue
            return b
    return None


def implied_false(clauses) -> bool:
    return any(len(c) == 0 for c in clauses)


def _exit_kinds(st) -> set[str]:
    """Kinds of abrupt exits inside a statement (not descending into nested defs / loops for break/continue)."""
    out = set()
    stack = [st]
    while stack:
        n = stack.pop()
        if isinstance(n, ast.Raise):
            out.add("raise")
        elif isinstance(n, ast.Return):
            out.add("return")
        elif isinstance(n, ast.Continue):
            out.add("continue")
        elif isinstance(n, ast.Break):
            out.add("break")
        if isinstance(n, (ast.FunctionDef, ast.AsyncFunctionDef, ast.Lambda, ast.ClassDef)) and n is not st:
            continue
        stack.extend(ast.iter_child_nodes(n))
    return out


def guard_clauses(node):
    """[(clause, kinds)] contributed to pc(node) by earlier sibling statements (guard exits):
    kinds = the abrupt-exit kinds inside that sibling ({'raise'} = another rejection tested first)."""
    out = []
    n = node
    while n is not None and not isinstance(n, (ast.stmt, ast.ExceptHandler)):
        n = n.parent
    while n is not None and not isinstance(n, (ast.FunctionDef, ast.AsyncFunctionDef, ast.Module, ast.ClassDef, ast.Lambda)):
        blk = _block_of(n) if isinstance(n, ast.stmt) else None
        if blk is not None:
            for sib in blk[: blk.index(n)]:
                cl = fallthrough(sib, node)
                if cl:
                    kinds = _exit_kinds(sib)
                    for c in cl:
                        out.append((c, kinds))
        n = n.parent
    return out
