"""Regular-language reasoning on the repository's own regular expressions.

re._parser syntax tree -> epsilon-NFA over symbolic character sets -> DFA over the alphabet partition
induced by the sets of both operands -> equivalence / inclusion with a shortest witness.

Match mode (fullmatch / match / search) is folded into the language.  Anchors are modelled exactly:
`^`/`\\A` only at position 0 (no MULTILINE), `\\Z` only at the end, `$` at the end or before a final
newline.  Unsupported constructs (back references, look-around, word boundaries, MULTILINE) raise
AnalysisError: a rule that needs the pattern then fails as analysis-broken, never as a pass.

Universe of symbols.  str patterns: every code point 0..0x2FF, every explicit literal / range end
point of the operands +-1, and representatives of what lies beyond (digits, letters, marks, symbols,
separators of several scripts, astral, lone surrogates U+DC80..U+DCFF as produced by
`surrogateescape`).  Characters not in the universe are, for a pattern without category escapes and
case folding, indistinguishable from a representative outside all explicit sets; category escapes
and IGNORECASE are evaluated on the universe with the interpreter's own engine on single characters.
bytes patterns: all 256 values (exact)."""
from __future__ import annotations

import re
import re._constants as C  # type: ignore
import re._parser as P  # type: ignore
from collections import deque

from .loader import AnalysisError

STR_REPS = [
    0x0300, 0x0301, 0x0370, 0x03A9, 0x03C9, 0x0430, 0x0660, 0x0663, 0x0669, 0x06F0, 0x0966, 0x09E6, 0x0E50,
    0x1680, 0x180E, 0x2000, 0x2003, 0x200B, 0x2028, 0x2029, 0x202F, 0x205F, 0x2060, 0x212A, 0x2160, 0x2460, 0x3000,
    0x4E2D, 0xAC00, 0xD7FF, 0xDC80, 0xDC8A, 0xDC8D, 0xDCFF, 0xE000, 0xFB01, 0xFEFF, 0xFF10, 0xFF11, 0xFF21, 0xFF41, 0xFFFD,
    0x10000, 0x1D7CE, 0x1F600, 0xE0001, 0x10FFFF,
]


class Lang:
    """A compiled (pattern, flags, mode) as NFA; created by `lang()`."""

    def __init__(self, pattern, flags: int, mode: str):
        self.is_bytes = isinstance(pattern, (bytes, bytearray))
        self.pattern = pattern
        self.flags = flags
        self.mode = mode
        if flags & re.MULTILINE:
            raise AnalysisError(f"regexlang: MULTILINE unsupported: {pattern!r}")
        try:
            self.tree = P.parse(pattern, flags)
        except re.error as e:
            raise AnalysisError(f"regexlang: cannot parse {pattern!r}: {e}")
        self.flags = self.tree.state.flags
        # NFA: states are ints; trans[q] = list of (label, q2); label = ('eps',) | ('set', key) | ('begin',) | ('end', '$'|'Z')
        self.trans: list[list] = []
        self.sets: dict[object, object] = {}  # key -> predicate description
        self.points: set[int] = set()
        self.start = self._new()
        self.accept = self._new()
        s = self.start
        if mode == "search":
            a = self._new()
            self._add(s, ("eps",), a)
            self._add(a, ("set", self._setkey(("any_nl",))), a)
            s = a
        end = self._build(self.tree, s)
        if mode in ("search", "match"):
            b = self._new()
            self._add(end, ("eps",), b)
            self._add(b, ("set", self._setkey(("any_nl",))), b)
            end = b
        self._add(end, ("eps",), self.accept)

    def _new(self):
        self.trans.append([])
        return len(self.trans) - 1

    def _add(self, a, label, b):
        self.trans[a].append((label, b))

    def _setkey(self, desc):
        self.sets[desc] = desc
        return desc

    # -- construction ---------------------------------------------------------------------------------
    def _build(self, seq, s):
        for op, av in seq:
            s = self._item(op, av, s)
        return s

    def _item(self, op, av, s):
        if op is C.LITERAL:
            self.points.add(av)
            e = self._new()
            self._add(s, ("set", self._setkey(("lit", av))), e)
            return e
        if op is C.NOT_LITERAL:
            self.points.add(av)
            e = self._new()
            self._add(s, ("set", self._setkey(("notlit", av))), e)
            return e
        if op is C.ANY:
            e = self._new()
            self._add(s, ("set", self._setkey(("any_nl",) if self.flags & re.DOTALL else ("any",))), e)
            return e
        if op is C.IN:
            items = []
            for o2, a2 in av:
                if o2 is C.NEGATE:
                    items.append(("neg",))
                elif o2 is C.LITERAL:
                    self.points.add(a2)
                    items.append(("lit", a2))
                elif o2 is C.RANGE:
                    self.points.update(a2)
                    items.append(("range", a2[0], a2[1]))
                elif o2 is C.CATEGORY:
                    items.append(("cat", str(a2)))
                else:
                    raise AnalysisError(f"regexlang: unsupported class item {o2} in {self.pattern!r}")
            e = self._new()
            self._add(s, ("set", self._setkey(("in", tuple(items)))), e)
            return e
        if op is C.CATEGORY:
            e = self._new()
            self._add(s, ("set", self._setkey(("in", (("cat", str(av)),)))), e)
            return e
        if op is C.BRANCH:
            e = self._new()
            for alt in av[1]:
                a = self._new()
                self._add(s, ("eps",), a)
                x = self._build(alt, a)
                self._add(x, ("eps",), e)
            return e
        if op is C.SUBPATTERN:
            group, add_flags, del_flags, p = av
            if add_flags or del_flags:
                raise AnalysisError(f"regexlang: inline flags unsupported in {self.pattern!r}")
            return self._build(p, s)
        if op in (C.MAX_REPEAT, C.MIN_REPEAT) or (hasattr(C, "POSSESSIVE_REPEAT") and op is C.POSSESSIVE_REPEAT):
            lo, hi, p = av
            if lo > 64 or (hi is not C.MAXREPEAT and hi > 64):
                raise AnalysisError(f"regexlang: repeat bound too large in {self.pattern!r}")
            for _ in range(lo):
                s = self._build(p, s)
            if hi is C.MAXREPEAT:
                a = self._new()
                self._add(s, ("eps",), a)
                x = self._build(p, a)
                self._add(x, ("eps",), a)
                return a
            e = self._new()
            self._add(s, ("eps",), e)
            for _ in range(hi - lo):
                s = self._build(p, s)
                self._add(s, ("eps",), e)
            return e
        if op is C.AT:
            e = self._new()
            if av in (C.AT_BEGINNING, C.AT_BEGINNING_STRING):
                self._add(s, ("begin",), e)
            elif av is C.AT_END:
                self._add(s, ("end", "$"), e)
            elif av is C.AT_END_STRING:
                self._add(s, ("end", "Z"), e)
            else:
                raise AnalysisError(f"regexlang: unsupported anchor {av} in {self.pattern!r}")
            return e
        if hasattr(C, "ATOMIC_GROUP") and op is C.ATOMIC_GROUP:
            return self._build(av, s)
        raise AnalysisError(f"regexlang: unsupported construct {op} in {self.pattern!r}")

    # -- symbol membership --------------------------------------------------------------------------------
    def member(self, desc, cp: int) -> bool:
        kind = desc[0]
        if kind == "any_nl":
            return True
        if kind == "any":
            return cp != 10
        if kind in ("lit", "notlit"):
            hit = self._lit(desc[1], cp)
            return hit if kind == "lit" else not hit
        if kind == "in":
            items = desc[1]
            neg = bool(items) and items[0] == ("neg",)
            hit = False
            for it in items:
                if it[0] == "neg":
                    continue
                if it[0] == "lit":
                    hit = hit or self._lit(it[1], cp)
                elif it[0] == "range":
                    hit = hit or self._range(it[1], it[2], cp)
                elif it[0] == "cat":
                    hit = hit or self._cat(it[1], cp)
            return hit != neg
        raise AssertionError(desc)

    def _ch(self, cp):
        return bytes([cp]) if self.is_bytes else chr(cp)

    def _lit(self, lit, cp):
        if lit == cp:
            return True
        if self.flags & re.IGNORECASE:
            return _engine(re.escape(self._ch(lit)), self.flags & (re.IGNORECASE | re.ASCII | re.UNICODE), self._ch(cp))
        return False

    def _range(self, lo, hi, cp):
        if lo <= cp <= hi:
            return True
        if self.flags & re.IGNORECASE:
            pat = (b"[" + re.escape(bytes([lo])) + b"-" + re.escape(bytes([hi])) + b"]") if self.is_bytes else "[" + re.escape(chr(lo)) + "-" + re.escape(chr(hi)) + "]"
            return _engine(pat, self.flags & (re.IGNORECASE | re.ASCII | re.UNICODE), self._ch(cp))
        return False

    _CATS = {
        "CATEGORY_DIGIT": r"\d", "CATEGORY_NOT_DIGIT": r"\D", "CATEGORY_SPACE": r"\s", "CATEGORY_NOT_SPACE": r"\S",
        "CATEGORY_WORD": r"\w", "CATEGORY_NOT_WORD": r"\W",
    }

    def _cat(self, cat, cp):
        esc = self._CATS.get(cat)
        if esc is None:
            raise AnalysisError(f"regexlang: unsupported category {cat}")
        pat = esc.encode() if self.is_bytes else esc
        return _engine(pat, self.flags & (re.ASCII | re.UNICODE | re.LOCALE) & ~re.LOCALE, self._ch(cp))


_ENGINE_CACHE: dict = {}


def _engine(pat, flags, ch) -> bool:
    k = (pat, flags)
    if k not in _ENGINE_CACHE:
        _ENGINE_CACHE[k] = re.compile(pat, flags)
    try:
        return _ENGINE_CACHE[k].fullmatch(ch) is not None
    except Exception:
        return False


def lang(pattern, flags: int = 0, mode: str = "fullmatch") -> Lang:
    return Lang(pattern, flags, mode)


def universe(langs) -> list[int]:
    if any(l.is_bytes for l in langs):
        return list(range(256))
    u = set(range(0x300)) | set(STR_REPS)
    for l in langs:
        for p in l.points:
            for q in (p - 1, p, p + 1):
                if 0 <= q <= 0x10FFFF:
                    u.add(q)
    return sorted(u)


class DFA:
    def __init__(self, l: Lang, classes: list[list[int]]):
        """Subset construction.  NFA configuration = (q, begin_ok, tail) with tail in
        0 free / 1 `$`-tail (may still read one final newline) / 2 nothing more may be read."""
        self.l = l
        self.classes = classes
        reps = [c[0] for c in classes]
        setkeys = list(l.sets)
        memb = {k: [l.member(k, r) for r in reps] for k in setkeys}
        nl = [r == 10 for r in reps]

        def closure(cfgs):
            stack = list(cfgs)
            seen = set(cfgs)
            while stack:
                q, b, t = stack.pop()
                for label, q2 in l.trans[q]:
                    if label[0] == "eps":
                        n = (q2, b, t)
                    elif label[0] == "begin":
                        if not b:
                            continue
                        n = (q2, b, t)
                    elif label[0] == "end":
                        if label[1] == "$":
                            n = (q2, b, max(t, 1))
                        else:
                            n = (q2, b, 2)
                    else:
                        continue
                    if n not in seen:
                        seen.add(n)
                        stack.append(n)
            return frozenset(seen)

        start = closure({(l.start, True, 0)})
        self.start = start
        self.states = {start: 0}
        self.table: list[list[int]] = []
        self.accepting: list[bool] = []
        order = [start]
        i = 0
        while i < len(order):
            S = order[i]
            i += 1
            self.accepting.append(any(q == l.accept for q, _b, _t in S))
            row = []
            for ci in range(len(classes)):
                nxt = set()
                for q, b, t in S:
                    if t == 2:
                        continue
                    for label, q2 in l.trans[q]:
                        if label[0] != "set":
                            continue
                        if not memb[label[1]][ci]:
                            continue
                        if t == 1:
                            if not nl[ci]:
                                continue
                            nxt.add((q2, False, 2))
                        else:
                            nxt.add((q2, False, 0))
                T = closure(nxt) if nxt else frozenset()
                if T not in self.states:
                    self.states[T] = len(order)
                    order.append(T)
                    if len(order) > 20000:
                        raise AnalysisError(f"regexlang: DFA too large for {l.pattern!r}")
                row.append(self.states[T])
            self.table.append(row)

    def accepts_classes(self, idxs) -> bool:
        s = 0
        for c in idxs:
            s = self.table[s][c]
        return self.accepting[s]


def _partition(langs) -> list[list[int]]:
    u = universe(langs)
    keys = []
    for l in langs:
        for k in l.sets:
            keys.append((l, k))
    groups: dict[tuple, list[int]] = {}
    for cp in u:
        sig = tuple(l.member(k, cp) for l, k in keys) + (cp == 10,)
        groups.setdefault(sig, []).append(cp)
    return list(groups.values())


def compare(a: Lang, b: Lang):
    """Returns (only_in_a, only_in_b): shortest witness strings (or None) for each direction."""
    if a.is_bytes != b.is_bytes:
        raise AnalysisError("regexlang: str/bytes mismatch")
    classes = _partition([a, b])
    da, db = DFA(a, classes), DFA(b, classes)
    wa = wb = None
    seen = {(0, 0): None}
    q = deque([(0, 0)])
    while q and (wa is None or wb is None):
        sa, sb = q.popleft()
        aa, ab = da.accepting[sa], db.accepting[sb]
        if aa and not ab and wa is None:
            wa = _witness(seen, (sa, sb), classes, a.is_bytes)
        if ab and not aa and wb is None:
            wb = _witness(seen, (sa, sb), classes, a.is_bytes)
        for ci in range(len(classes)):
            n = (da.table[sa][ci], db.table[sb][ci])
            if n not in seen:
                seen[n] = ((sa, sb), ci)
                q.append(n)
    return wa, wb


def _witness(seen, st, classes, is_bytes):
    out = []
    while seen[st] is not None:
        prev, ci = seen[st]
        out.append(classes[ci][0])
        st = prev
    out.reverse()
    return bytes(out) if is_bytes else "".join(chr(c) for c in out)


def equivalent(a: Lang, b: Lang):
    wa, wb = compare(a, b)
    return wa is None and wb is None, wa, wb


def subset(a: Lang, b: Lang):
    wa, _ = compare(a, b)
    return wa is None, wa


def single_char_set(l: Lang) -> set[int]:
    """Code points c of the universe such that the one-character string c is in the language."""
    classes = _partition([l])
    d = DFA(l, classes)
    out = set()
    for ci, cl in enumerate(classes):
        if d.accepts_classes([ci]):
            out.update(cl)
    return out


def group_lang(pattern, flags: int, group: int) -> Lang:
    """Language of what capture group `group` can match (its sub-pattern, fullmatch)."""
    tree = P.parse(pattern, flags)

    def find(seq):
        for op, av in seq:
            if op is C.SUBPATTERN:
                g, _a, _d, p = av
                if g == group:
                    return p
                r = find(p)
                if r is not None:
                    return r
            elif op is C.BRANCH:
                for alt in av[1]:
                    r = find(alt)
                    if r is not None:
                        return r
            elif op in (C.MAX_REPEAT, C.MIN_REPEAT):
                r = find(av[2])
                if r is not None:
                    return r
        return None

    p = find(tree)
    if p is None:
        raise AnalysisError(f"regexlang: group {group} not found in {pattern!r}")
    l = Lang.__new__(Lang)
    l.is_bytes = isinstance(pattern, (bytes, bytearray))
    l.pattern = pattern
    l.flags = tree.state.flags
    l.mode = "fullmatch"
    l.tree = p
    l.trans = []
    l.sets = {}
    l.points = set()
    l.start = l._new()
    l.accept = l._new()
    end = l._build(p, l.start)
    l._add(end, ("eps",), l.accept)
    return l


# ---- backtracking cost ------------------------------------------------------------------------------------------------------------------------
def _first_set(items, is_bytes):
    """(set of code points that can start a match of the item sequence, nullable)"""
    import re._constants as C  # type: ignore
    import re._parser as P  # type: ignore
    out: set[int] = set()
    for op, av in items:
        fs, nul = _first_item(op, av, is_bytes)
        out |= fs
        if not nul:
            return out, False
    return out, True


_UNI = range(0, 256)


def _class_set(av, is_bytes):
    import re._constants as C  # type: ignore
    pat = None
    neg = False
    s: set[int] = set()
    import re
    for op, a in av:
        if op is C.NEGATE:
            neg = True
        elif op is C.LITERAL:
            s.add(a)
        elif op is C.RANGE:
            s |= set(range(a[0], min(a[1], 255) + 1))
        elif op is C.CATEGORY:
            probe = {C.CATEGORY_DIGIT: r"\d", C.CATEGORY_NOT_DIGIT: r"\D", C.CATEGORY_SPACE: r"\s", C.CATEGORY_NOT_SPACE: r"\S", C.CATEGORY_WORD: r"\w", C.CATEGORY_NOT_WORD: r"\W"}.get(a)
            if probe is None:
                s |= set(_UNI)
            else:
                rx = re.compile(probe.encode() if is_bytes else probe)
                s |= {c for c in _UNI if rx.fullmatch(bytes([c]) if is_bytes else chr(c))}
    return (set(_UNI) - s) if neg else s


def _first_item(op, av, is_bytes):
    import re._constants as C  # type: ignore
    if op is C.LITERAL:
        return {min(av, 255)}, False
    if op is C.NOT_LITERAL:
        return set(_UNI) - {av}, False
    if op is C.ANY:
        return set(_UNI), False
    if op is C.IN:
        return _class_set(av, is_bytes), False
    if op in (C.MAX_REPEAT, C.MIN_REPEAT) or getattr(C, "POSSESSIVE_REPEAT", None) is op:
        lo, _hi, sub = av
        fs, nul = _first_set(list(sub), is_bytes)
        return fs, nul or lo == 0
    if op is C.SUBPATTERN:
        return _first_set(list(av[3]), is_bytes)
    if getattr(C, "ATOMIC_GROUP", None) is op:
        return _first_set(list(av), is_bytes)
    if op is C.BRANCH:
        out: set[int] = set()
        nul = False
        for alt in av[1]:
            fs, n_ = _first_set(list(alt), is_bytes)
            out |= fs
            nul = nul or n_
        return out, nul
    if op in (C.AT, C.ASSERT, C.ASSERT_NOT):
        return set(), True
    if op is C.GROUPREF:
        return set(_UNI), True
    return set(_UNI), True


def _alternatives(items):
    """Item sequences of a sub-pattern with top-level groups and branches expanded (bounded)."""
    import re._constants as C  # type: ignore
    seqs = [[]]
    for op, av in items:
        if op is C.SUBPATTERN:
            subs = _alternatives(list(av[3]))
        elif op is C.BRANCH:
            subs = [s for alt in av[1] for s in _alternatives(list(alt))]
        else:
            subs = [[(op, av)]]
        seqs = [a + b for a in seqs for b in subs][:256]
    return seqs


def _unbounded(op, av):
    import re._constants as C  # type: ignore
    return op in (C.MAX_REPEAT, C.MIN_REPEAT) and av[1] is C.MAXREPEAT


def backtracking_hazards(pattern, flags: int = 0) -> list[str]:
    """Structural reasons why a failing match of `pattern` takes more than linear time with Python's backtracking matcher:
      nested  - an unbounded repetition whose body has an alternative that is itself (up to optional parts) an unbounded repetition, so a run
                of n characters can be split between inner and outer loop in 2**n ways: (?:[a-z]+|%[0-9a-f]{2})+ , (a*)* , (\\w+\\s?)+
    Possessive quantifiers and atomic groups do not backtrack and are not reported.  The test is syntactic and exact for the shapes above; it
    does not look for polynomial cases (adjacent overlapping repetitions)."""
    import re._constants as C  # type: ignore
    import re._parser as P  # type: ignore
    is_bytes = isinstance(pattern, (bytes, bytearray))
    tree = P.parse(pattern, flags)
    out: list[str] = []

    def visit(items):
        for op, av in items:
            if op in (C.MAX_REPEAT, C.MIN_REPEAT):
                lo, hi, sub = av
                if hi is C.MAXREPEAT:
                    for seq in _alternatives(list(sub)):
                        solid = [(o, a) for o, a in seq if not _first_item(o, a, is_bytes)[1]]
                        loops = [(o, a) for o, a in seq if _unbounded(o, a)]
                        if loops and (not solid or (len(solid) == 1 and _unbounded(*solid[0]))):
                            inner = loops[0] if not solid else solid[0]
                            fs, _n = _first_item(*inner, is_bytes)
                            if fs:
                                out.append("nested")
                visit(list(sub))
            elif op is C.SUBPATTERN:
                visit(list(av[3]))
            elif op is C.BRANCH:
                for alt in av[1]:
                    visit(list(alt))
            elif op in (C.ASSERT, C.ASSERT_NOT):
                visit(list(av[1]))
            elif getattr(C, "ATOMIC_GROUP", None) is op:
                pass
    visit(list(tree))

    # adjacent: a *lazy* unbounded repetition followed (only optional items between) by an unbounded repetition that can match the same
    # character, followed by something that can fail: the lazy one tries the rest after every character it takes, and the rest scans the
    # whole run before it fails - O(n**2) even when the match succeeds.  `(?:...|[^,])+?[ \t]*(?:,|\Z)` and `(.*?)(\2)\s*$` on a long run of
    # blanks.  (Two greedy neighbours, `a*a*b`, are quadratic on failing input only and are not reported.)
    def rep_set(op, av):
        lo, hi, sub = av
        fs, _n = _first_set(list(sub), is_bytes)
        # every character the body can *contain* matters for overlap; the first set is what this analysis has - widen for bodies that are
        # a single class or a branch of single items (the common case), which makes first set == contained set
        return fs

    def flat(items):
        seq = []
        for op, av in items:
            if op is C.SUBPATTERN:
                seq += flat(list(av[3]))
            else:
                seq.append((op, av))
        return seq

    def lazy_tails(op, av):
        """lazy unbounded repetitions an item can end with (itself, the end of a group, the end of an alternative)"""
        if op is C.MIN_REPEAT and av[1] is C.MAXREPEAT:
            return [(op, av)]
        if op is C.SUBPATTERN:
            sub = flat(list(av[3]))
            return lazy_tails(*sub[-1]) if sub else []
        if op is C.BRANCH:
            out_ = []
            for alt in av[1]:
                sub = flat(list(alt))
                if sub:
                    out_ += lazy_tails(*sub[-1])
            return out_
        return []

    def scan(items):
        for seq in [flat(items)]:
            for i, (op0, av0) in enumerate(seq):
              for op, av in lazy_tails(op0, av0):
                j = i + 1
                while j < len(seq) and not _unbounded(*seq[j]) and _first_item(*seq[j], is_bytes)[1]:
                    j += 1
                if j < len(seq) and _unbounded(*seq[j]) and rep_set(op, av) & rep_set(*seq[j]):
                    rest = seq[j + 1:]
                    if any(not _first_item(o, a, is_bytes)[1] or o is C.BRANCH or o is C.AT for o, a in rest):
                        # no failure is possible behind a greedy repetition that stops exactly where the rest begins: `[^,]+(?:,|\Z)` - what the
                        # repetition cannot take is what the rest accepts, and the rest accepts the end of the input
                        nxt, _nul = _first_set(rest, is_bytes)
                        ends = any(o is C.AT and a in (C.AT_END, C.AT_END_STRING) for o, a in rest) or any(
                            o is C.BRANCH and any(len(alt) == 1 and alt[0][0] is C.AT and alt[0][1] in (C.AT_END, C.AT_END_STRING) for alt in a[1]) for o, a in rest)
                        greedy2 = seq[j][0] is C.MAX_REPEAT
                        if greedy2 and ends and (set(_UNI) - rep_set(*seq[j])) <= nxt:
                            continue
                        out.append("adjacent")
        for op, av in items:
            if op in (C.MAX_REPEAT, C.MIN_REPEAT):
                scan(list(av[2]))
            elif op is C.SUBPATTERN:
                scan(list(av[3]))
            elif op is C.BRANCH:
                for alt in av[1]:
                    scan(list(alt))
    scan(list(tree))
    return out


def _hazard_selfcheck() -> bool:
    bad = [r"(?:[a-z]+|%[0-9a-f]{2})+", r"(a*)*", r"(\w+\s?)+$", rb"(?:[a-z0-9.-]+|%[0-9A-F]{2})+"]
    good = [r"(?:[a-z]|%[0-9a-f]{2})+", r"[a-z]+(?:\.[a-z]+)*", r"(?:%[0-9a-f]+)+", r"\s*,\s*", r"(?:a+b)+", r"[^\r\n]*", r"(?>a+)+" if hasattr(__import__("re._constants", fromlist=["x"]), "ATOMIC_GROUP") else r"a+"]
    bad += [r"(?:x|[^,])+?[ \t]*(?:,|\Z)", r"=(.*?)\s*$"]
    good += [r"(?:x|[^,])+(?:,|\Z)", r"[ \t]*(?:a|b)[ \t]*,", r"\d+\.\d+", r"[a-z]*[0-9]*x", r"=\s*(.*?)$", r"[ \t]*(?:x|[^,])+(?:,|\Z)"]
    return all(backtracking_hazards(p) for p in bad) and not any(backtracking_hazards(p) for p in good)
