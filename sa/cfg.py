"""Statement-level control-flow graph for one function, with exceptional flow.

Nodes: one per simple statement; `test` nodes for if/while conditions; `for` header nodes;
`with-enter` / `with-exit` nodes; synthetic ENTRY, EXIT (normal return / fall off the end) and
RAISE (exception leaves the function).

Edge kinds:
  n / T / F      normal, true branch, false branch
  x-raise        explicit `raise` statement
  x-call         implicit exception of a statement (any statement containing a call/subscript/...)
  x-await        exception delivered at an await (cancellation, timeout)
`finally` bodies are duplicated per abrupt-exit kind (exception / return / break / continue) so the
graph stays linear in the source.  Edge attribute `to_handler` is True when an implicit exception
edge leads to an `except` clause of an enclosing try (possibly through finally copies).

Exit models used by the rules:
  EXPLICIT  n, T, F, x-raise everywhere; x-call / x-await only when they lead to a handler
  CANCEL    EXPLICIT + x-await everywhere (a task may be cancelled at any await)
  ALL       every edge
"""
from __future__ import annotations

import ast
from collections import deque

EXPLICIT, CANCEL, ALL = "explicit", "cancel", "all"

CATCH_ALL_AWAIT = {"BaseException", "asyncio.CancelledError", "CancelledError"}
CATCH_ALL_CALL = {"BaseException", "Exception"}


class Node:
    __slots__ = ("id", "kind", "ast", "succ", "pred", "label", "copy_of", "in_finally_copy")

    def __init__(self, id, kind, ast_node, label=""):
        self.id = id
        self.kind = kind  # stmt|test|for|with-enter|with-exit|entry|exit|raise|handler|join
        self.ast = ast_node
        self.succ: list[tuple["Node", str, bool]] = []  # (target, kind, to_handler)
        self.pred: list[tuple["Node", str, bool]] = []
        self.label = label
        self.copy_of = None
        self.in_finally_copy = None

    @property
    def lineno(self):
        return getattr(self.ast, "lineno", 0)

    def __repr__(self):
        return f"<{self.kind}#{self.id}@{self.lineno} {self.label}>"


def _may_raise(expr_or_stmt) -> bool:
    for n in ast.walk(expr_or_stmt):
        if isinstance(n, (ast.Call, ast.Subscript, ast.Await, ast.BinOp, ast.Attribute, ast.Compare, ast.Yield, ast.YieldFrom, ast.Starred)):
            return True
    return isinstance(expr_or_stmt, (ast.Assert, ast.Delete, ast.Import, ast.ImportFrom))


def _has_await(node) -> bool:
    stack = [node]
    while stack:
        n = stack.pop()
        if isinstance(n, (ast.Await, ast.AsyncFor, ast.AsyncWith)):
            return True
        if isinstance(n, (ast.FunctionDef, ast.AsyncFunctionDef, ast.Lambda, ast.ClassDef)) and n is not node:
            continue
        stack.extend(ast.iter_child_nodes(n))
    return False


class _Frame:
    def __init__(self, kind, **kw):
        self.kind = kind  # 'try' | 'loop' | 'handler-of'
        self.__dict__.update(kw)


class CFG:
    def __init__(self, fn_node):
        self.fn = fn_node
        self.nodes: list[Node] = []
        self.entry = self._new("entry", fn_node, "ENTRY")
        self.exit = self._new("exit", fn_node, "EXIT")
        self.raise_ = self._new("raise", fn_node, "RAISE")
        self.frames: list[_Frame] = []
        self.by_ast: dict[int, list[Node]] = {}
        dangling = self._block(fn_node.body, [(self.entry, "n")])
        for p, k in dangling:
            self._edge(p, self.exit, k)

    # -- construction helpers ---------------------------------------------------------------
    def _new(self, kind, ast_node, label=""):
        n = Node(len(self.nodes), kind, ast_node, label)
        self.nodes.append(n)
        if ast_node is not None and kind not in ("entry", "exit", "raise"):
            self.by_ast.setdefault(id(ast_node), []).append(n)
        return n

    def _edge(self, a: Node, b: Node, kind: str, to_handler: bool = False):
        for t, k, h in a.succ:
            if t is b and k == kind:
                return
        a.succ.append((b, kind, to_handler))
        b.pred.append((a, kind, to_handler))

    def _connect(self, preds, node):
        for p, k in preds:
            self._edge(p, node, k)

    # exceptional routing -------------------------------------------------------------------
    def _handler_catches(self, h: ast.ExceptHandler, kind: str):
        """'all' if the handler certainly catches exceptions of this edge kind, 'maybe', or 'no'."""
        if h.type is None:
            return "all"
        t = h.type
        names = [ast.unparse(e) for e in (t.elts if isinstance(t, ast.Tuple) else [t])]
        if "BaseException" in names:
            return "all"
        if kind == "x-await":
            if any(n in CATCH_ALL_AWAIT for n in names):
                return "all"
            return "maybe"  # e.g. TimeoutError / OSError delivered at an await
        if kind == "x-call":
            if any(n in CATCH_ALL_CALL for n in names):
                return "all"
            return "maybe"
        return "maybe"

    def _exc_targets(self, kind: str, frames=None, explicit_cls: str | None = None):
        """Where does an exception raised here go?  Returns list of (node, to_handler)."""
        frames = self.frames if frames is None else frames
        out = []
        i = len(frames) - 1
        while i >= 0:
            fr = frames[i]
            if fr.kind == "try":
                outer = frames[:i]
                if fr.phase == "body":
                    caught_all = False
                    for h, hnode in fr.handlers:
                        c = self._handler_catches(h, kind)
                        if c == "no":
                            continue
                        out.append((hnode, True))
                        if c == "all":
                            caught_all = True
                            break
                    if caught_all:
                        return out
                if fr.final is not None and fr.phase != "final":
                    # propagate through a copy of the finally body, then outward
                    key = ("exc", kind)
                    if key not in fr.final_copies:
                        fr.final_copies[key] = None  # guard recursion
                        saved = self.frames
                        self.frames = outer + [_Frame("try", phase="final", handlers=[], final=None, final_copies={}, node=fr.node)]
                        j = self._new("join", fr.node, "finally(exc)")
                        dang = self._block(fr.final, [(j, "n")], copy_tag=("exc", fr.node))
                        self.frames = saved
                        outs = self._exc_targets(kind, outer)
                        for p, k in dang:
                            for t, th in outs:
                                self._edge(p, t, k if k != "n" else kind, th)
                        fr.final_copies[key] = (j, any(th for _t, th in outs))
                    ent = fr.final_copies[key]
                    if ent is not None:
                        out.append(ent)
                    return out
            i -= 1
        out.append((self.raise_, False))
        return out

    def _add_exc(self, node: Node, stmt_or_expr, explicit=False):
        if explicit:
            for t, th in self._exc_targets("x-raise"):
                self._edge(node, t, "x-raise", th)
            return
        if _has_await(stmt_or_expr):
            for t, th in self._exc_targets("x-await"):
                self._edge(node, t, "x-await", th)
        if _may_raise(stmt_or_expr):
            for t, th in self._exc_targets("x-call"):
                self._edge(node, t, "x-call", th)

    def _route_abrupt(self, preds, what: str, loop_node=None):
        """Route return/break/continue through the finally bodies between here and the target."""
        i = len(self.frames) - 1
        cur = preds
        while i >= 0:
            fr = self.frames[i]
            if fr.kind == "loop" and what in ("break", "continue") and (loop_node is None or fr.node is loop_node):
                if what == "break":
                    fr.breaks.extend(cur)
                else:
                    self._connect(cur, fr.head)
                return
            if fr.kind == "try" and fr.final is not None and fr.phase != "final":
                saved = self.frames
                self.frames = self.frames[:i] + [_Frame("try", phase="final", handlers=[], final=None, final_copies={}, node=fr.node)]
                j = self._new("join", fr.node, f"finally({what})")
                self._connect(cur, j)
                cur = self._block(fr.final, [(j, "n")], copy_tag=(what, fr.node))
                self.frames = saved
            i -= 1
        if what == "return":
            self._connect(cur, self.exit)
        # break/continue outside loop: ignore

    # -- blocks and statements -----------------------------------------------------------------
    def _block(self, stmts, preds, copy_tag=None):
        for st in stmts:
            if not preds:
                # unreachable code: still build it (detached) so that by_ast lookups work
                pass
            preds = self._stmt(st, preds, copy_tag)
        return preds

    def _stmt(self, st, preds, copy_tag):
        m = getattr(self, "_s_" + type(st).__name__, None)
        if m is not None:
            return m(st, preds, copy_tag)
        n = self._new("stmt", st, type(st).__name__)
        n.in_finally_copy = copy_tag
        self._connect(preds, n)
        self._add_exc(n, st)
        return [(n, "n")]

    def _s_FunctionDef(self, st, preds, tag):
        n = self._new("stmt", st, "def " + st.name)
        n.in_finally_copy = tag
        self._connect(preds, n)
        return [(n, "n")]

    _s_AsyncFunctionDef = _s_FunctionDef

    def _s_ClassDef(self, st, preds, tag):
        n = self._new("stmt", st, "class " + st.name)
        self._connect(preds, n)
        return [(n, "n")]

    def _s_Return(self, st, preds, tag):
        n = self._new("stmt", st, "return")
        n.in_finally_copy = tag
        self._connect(preds, n)
        if st.value is not None:
            self._add_exc(n, st.value)
        self._route_abrupt([(n, "n")], "return")
        return []

    def _s_Raise(self, st, preds, tag):
        n = self._new("stmt", st, "raise")
        n.in_finally_copy = tag
        self._connect(preds, n)
        self._add_exc(n, st, explicit=True)
        return []

    def _s_Break(self, st, preds, tag):
        n = self._new("stmt", st, "break")
        self._connect(preds, n)
        self._route_abrupt([(n, "n")], "break")
        return []

    def _s_Continue(self, st, preds, tag):
        n = self._new("stmt", st, "continue")
        self._connect(preds, n)
        self._route_abrupt([(n, "n")], "continue")
        return []

    def _s_If(self, st, preds, tag):
        t = self._new("test", st.test, "if")
        t.in_finally_copy = tag
        self._connect(preds, t)
        self._add_exc(t, st.test)
        const = st.test.value if isinstance(st.test, ast.Constant) else None
        out = []
        if const is not False or const is None:
            out += self._block(st.body, [(t, "T")], tag)
        if st.orelse:
            out += self._block(st.orelse, [(t, "F")], tag)
        else:
            out.append((t, "F"))
        return out

    def _s_While(self, st, preds, tag):
        t = self._new("test", st.test, "while")
        t.in_finally_copy = tag
        self._connect(preds, t)
        self._add_exc(t, st.test)
        fr = _Frame("loop", node=st, head=t, breaks=[])
        self.frames.append(fr)
        body_out = self._block(st.body, [(t, "T")], tag)
        self.frames.pop()
        self._connect(body_out, t)
        always = isinstance(st.test, ast.Constant) and bool(st.test.value)
        out = []
        if not always:
            if st.orelse:
                out += self._block(st.orelse, [(t, "F")], tag)
            else:
                out.append((t, "F"))
        out += fr.breaks
        return out

    def _s_For(self, st, preds, tag):
        t = self._new("for", st, "for")
        t.in_finally_copy = tag
        self._connect(preds, t)
        self._add_exc(t, st.iter)
        if isinstance(st, ast.AsyncFor):
            for tg, th in self._exc_targets("x-await"):
                self._edge(t, tg, "x-await", th)
        fr = _Frame("loop", node=st, head=t, breaks=[])
        self.frames.append(fr)
        body_out = self._block(st.body, [(t, "T")], tag)
        self.frames.pop()
        self._connect(body_out, t)
        out = []
        if st.orelse:
            out += self._block(st.orelse, [(t, "F")], tag)
        else:
            out.append((t, "F"))
        out += fr.breaks
        return out

    _s_AsyncFor = _s_For

    def _s_With(self, st, preds, tag):
        ent = self._new("with-enter", st, "with")
        ent.in_finally_copy = tag
        self._connect(preds, ent)
        for it in st.items:
            self._add_exc(ent, it.context_expr)
        is_async = isinstance(st, ast.AsyncWith)
        if is_async:
            for tg, th in self._exc_targets("x-await"):
                self._edge(ent, tg, "x-await", th)
        suppresses = any(
            isinstance(it.context_expr, ast.Call) and getattr(it.context_expr.func, "id", getattr(it.context_expr.func, "attr", "")) == "suppress"
            for it in st.items
        )
        # model as try/finally with an opaque exit node
        exit_stmt = ast.Pass()
        exit_stmt.lineno = getattr(st, "end_lineno", st.lineno)
        exit_stmt._with_exit_of = st  # type: ignore[attr-defined]
        fr = _Frame("try", phase="body", handlers=[], final=[exit_stmt], final_copies={}, node=st)
        if suppresses:
            h = ast.ExceptHandler(type=ast.Name(id="Exception", ctx=ast.Load()), name=None, body=[])
            hn = self._new("handler", st, "suppress")
            fr.handlers = [(h, hn)]
        self.frames.append(fr)
        body_out = self._block(st.body, [(ent, "n")], tag)
        self.frames.pop()
        ex = self._new("with-exit", st, "with-exit")
        ex.in_finally_copy = tag
        self._connect(body_out, ex)
        if suppresses:
            self._edge(fr.handlers[0][1], ex, "n")
        return [(ex, "n")]

    _s_AsyncWith = _s_With

    def _s_Pass(self, st, preds, tag):
        w = getattr(st, "_with_exit_of", None)
        if w is not None:
            n = self._new("with-exit", w, "with-exit*")
            n.in_finally_copy = tag
            self._connect(preds, n)
            return [(n, "n")]
        n = self._new("stmt", st, "pass")
        self._connect(preds, n)
        return [(n, "n")]

    def _s_Try(self, st, preds, tag):
        handlers = [(h, self._new("handler", h, "except " + (ast.unparse(h.type) if h.type else "*"))) for h in st.handlers]
        fr = _Frame("try", phase="body", handlers=handlers, final=st.finalbody or None, final_copies={}, node=st)
        self.frames.append(fr)
        body_out = self._block(st.body, preds, tag)
        fr.phase = "else"
        if st.orelse:
            body_out = self._block(st.orelse, body_out, tag)
        outs = list(body_out)
        fr.phase = "handler"
        for h, hn in handlers:
            hn.in_finally_copy = tag
            outs += self._block(h.body, [(hn, "n")], tag)
        self.frames.pop()
        if st.finalbody:
            j = self._new("join", st, "finally")
            j.in_finally_copy = tag
            self._connect(outs, j)
            return self._block(st.finalbody, [(j, "n")], tag)
        return outs

    _s_TryStar = _s_Try

    def _s_Match(self, st, preds, tag):
        t = self._new("test", st.subject, "match")
        self._connect(preds, t)
        out = [(t, "F")]
        for c in st.cases:
            out += self._block(c.body, [(t, "T")], tag)
        return out

    # -- queries ------------------------------------------------------------------------------------
    def nodes_of(self, ast_node) -> list[Node]:
        """All CFG nodes (incl. finally copies) whose statement/test is or contains ast_node."""
        n = ast_node
        while n is not None:
            if id(n) in self.by_ast:
                return self.by_ast[id(n)]
            if n is self.fn:
                break
            n = getattr(n, "parent", None)
        return []

    @staticmethod
    def edge_ok(model: str, kind: str, to_handler: bool) -> bool:
        if kind in ("n", "T", "F", "x-raise"):
            return True
        if model == ALL:
            return True
        if to_handler:
            return True
        if model == CANCEL and kind == "x-await":
            return True
        return False

    def succs(self, node: Node, model: str):
        for t, k, h in node.succ:
            if self.edge_ok(model, k, h):
                yield t, k

    def find_path(self, starts, is_target, avoid, model=EXPLICIT, start_edges=None):
        """BFS for a path start -> target that avoids nodes satisfying `avoid`.
        `starts`: nodes; the search begins at their successors (or start_edges: list of (node, edgekind)).
        Returns list of nodes (path) or None."""
        q = deque()
        prev = {}
        if start_edges is not None:
            for s, ek in start_edges:
                for t, k in self.succs(s, model):
                    if ek is None or k == ek:
                        if t.id not in prev:
                            prev[t.id] = (s, t)
                            q.append(t)
        else:
            for s in starts:
                for t, k in self.succs(s, model):
                    if t.id not in prev:
                        prev[t.id] = (s, t)
                        q.append(t)
        startids = {s.id for s in (starts or [])} | {s.id for s, _ in (start_edges or [])}
        while q:
            n = q.popleft()
            if avoid(n):
                continue
            if is_target(n):
                path = [n]
                cur = n
                while cur.id in prev:
                    p, _ = prev[cur.id]
                    path.append(p)
                    if p.id in startids:
                        break
                    cur = p
                return list(reversed(path))
            for t, k in self.succs(n, model):
                if t.id not in prev:
                    prev[t.id] = (n, t)
                    q.append(t)
        return None

    def reachable(self, starts, avoid=lambda n: False, model=EXPLICIT, include_starts=False):
        seen = set()
        q = deque()
        for s in starts:
            if include_starts:
                if s.id not in seen and not avoid(s):
                    seen.add(s.id)
                    q.append(s)
            else:
                for t, _k in self.succs(s, model):
                    if t.id not in seen and not avoid(t):
                        seen.add(t.id)
                        q.append(t)
        while q:
            n = q.popleft()
            for t, _k in self.succs(n, model):
                if t.id not in seen and not avoid(t):
                    seen.add(t.id)
                    q.append(t)
        return {self.nodes[i] for i in seen}

    def is_exit(self, n: Node) -> bool:
        return n is self.exit or n is self.raise_

    def fmt_path(self, path, rel="") -> str:
        out = []
        for n in path:
            if n.kind in ("join",):
                continue
            if n is self.exit:
                out.append("EXIT(return)")
            elif n is self.raise_:
                out.append("EXIT(raise)")
            else:
                out.append(f"{n.lineno}:{n.label}")
        return " -> ".join(out)


_CACHE: dict[int, CFG] = {}


def cfg_of(fn_node) -> CFG:
    k = id(fn_node)
    if k not in _CACHE:
        _CACHE[k] = CFG(fn_node)
    return _CACHE[k]
