"""F88 (C05 C10): non-ASCII byte in a chunk-size line: the server must answer 400 (it raised UnicodeEncodeError and sent nothing).  cd /repo && PYTHONPATH=/repo /venv/bin/python /verif/findings/F88.py"""
import asyncio, aiohttp
from aiohttp import web
print(aiohttp.__file__)
async def h(request):
    body = await request.read()
    return web.Response(text="ok")
async def main():
    app = web.Application(); app.router.add_post("/", h)
    runner = web.AppRunner(app); await runner.setup()
    site = web.TCPSite(runner, "127.0.0.1", 0); await site.start()
    port = site._server.sockets[0].getsockname()[1]
    for bad in (b"\xffzz\r\n", b"zz\r\n"):
        r, w = await asyncio.open_connection("127.0.0.1", port)
        w.write(b"POST / HTTP/1.1\r\nHost: a\r\nTransfer-Encoding: chunked\r\n\r\n" + bad); await w.drain()
        try:
            d = await asyncio.wait_for(r.read(65536), 2)
            print(bad, "->", d[:40])
        except asyncio.TimeoutError:
            print(bad, "-> NO RESPONSE within 2s")
        w.close()
    await runner.cleanup()
asyncio.run(main())
