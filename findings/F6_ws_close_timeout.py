"""F6 (C13): client ws close() must return within the close timeout even if the peer keeps sending frames."""
import asyncio, sys, time
import aiohttp
from aiohttp import web, ClientWSTimeout

async def main():
    print(aiohttp.__file__)
    async def handler(request):
        ws = web.WebSocketResponse(autoclose=False, autoping=False)
        await ws.prepare(request)
        try:
            for _ in range(15):          # keeps talking for 3 s, never answers the close
                await ws.send_str("x"); await asyncio.sleep(0.2)
        except Exception:
            pass
        return ws
    app = web.Application(); app.router.add_get("/", handler)
    runner = web.AppRunner(app); await runner.setup()
    site = web.TCPSite(runner, "127.0.0.1", 0); await site.start()
    port = site._server.sockets[0].getsockname()[1]
    async with aiohttp.ClientSession() as s:
        ws = await s.ws_connect(f"http://127.0.0.1:{port}/", timeout=ClientWSTimeout(ws_close=0.5))
        t0 = time.monotonic(); await ws.close(); dt = time.monotonic() - t0
    await runner.cleanup()
    print(f"close() took {dt:.2f}s with ws_close=0.5")
    return 0 if dt < 1.0 else 1
sys.exit(asyncio.run(main()))
