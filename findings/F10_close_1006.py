"""F10 (C12): close code 1006 must never appear on the wire (RFC 6455 7.4.1) but is accepted."""
import asyncio, struct, sys
from unittest import mock
import aiohttp
from aiohttp._websocket.reader_py import WebSocketReader, WebSocketDataQueue
from aiohttp.http_websocket import WebSocketError

def feed(code):
    loop = asyncio.new_event_loop()
    try:
        proto = mock.Mock(); proto._reading_paused = False
        q = WebSocketDataQueue(proto, 2**16, loop=loop)
        r = WebSocketReader(q, 2**16, compress=False, decode_text=True)
        payload = struct.pack("!H", code)
        frame = bytes([0x88, len(payload)]) + payload
        r.feed_data(frame)
        exc = q.exception()
        return "refused" if exc is not None else "accepted"
    finally:
        loop.close()
print(aiohttp.__file__)
res = {c: feed(c) for c in (1000, 1005, 1006, 1015)}
print(res)
sys.exit(0 if res == {1000: "accepted", 1005: "refused", 1006: "refused", 1015: "refused"} else 1)
