"""F273 (C06/C18): a stray CRLF the peer sends on a connection that idles in the pool is skipped by the response parser, so the idle watch
keeps the connection pooled - but the bytes started the sock_read timer, which fires on the idle connection: the next request that reuses
it fails with SocketTimeoutError although the peer answers at once.  Reported by the writer of seed C18-6 on the unchanged tree.
Exit 1 = defect present."""
import asyncio, sys
import aiohttp


async def main():
    conns = 0

    async def serve(rd, wr):
        nonlocal conns
        conns += 1
        try:
            while True:
                await rd.readuntil(b"\r\n\r\n")
                wr.write(b"HTTP/1.1 200 OK\r\nContent-Length: 2\r\n\r\nok")
                await wr.drain()
                await asyncio.sleep(0.1)
                wr.write(b"\r\n")  # stray CRLF after the response, while the connection idles in the client's pool
                await wr.drain()
        except Exception:
            pass

    srv = await asyncio.start_server(serve, "127.0.0.1", 0)
    port = srv.sockets[0].getsockname()[1]
    res = []
    async with aiohttp.ClientSession(timeout=aiohttp.ClientTimeout(total=None, sock_read=0.3)) as s:
        async with s.get(f"http://127.0.0.1:{port}/a") as r:
            res.append(await r.text())
        await asyncio.sleep(1.0)  # idle for longer than sock_read
        try:
            async with s.get(f"http://127.0.0.1:{port}/b") as r:
                res.append(await r.text())
        except Exception as e:
            res.append(repr(e))
    srv.close()
    print(res, "connections:", conns)
    return 0 if res == ["ok", "ok"] else 1


rc = asyncio.run(main())
sys.exit(rc)
