import asyncio, time, aiohttp
from aiohttp import web
async def main():
    print(aiohttp.__file__)
    async def h(request):
        resp = web.StreamResponse()
        await resp.prepare(request)
        await resp.write(b"hello")
        await resp.write_eof()
        return resp
    app = web.Application(); app.router.add_get("/", h)
    runner = web.AppRunner(app); await runner.setup()
    site = web.TCPSite(runner, "127.0.0.1", 0); await site.start()
    port = site._server.sockets[0].getsockname()[1]
    r, w = await asyncio.open_connection("127.0.0.1", port)
    w.write(b"GET / HTTP/1.0\r\nHost: x\r\nConnection: keep-alive\r\n\r\n"); await w.drain()
    t0 = time.monotonic()
    try:
        data = b""
        while True:
            c = await asyncio.wait_for(r.read(65536), 3)
            if not c: break
            data += c
        print("EOF after %.2fs" % (time.monotonic()-t0)); print(data)
    except asyncio.TimeoutError:
        print("no EOF within 3s: server kept the connection open; got so far:", data)
    w.close()
    await runner.cleanup()
asyncio.run(main())
