"""C02 / f2: a request body that fails while it is being sent is reported to the caller only
if the response head has not arrived yet; afterwards the failure is lost and both ends hang.

ClientRequest._write_bytes() records a failed upload with set_exception(protocol, ...).
That only fails the protocol's queue of response *messages*.  Once the response head has
been taken from that queue (ClientResponse.start() returned), nobody looks at it again:
the StreamReader the caller is reading (resp.content) is not failed and the connection is
not closed.  The server keeps waiting for the rest of the request body, the client keeps
waiting for the rest of the response.

Same body producer (an async generator that raises after its first chunk), same handler,
two timings:
  * handler answers after it has read the body  -> ClientConnectionError at once (correct)
  * handler sends its response head first       -> nothing for as long as the timeouts allow
"""
import asyncio
import sys
import time

import aiohttp
from aiohttp import web

print(aiohttp.__file__)


async def handler(request: web.Request) -> web.StreamResponse:
    resp = web.StreamResponse()
    if request.query.get("early"):
        await resp.prepare(request)
        await resp.write(b"started\n")
    n = 0
    async for chunk in request.content.iter_any():
        n += len(chunk)
    if not resp.prepared:
        await resp.prepare(request)
    await resp.write(b"received %d\n" % n)
    return resp


async def body():
    yield b"x" * 100_000
    await asyncio.sleep(0.3)
    raise RuntimeError("cannot produce the rest of the body")


async def attempt(port: int, early: str) -> tuple[str, float]:
    t = time.time()
    async with aiohttp.ClientSession(timeout=aiohttp.ClientTimeout(total=5)) as s:
        try:
            async with s.post(f"http://127.0.0.1:{port}/?early={early}", data=body()) as r:
                data = await r.read()
                return f"status {r.status}, body {data!r}", time.time() - t
        except BaseException as e:  # noqa: BLE001
            return f"{type(e).__name__}: {str(e)[:90]}", time.time() - t


async def main() -> int:
    app = web.Application()
    app.router.add_post("/", handler)
    runner = web.AppRunner(app)
    await runner.setup()
    site = web.TCPSite(runner, "127.0.0.1", 0)
    await site.start()
    port = site._server.sockets[0].getsockname()[1]

    late, t_late = await attempt(port, "")
    print(f"response after the body : {late}  ({t_late:.1f}s)")
    early, t_early = await attempt(port, "1")
    print(f"response head first     : {early}  ({t_early:.1f}s)")
    await runner.cleanup()

    if not late.startswith("ClientConnectionError") or t_late > 2:
        print("control behaves unexpectedly")
        return 2
    if t_early > 2 or "Timeout" in early:
        print(
            "VIOLATION: the upload failed 0.3s into the request, but with the response head "
            "already received the caller of resp.read() is never told: it hangs until the "
            "total timeout (for ever with timeout=None) and the connection stays open"
        )
        return 1
    return 0


sys.exit(asyncio.run(main()))
