"""C02 / f4: a file upload answered early by 307 (or 308, or 401 + DigestAuthMiddleware) is
re-sent while a read of the cancelled first attempt is still running in the executor: the
redirected request carries the wrong bytes (a block of the file is missing), status 200.

IOBasePayload.write_with_length() reads the file with
``await loop.run_in_executor(None, self._read, n)``.  When the early response cancels the
writer task, the executor job keeps running in its thread.  _request() does not wait for
anything (the retry after ServerDisconnectedError at least awaits ``req._close()``): it
builds the next request around the same payload at once, whose first job seeks the file back
to its start and reads.  The stale read of attempt 1 then runs between that seek and read
(or between two reads) and swallows a block that attempt 2 never sends.

With a chunked body the result is a silently corrupted upload; with a Content-Length the
writer comes up short, the server waits for the missing bytes and the request hangs.

The window is as long as one file read, so the script uses a file object whose read() takes
30 ms (network / cold storage); nothing inside aiohttp is touched.
"""
import asyncio
import io
import os
import sys
import tempfile
import time

import aiohttp
from aiohttp import web

print(aiohttp.__file__)

DATA = b"".join(b"%07d\n" % i for i in range(100_000))  # 800 000 bytes, position-coded
TMP = tempfile.mkdtemp()
FP = os.path.join(TMP, "upload.txt")
with open(FP, "wb") as f:
    f.write(DATA)


class SlowFile(io.BufferedReader):
    """A regular, seekable binary file on a slow medium."""

    def read(self, n=-1):
        time.sleep(0.03)
        return super().read(n)


async def first(request: web.Request) -> web.Response:
    # a redirect does not depend on the body: answered without reading it
    raise web.HTTPTemporaryRedirect("/second")


async def second(request: web.Request) -> web.Response:
    return web.Response(body=await request.read())


async def main() -> int:
    app = web.Application(client_max_size=10**8)
    app.router.add_post("/first", first)
    app.router.add_post("/second", second)
    runner = web.AppRunner(app)
    await runner.setup()
    site = web.TCPSite(runner, "127.0.0.1", 0)
    await site.start()
    port = site._server.sockets[0].getsockname()[1]

    bad = []
    for attempt in range(4):
        async with aiohttp.ClientSession(timeout=aiohttp.ClientTimeout(total=10)) as s:
            upload = SlowFile(io.FileIO(FP, "rb"))
            async with s.post(
                f"http://127.0.0.1:{port}/first", data=upload, chunked=True
            ) as r:
                echoed = await r.read()
                hops = [h.status for h in r.history] + [r.status]
        if echoed == DATA:
            print(f"attempt {attempt}: {hops} body intact")
            continue
        first_diff = next(
            (i for i in range(min(len(echoed), len(DATA))) if echoed[i] != DATA[i]), None
        )
        print(
            f"attempt {attempt}: {hops} handler of /second received {len(echoed)} of "
            f"{len(DATA)} bytes; first difference at offset {first_diff}; "
            f"it starts with {echoed[:8]!r} instead of {DATA[:8]!r}"
        )
        bad.append(attempt)
    await runner.cleanup()
    if bad:
        print(
            "VIOLATION: the redirected POST was answered 200 although its body is not the "
            "file: a read left over from the cancelled first attempt consumed part of it"
        )
        return 1
    return 0


sys.exit(asyncio.run(main()))
