"""C02 / f3: DigestAuthMiddleware re-sends a request whose body was already consumed: the
authenticated request reaches the handler with an EMPTY body and is answered 200.

The redirect code of ClientSession._request() knows the problem and fails fast
("Cannot follow redirect with a consumed request body", ``req._body.consumed``), and so does
the retry after ServerDisconnectedError.  DigestAuthMiddleware.__call__() calls
``handler(request)`` a second time after the 401 without looking at ``request.body.consumed``:
an async-generator / StreamReader body (sent chunked) was drained by the unauthenticated first
attempt, so the second attempt writes only the terminating chunk.  The server sees a valid,
authenticated POST with no content - an upload silently turned into an empty one.
(With qop=auth-int the middleware happens to cache the body via as_bytes(); with the
common qop=auth it does not.)
"""
import asyncio
import hashlib
import sys

import aiohttp
from aiohttp import DigestAuthMiddleware, web

print(aiohttp.__file__)

PAYLOAD = b"0123456789abcdef" * 4096  # 64 KiB
SEEN: list[tuple[str, int]] = []


async def handler(request: web.Request) -> web.Response:
    body = await request.read()
    if "Authorization" not in request.headers:
        SEEN.append(("unauthenticated", len(body)))
        return web.Response(
            status=401,
            headers={
                "WWW-Authenticate": 'Digest realm="r", nonce="abc123", qop="auth", algorithm=MD5'
            },
        )
    SEEN.append(("authenticated", len(body)))
    return web.Response(text=hashlib.sha256(body).hexdigest())


async def upload():
    for i in range(0, len(PAYLOAD), 8192):
        yield PAYLOAD[i : i + 8192]


async def main() -> int:
    app = web.Application()
    app.router.add_post("/", handler)
    runner = web.AppRunner(app)
    await runner.setup()
    site = web.TCPSite(runner, "127.0.0.1", 0)
    await site.start()
    port = site._server.sockets[0].getsockname()[1]

    outcome = None
    async with aiohttp.ClientSession(
        middlewares=(DigestAuthMiddleware("user", "pass"),),
        timeout=aiohttp.ClientTimeout(total=10),
    ) as s:
        try:
            async with s.post(f"http://127.0.0.1:{port}/", data=upload()) as r:
                outcome = (r.status, await r.text())
        except aiohttp.ClientError as e:
            outcome = ("error", repr(e))
    await runner.cleanup()

    print("handler saw        :", SEEN)
    print("client got         :", outcome)
    expected = hashlib.sha256(PAYLOAD).hexdigest()
    if outcome[0] == 200 and outcome[1] != expected:
        print(
            f"VIOLATION: the client sent {len(PAYLOAD)} bytes, the authenticated request arrived "
            f"with {SEEN[-1][1]} bytes and was answered 200 (digest of the empty body); no error "
            "on either side.  A redirect in the same situation raises ClientPayloadError."
        )
        return 1
    return 0


sys.exit(asyncio.run(main()))
