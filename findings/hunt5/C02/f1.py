"""C02 / f1: a file upload to a handler that starts its response before the upload
is complete (the classic echo handler) never finishes.

ClientSession._request() closes the request payload as soon as the response HEAD has
been read (client.py: ``if req._body is not None: await req._body.close()`` after the
redirect loop), although the writer task is still uploading it.  For BytesIO / bytes /
async generators close() is a no-op, for a real file (IOBasePayload, also a file field of
FormData) it closes the file under the running upload: the next read raises
"read of closed file", the rest of the body is never sent, the server waits for it and
the client waits for the end of the response -> both sides hang until a timeout.

Control: the same request with io.BytesIO(data) round-trips.
"""
import asyncio
import io
import os
import sys
import tempfile
import time

import aiohttp
from aiohttp import web

print(aiohttp.__file__)

SIZE = 20_000_000
DATA = os.urandom(1000) * (SIZE // 1000)
TMP = tempfile.mkdtemp()
FP = os.path.join(TMP, "upload.bin")
with open(FP, "wb") as f:
    f.write(DATA)


async def echo(request: web.Request) -> web.StreamResponse:
    resp = web.StreamResponse()
    await resp.prepare(request)  # response head goes out first ...
    async for chunk in request.content.iter_any():  # ... then the body is echoed
        await resp.write(chunk)
    return resp


async def attempt(port: int, name: str, data) -> str:
    t = time.time()
    async with aiohttp.ClientSession(timeout=aiohttp.ClientTimeout(total=6)) as s:
        try:
            async with s.post(f"http://127.0.0.1:{port}/", data=data) as r:
                print(
                    f"  {name}: response head after {time.time() - t:.2f}s, status {r.status}, "
                    f"bytes uploaded so far {r.output_size if hasattr(r, 'output_size') else '?'}"
                )
                await asyncio.sleep(0.2)
                print(f"  {name}: 0.2s later: upload object closed={data.closed}, upload task={'running' if r._writer is not None else 'gone'}")
                body = await r.read()
        except BaseException as e:  # noqa: BLE001
            return f"FAILED after {time.time() - t:.1f}s with {e!r}"
    if body != DATA:
        return f"WRONG BODY: {len(body)} bytes of {len(DATA)}"
    return "ok"


async def main() -> int:
    app = web.Application(client_max_size=10**9)
    app.router.add_post("/", echo)
    runner = web.AppRunner(app)
    await runner.setup()
    site = web.TCPSite(runner, "127.0.0.1", 0)
    await site.start()
    port = site._server.sockets[0].getsockname()[1]

    control = await attempt(port, "BytesIO", io.BytesIO(DATA))
    print("io.BytesIO upload :", control)
    result = await attempt(port, "file", open(FP, "rb"))
    print("open(file) upload :", result)
    await runner.cleanup()
    if control != "ok":
        print("control failed, environment problem")
        return 2
    if result != "ok":
        print(
            "VIOLATION: the same bytes sent as an open file do not reach the echo handler: "
            "aiohttp closed the file while its own writer task was still uploading it"
        )
        return 1
    return 0


sys.exit(asyncio.run(main()))
