"""(minor) FileResponse answers 500 for a path with an embedded NUL; every other unusable path is 404/403.

FileResponse.prepare() maps what the file system says about a bad path to a status: FileNotFoundError,
ENAMETOOLONG, ELOOP ... -> 404, PermissionError -> 403, non-regular file -> 403.  A path that contains
"\0" does not reach the file system: Path.stat()/lstat() raise ValueError("embedded null byte"), which is
neither caught by `except OSError` in prepare() nor by `suppress(OSError)` around the .gz/.br probe.
The static route catches exactly this ValueError itself (-> 404), the plain and very common

    web.FileResponse(DIR / request.match_info["name"])

does not:  GET /dl/a%00.txt -> 500 Internal Server Error plus a traceback in the log per request, while
GET /dl/<300 x a> (ENAMETOOLONG) and GET /dl/nope are 404.
"""
import asyncio
import os
import pathlib
import sys
import tempfile

sys.path.insert(0, os.path.dirname(__file__))
from common import raw, req, split, start, web  # noqa: E402  (prints aiohttp.__file__)


async def main() -> int:
    d = pathlib.Path(tempfile.mkdtemp())
    (d / "a.txt").write_bytes(b"hello")

    async def download(request: web.Request) -> web.StreamResponse:
        return web.FileResponse(d / request.match_info["name"])

    app = web.Application()
    app.router.add_get("/dl/{name}", download)
    app.router.add_static("/static", d)
    runner, port = await start(app)
    bad = []
    for target in ("/dl/a.txt", "/dl/nope", "/dl/" + "a" * 300, "/static/a%00.txt", "/dl/a%00.txt"):
        for hs in ([], [("Accept-Encoding", "gzip")]):
            status, _, body = split(await raw(port, req(target, hs)))
            print(f"{target[:30]:32s} {str(hs):34s} -> {status}")
            if status >= 500:
                bad.append((target, status))
    await runner.cleanup()
    if bad:
        print("FAIL: FileResponse answered 5xx:", bad)
        return 1
    print("ok")
    return 0


sys.exit(asyncio.run(main()))
