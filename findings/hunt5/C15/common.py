import asyncio
import os
import sys
import tempfile

import aiohttp
from aiohttp import web

print("aiohttp from", aiohttp.__file__)


async def start(app):
    runner = web.AppRunner(app)
    await runner.setup()
    site = web.TCPSite(runner, "127.0.0.1", 0)
    await site.start()
    port = site._server.sockets[0].getsockname()[1]
    return runner, port


async def raw(port, data, timeout=3.0, half_close=False):
    """Send raw bytes, read until close/timeout. Returns bytes."""
    r, w = await asyncio.open_connection("127.0.0.1", port)
    w.write(data)
    await w.drain()
    out = b""
    try:
        while True:
            chunk = await asyncio.wait_for(r.read(65536), timeout)
            if not chunk:
                break
            out += chunk
    except asyncio.TimeoutError:
        out += b"<<TIMEOUT>>"
    w.close()
    return out


def req(path, headers=(), method="GET", version="1.1", close=True):
    lines = [f"{method} {path} HTTP/{version}", "Host: x"]
    if close:
        lines.append("Connection: close")
    for k, v in headers:
        lines.append(f"{k}: {v}")
    return ("\r\n".join(lines) + "\r\n\r\n").encode("latin-1")


def split(resp):
    head, _, body = resp.partition(b"\r\n\r\n")
    lines = head.split(b"\r\n")
    status = int(lines[0].split()[1])
    hdrs = {}
    for l in lines[1:]:
        k, _, v = l.partition(b":")
        hdrs[k.decode().lower()] = v.strip().decode("latin-1")
    return status, hdrs, body


def dechunk(body):
    out = b""
    while True:
        line, _, body = body.partition(b"\r\n")
        n = int(line.split(b";")[0], 16)
        if n == 0:
            assert body[:2] == b"\r\n", body
            return out, body[2:]
        out += body[:n]
        body = body[n + 2 :]
