"""A Range header listing several ranges, one of them with more digits than int() accepts, is answered 500.

The range-set branch added to FileResponse (multi-range is "not processed", RFC 9110 14.2) converts every
position with a bare int().  CPython refuses to convert more than 4300 digits (ValueError), and that
ValueError is raised outside the try/except that guards request.http_range, so it leaves prepare():
    GET /static/f.txt   Range: bytes=<5000 digits>-,0-0   ->  500 Internal Server Error (+ traceback logged)
The header is well inside the 8190 byte field limit.  The neighbours behave:
    Range: bytes=<5000 digits>-          -> 416, Content-Range: bytes */10   (single range)
    Range: bytes=0-0,<5000 digits>-      -> 200, whole file                  (same set, other order)
so the verdict for one and the same range-set depends on the order of its members, and an
unauthenticated client can make a static route raise.
"""
import asyncio
import os
import sys
import tempfile

sys.path.insert(0, os.path.dirname(__file__))
from common import raw, req, split, start, web  # noqa: E402  (prints aiohttp.__file__)


async def main() -> int:
    d = tempfile.mkdtemp()
    with open(os.path.join(d, "f.txt"), "wb") as f:
        f.write(b"0123456789")
    app = web.Application()
    app.router.add_static("/static", d)
    runner, port = await start(app)
    big = "9" * 5000
    results = {}
    for label, rng in (
        ("single", f"bytes={big}-"),
        ("set, satisfiable member first", f"bytes=0-0,{big}-"),
        ("set, huge member first", f"bytes={big}-,0-0"),
        ("set, huge last-pos", f"bytes=1-{big},0-0"),
    ):
        resp = await raw(port, req("/static/f.txt", [("Range", rng)]))
        status, hdrs, body = split(resp)
        results[label] = status
        print(f"{label:32s} Range: {rng[:14]}...{rng[-6:]:8s} -> {status} {hdrs.get('content-range', '')}")
    await runner.cleanup()
    failed = [k for k, v in results.items() if v >= 500]
    if failed:
        print("FAIL: static file request answered 5xx for:", failed)
        return 1
    print("ok")
    return 0


sys.exit(asyncio.run(main()))
