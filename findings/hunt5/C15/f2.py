"""FileResponse(path, status=404) - an error page served from a file - is turned into 206 / 304 by request headers.

FileResponse takes a `status` argument (documented) so that a file can be the body of a non-200 answer,
typically a custom "not found" page.  prepare() nevertheless runs the whole conditional / range machinery
and *overwrites* the status the handler chose:

    Range: bytes=0-            (what every media player and download manager sends)  ->  206 Partial Content
    If-Modified-Since: <date>  (what a browser revalidating its cached copy sends)   ->  304 Not Modified
    If-None-Match: *                                                                 ->  304 Not Modified

RFC 9110 13.2.1: preconditions MUST be ignored when the response without them would not be 2xx/412;
14.2: Range is evaluated only if the result without it would be 200.
Effect: a resource that has been removed keeps being "successfully" revalidated (the browser goes on
showing its stale copy: the 304 says the cached 200 is still good), and a resumed / ranged download of a
missing file gets 206 with bytes of the error page instead of the 404.
"""
import asyncio
import os
import sys
import tempfile
import time

sys.path.insert(0, os.path.dirname(__file__))
from common import raw, req, split, start, web  # noqa: E402  (prints aiohttp.__file__)


async def main() -> int:
    d = tempfile.mkdtemp()
    page = os.path.join(d, "404.html")
    with open(page, "wb") as f:
        f.write(b"<h1>no such video</h1>")
    old = time.time() - 86400
    os.utime(page, (old, old))

    async def missing(request: web.Request) -> web.StreamResponse:
        return web.FileResponse(page, status=404)

    app = web.Application()
    app.router.add_get("/videos/{name}", missing)
    runner, port = await start(app)
    now = time.strftime("%a, %d %b %Y %H:%M:%S GMT", time.gmtime())
    bad = []
    for hs in (
        [],
        [("Range", "bytes=0-")],
        [("Range", "bytes=4-9")],
        [("If-Modified-Since", now)],
        [("If-None-Match", "*")],
        [("If-Match", '"abc"')],
    ):
        resp = await raw(port, req("/videos/gone.mp4", hs))
        status, hdrs, body = split(resp)
        print(f"{str(hs):60s} -> {status} {hdrs.get('content-range', '')} {body[:30]!r}")
        if status != 404:
            bad.append((hs, status))
    await runner.cleanup()
    if bad:
        print("FAIL: handler answered FileResponse(status=404) but the client received:", bad)
        return 1
    print("ok")
    return 0


sys.exit(asyncio.run(main()))
