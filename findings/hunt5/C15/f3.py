"""FileResponse + enable_compression(): the gzip-coded 200 carries the identity file's strong ETag and
Accept-Ranges: bytes; resuming it with Range + If-Range gets 206 with bytes of the *identity* file.

    1. GET /f  Accept-Encoding: gzip
         -> 200, Content-Encoding: gzip, ETag: "X", Accept-Ranges: bytes      (body: gzip stream, N bytes arrive)
    2. GET /f  Accept-Encoding: gzip, Range: bytes=N-, If-Range: "X"          (resume what was interrupted)
         -> 206, Content-Range: bytes N-.../<identity size>, no Content-Encoding, body = identity[N:]

The validator the server handed out for the gzip representation is accepted by If-Range for a different
representation (RFC 9110 8.8.3.3: content-codings of the same resource need distinct strong validators;
13.1.5: If-Range exists precisely to prevent this splice).  The client that followed the protocol ends up with
<N bytes of gzip stream> + <identity bytes from offset N>: a corrupt file, without any error signalled.
(The repair for "Range applied while compressing on the fly" made the 206 identity; the 200 still
advertises ranges and the shared strong ETag.)
"""
import asyncio
import gzip
import os
import sys
import tempfile
import zlib

sys.path.insert(0, os.path.dirname(__file__))
from common import dechunk, raw, req, split, start, web  # noqa: E402  (prints aiohttp.__file__)


async def main() -> int:
    d = tempfile.mkdtemp()
    path = os.path.join(d, "data.csv")
    content = b"".join(b"%06d,some,row,of,data\n" % i for i in range(5000))
    with open(path, "wb") as f:
        f.write(content)

    async def handler(request: web.Request) -> web.StreamResponse:
        resp = web.FileResponse(path)
        resp.enable_compression()
        return resp

    app = web.Application()
    app.router.add_get("/f", handler)
    runner, port = await start(app)

    # 1. the download that gets interrupted
    resp = await raw(port, req("/f", [("Accept-Encoding", "gzip")]))
    status, hdrs, body = split(resp)
    coded, _ = dechunk(body) if hdrs.get("transfer-encoding") == "chunked" else (body, b"")
    print("first :", status, {k: hdrs.get(k) for k in ("content-encoding", "etag", "accept-ranges")}, len(coded), "coded bytes")
    assert status == 200 and hdrs.get("content-encoding") == "gzip"
    assert zlib.decompress(coded, 16 + zlib.MAX_WBITS) == content
    etag = hdrs["etag"]
    n = len(coded) // 2
    have = coded[:n]

    # 2. the resume, exactly as RFC 9110 13.1.5 describes it
    resp = await raw(port, req("/f", [("Accept-Encoding", "gzip"), ("Range", f"bytes={n}-"), ("If-Range", etag)]))
    status2, hdrs2, body2 = split(resp)
    if hdrs2.get("transfer-encoding") == "chunked":
        body2, _ = dechunk(body2)
    print("resume:", status2, {k: hdrs2.get(k) for k in ("content-encoding", "etag", "content-range")}, len(body2), "bytes")
    await runner.cleanup()

    if status2 == 200:
        print("ok: validator did not match, full representation sent")
        return 0
    spliced = have + body2
    try:
        good = zlib.decompress(spliced, 16 + zlib.MAX_WBITS) == content
    except zlib.error as exc:
        good = False
        print("spliced download does not decode:", exc)
    if hdrs.get("accept-ranges") == "bytes" and status2 == 206 and not good:
        print(
            f"FAIL: 200 (gzip, ETag {etag}, Accept-Ranges: bytes) resumed with If-Range {etag} -> 206 "
            f"{hdrs2.get('content-range')} carrying identity bytes; the client now holds {n} gzip bytes + "
            f"{len(body2)} identity bytes"
        )
        return 1
    print("ok")
    return 0


sys.exit(asyncio.run(main()))
