"""C01 / incomplete repair of F93+F167: a malformed Host value passes the request parser.

The parser checks Host with `_HOST_RE` (anything between brackets is taken for an
IP-literal) and `URL.build(authority=host)` - but yarl splits the authority
lazily, so the call never raises.  `Host: [a:b]` is accepted, dispatched, and
`request.url` raises ValueError in the handler: 500 instead of 400.  The same
authority in an absolute-form request-target is answered 400 (there the parser
forces `url.host`).
"""
import asyncio
import logging
import re
import sys

import aiohttp
from aiohttp import web

print(aiohttp.__file__)
logging.getLogger("aiohttp").setLevel(logging.CRITICAL)

dispatched = []


async def handler(request: web.Request) -> web.Response:
    dispatched.append(request.headers.get("Host"))
    # What applications do all the time: absolute links, redirects, logging.
    return web.Response(text=f"url={request.url} host={request.url.host}")


async def send(port: int, data: bytes) -> tuple[bytes, bytes]:
    r, w = await asyncio.open_connection("127.0.0.1", port)
    w.write(data)
    await w.drain()
    out = await asyncio.wait_for(r.read(-1), 5)
    w.close()
    m = re.match(rb"HTTP/1\.[01] (\d{3})", out)
    return (m.group(1) if m else b"none"), out.split(b"\r\n\r\n", 1)[-1][:80]


async def main() -> int:
    app = web.Application()
    app.router.add_route("*", "/{tail:.*}", handler)
    runner = web.AppRunner(app)
    await runner.setup()
    site = web.TCPSite(runner, "127.0.0.1", 0)
    await site.start()
    port = site._server.sockets[0].getsockname()[1]

    failures = 0
    cases = [
        # (description, request bytes, statuses a strict reader allows)
        ("Host: [a:b]      (not an IP-literal)", b"GET /x HTTP/1.1\r\nHost: [a:b]\r\nConnection: close\r\n\r\n"),
        ("Host: [%0:-1]:80 (not an IP-literal)", b"GET /x HTTP/1.1\r\nHost: [%0:-1]:80\r\nConnection: close\r\n\r\n"),
        ("Host: [evil.com] (not an IP-literal)", b"GET /x HTTP/1.1\r\nHost: [evil.com]\r\nConnection: close\r\n\r\n"),
        ("Host: xn--a      (yarl cannot decode it)", b"GET /x HTTP/1.1\r\nHost: xn--a\r\nConnection: close\r\n\r\n"),
    ]
    for desc, data in cases:
        dispatched.clear()
        status, body = await send(port, data)
        ok = status == b"400"
        print(f"{desc}: status {status.decode()} dispatched={dispatched} body={body!r} {'ok' if ok else 'WRONG (want 400)'}")
        failures += not ok

    # sibling path: the same authority in the request-target is a client error
    for tgt in (b"http://[evil.com]/x", b"http://xn--a/x"):
        status, body = await send(port, b"GET " + tgt + b" HTTP/1.1\r\nHost: h\r\nConnection: close\r\n\r\n")
        print(f"sibling: request-target {tgt.decode()}: status {status.decode()}")

    await runner.cleanup()
    if failures:
        print(f"FAIL: {failures} malformed Host values were accepted and dispatched "
              "(500 from request.url, or request.url naming another authority) instead of 400")
        return 1
    print("OK")
    return 0


sys.exit(asyncio.run(main()))
