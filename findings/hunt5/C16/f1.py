"""C16 / f1: a Set-Cookie on a response that a client middleware consumes never reaches
the cookie jar.

ClientSession._request() feeds the jar only from the response the middleware chain
*returns*.  DigestAuthMiddleware (shipped with aiohttp) swallows the 401 challenge and
retries: the cookies of the 401 (servers commonly open the session on the challenge)
are neither attached to the retry nor stored for any later request of the session.
A reference user agent stores the cookies of every response it receives.
"""
import asyncio
import sys

import aiohttp
from aiohttp import DigestAuthMiddleware, web

print(aiohttp.__file__)


async def main() -> int:
    seen = []

    async def protected(request: web.Request) -> web.Response:
        seen.append(
            (
                request.path,
                "auth" if "Authorization" in request.headers else "anon",
                request.headers.get("Cookie"),
            )
        )
        if "Authorization" not in request.headers:
            resp = web.Response(status=401, text="auth required")
            resp.headers["WWW-Authenticate"] = (
                'Digest realm="r", nonce="abc123", qop="auth", algorithm=MD5'
            )
            # the session is opened together with the challenge
            resp.set_cookie("JSESSIONID", "sess-1", path="/")
            return resp
        return web.Response(text="welcome")

    async def other(request: web.Request) -> web.Response:
        seen.append((request.path, "-", request.headers.get("Cookie")))
        return web.Response(text="ok")

    app = web.Application()
    app.router.add_get("/protected", protected)
    app.router.add_get("/other", other)
    runner = web.AppRunner(app)
    await runner.setup()
    site = web.TCPSite(runner, "127.0.0.1", 0)
    await site.start()
    port = site._server.sockets[0].getsockname()[1]
    base = f"http://localhost:{port}"

    jar = aiohttp.CookieJar()
    async with aiohttp.ClientSession(
        cookie_jar=jar, middlewares=(DigestAuthMiddleware("user", "pass"),)
    ) as session:
        async with session.get(f"{base}/protected") as r:
            status = r.status
        async with session.get(f"{base}/other") as r:
            pass
        in_jar = sorted(m.key for m in jar)
    await runner.cleanup()

    for row in seen:
        print("server saw:", row)
    print("final status:", status, "cookies in jar:", in_jar)

    bad = []
    if "JSESSIONID" not in in_jar:
        bad.append("Set-Cookie of the 401 challenge was never stored in the jar")
    retry = [s for s in seen if s[0] == "/protected" and s[1] == "auth"]
    if retry and (retry[0][2] is None or "JSESSIONID=sess-1" not in retry[0][2]):
        bad.append(f"authenticated retry carried Cookie: {retry[0][2]!r}")
    later = [s for s in seen if s[0] == "/other"]
    if later and (later[0][2] is None or "JSESSIONID=sess-1" not in later[0][2]):
        bad.append(f"later request of the session carried Cookie: {later[0][2]!r}")

    # control: the same exchange without the middleware stores the cookie
    jar2 = aiohttp.CookieJar()
    runner2 = web.AppRunner(app2 := web.Application())
    app2.router.add_get("/protected", protected)
    await runner2.setup()
    site2 = web.TCPSite(runner2, "127.0.0.1", 0)
    await site2.start()
    port2 = site2._server.sockets[0].getsockname()[1]
    async with aiohttp.ClientSession(cookie_jar=jar2) as session:
        async with session.get(f"http://localhost:{port2}/protected") as r:
            pass
    await runner2.cleanup()
    print("control without middleware, cookies in jar:", sorted(m.key for m in jar2))

    if bad:
        print("VIOLATION:")
        for b in bad:
            print(" -", b)
        return 1
    print("ok")
    return 0


sys.exit(asyncio.run(main()))
