"""C16 / f4: CookieJar.clear_domain() compares its argument case-sensitively (and
does not accept the leading-dot spelling), although every other entry point of the
jar (Domain attribute, response host, request host) was made case-insensitive.

clear_domain("Example.com") silently clears nothing: the cookies the caller wanted
to drop (logout, account switch) are still attached to the next request.
"""
import sys

import aiohttp
from aiohttp import CookieJar
from yarl import URL

print(aiohttp.__file__)

bad = []
for spelling in ("example.com", "Example.com", "EXAMPLE.COM", ".example.com"):
    jar = CookieJar()
    # the jar itself accepts any case here and stores "example.com"
    jar.update_cookies_from_headers(
        ["sid=1; Domain=EXAMPLE.com; Path=/", "host=2"], URL("https://Example.COM/")
    )
    jar.update_cookies_from_headers(["sub=3"], URL("https://www.example.com/"))
    before = sorted(jar.filter_cookies(URL("https://www.example.com/")))
    jar.clear_domain(spelling)
    after = sorted(
        set(jar.filter_cookies(URL("https://www.example.com/")))
        | set(jar.filter_cookies(URL("https://example.com/")))
    )
    print(f"clear_domain({spelling!r}): before={before} still sent afterwards={after}")
    if after:
        bad.append(f"clear_domain({spelling!r}) left {after} in the jar")

if bad:
    print("VIOLATION:")
    for b in bad:
        print(" -", b)
    sys.exit(1)
print("ok")
