"""C16 / f3: cookies whose Path differs only by trailing slashes share one slot in the jar.

RFC 6265 5.3 step 11: a new cookie replaces a stored one only when name, domain AND
path are all equal.  "Path=/app" and "Path=/app/" are two different cookies.
CookieJar keys its store (and the expiry / host-only side tables) by path.rstrip("/"),
so a Set-Cookie for /app/ overwrites - or, with Max-Age=0, deletes - the cookie of /app.
"""
import sys

import aiohttp
from aiohttp import CookieJar
from yarl import URL

print(aiohttp.__file__)

LOGIN = URL("https://shop.example/app/login")
bad = []


def sent(jar, url):
    return {k: m.value for k, m in jar.filter_cookies(URL(url)).items()}


# 1. a second cookie with Path=/app/ replaces the cookie with Path=/app
jar = CookieJar()
jar.update_cookies_from_headers(["sid=A; Path=/app"], LOGIN)
assert sent(jar, "https://shop.example/app") == {"sid": "A"}
jar.update_cookies_from_headers(["sid=B; Path=/app/"], LOGIN)
got = sent(jar, "https://shop.example/app")
# reference store: /app path-matches only the first cookie -> sid=A
if got != {"sid": "A"}:
    bad.append(
        f"after 'sid=A; Path=/app' and 'sid=B; Path=/app/' a request to /app "
        f"carries {got!r}, expected {{'sid': 'A'}} (the /app cookie was replaced)"
    )

# 2. deleting the (non-existent) /app/ cookie deletes the /app cookie
jar = CookieJar()
jar.update_cookies_from_headers(["sid=A; Path=/app"], LOGIN)
jar.update_cookies_from_headers(["sid=; Path=/app/; Max-Age=0"], LOGIN)
got = sent(jar, "https://shop.example/app/cart")
if got != {"sid": "A"}:
    bad.append(
        f"'sid=; Path=/app/; Max-Age=0' removed the cookie set with Path=/app: "
        f"request to /app/cart carries {got!r}, expected {{'sid': 'A'}}"
    )

# 3. the side tables are shared as well: the /app/ cookie inherits nothing, but it
#    takes the slot, so the expiry of one is the expiry of the other
jar = CookieJar()
jar.update_cookies_from_headers(["pref=long; Path=/app; Max-Age=3600"], LOGIN)
jar.update_cookies_from_headers(["pref=short; Path=/app//"], LOGIN)
got = sent(jar, "https://shop.example/app/x")
if got != {"pref": "long"}:
    bad.append(
        f"'pref=short; Path=/app//' (matches only /app//...) displaced "
        f"'pref=long; Path=/app': request to /app/x carries {got!r}"
    )

print("stored keys:", list(jar.cookies.keys()))
if bad:
    print("VIOLATION:")
    for b in bad:
        print(" -", b)
    sys.exit(1)
print("ok")
