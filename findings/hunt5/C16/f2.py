"""C16 / f2: cookies stored without a response URL (ClientSession(cookies=...),
session.get(..., cookies=...), jar.update_cookies(resp.cookies)) bypass the
Secure and Path checks of filter_cookies().

filter_cookies() serves such "shared" cookies from the single slot ("", "") in a
loop that looks at neither cookie["secure"] nor cookie["path"]:
  * a Secure cookie is written into a plain-http request (clear text on the wire);
  * a cookie with Path=/api is stored under ("", "/api"), a slot no query ever
    enumerates - it is never sent to anybody, not even to /api.
The same Morsels with a Domain attribute are filtered correctly.
"""
import asyncio
import sys
from http.cookies import SimpleCookie

import aiohttp
from aiohttp import web

print(aiohttp.__file__)


async def main() -> int:
    seen = []

    async def handler(request: web.Request) -> web.Response:
        seen.append((request.path, request.headers.get("Cookie")))
        return web.Response(text="ok")

    app = web.Application()
    app.router.add_get("/{tail:.*}", handler)
    runner = web.AppRunner(app)
    await runner.setup()
    site = web.TCPSite(runner, "127.0.0.1", 0)
    await site.start()
    port = site._server.sockets[0].getsockname()[1]
    base = f"http://127.0.0.1:{port}"

    bad = []
    # what a login over https handed out (resp.cookies of another session, say)
    login_cookies = SimpleCookie()
    login_cookies.load("token=s3cret; Secure; HttpOnly; Path=/")
    login_cookies.load("api_key=k; Path=/api")

    # session level
    async with aiohttp.ClientSession(cookies=login_cookies) as session:
        await session.get(f"{base}/public")
        await session.get(f"{base}/api/items")
    # request level
    async with aiohttp.ClientSession() as session:
        await session.get(f"{base}/public2", cookies=login_cookies)
        await session.get(f"{base}/api/items2", cookies=login_cookies)
    await runner.cleanup()

    for path, cookie in seen:
        print(f"plain http GET {path}: Cookie: {cookie}")
        if cookie and "token=" in cookie:
            bad.append(f"Secure cookie 'token' sent in clear text with GET {path}")
        if path.startswith("/api/") and (not cookie or "api_key=" not in cookie):
            bad.append(f"cookie 'api_key; Path=/api' not sent with GET {path}")

    # control: the same Morsels with a Domain are scoped correctly
    jar = aiohttp.CookieJar(unsafe=True)
    ctl = SimpleCookie()
    ctl.load("token=s3cret; Secure; Path=/; Domain=example.com")
    ctl.load("api_key=k; Path=/api; Domain=example.com")
    jar.update_cookies(ctl)
    from yarl import URL

    c1 = sorted(jar.filter_cookies(URL("http://example.com/api/x")))
    c2 = sorted(jar.filter_cookies(URL("https://example.com/public")))
    print("control (with Domain): http /api/x ->", c1, "; https /public ->", c2)
    assert c1 == ["api_key"] and c2 == ["token"]

    if bad:
        print("VIOLATION:")
        for b in bad:
            print(" -", b)
        return 1
    print("ok")
    return 0


sys.exit(asyncio.run(main()))
