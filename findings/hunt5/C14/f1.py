"""Mounting one sub-application a second time silently re-prefixes the routes
of the first mount: neither mount point is served any more.

    root.add_subapp("/v1", api)
    root.add_subapp("/v2", api)      # accepted: only `subapp.frozen` is checked,
                                     # but add_subapp() leaves the sub-app pre-frozen

PrefixedSubAppResource.__init__ rewrites the (shared, already frozen) resources
of `api` in place, so they become /v2/v1/...; GET /v1/items and GET /v2/items
are answered 404, url_for() gives /v2/v1/items.  The same happens for
add_domain(..., site) followed by add_subapp("/site", site): the domain mount
stops serving its paths.

Real server, real client; exits 1 if the property (handler for the documented
lookup rule: path starts with the prefix -> resolved by the sub-app) is broken.
"""
import asyncio
import sys

import aiohttp
from aiohttp import web

print(aiohttp.__file__)


async def items(request: web.Request) -> web.Response:
    return web.Response(text="items")


async def fetch(port: int, path: str, host: str = "localhost") -> int:
    r, w = await asyncio.open_connection("127.0.0.1", port)
    w.write(f"GET {path} HTTP/1.1\r\nHost: {host}\r\nConnection: close\r\n\r\n".encode())
    data = await asyncio.wait_for(r.read(), 5)
    w.close()
    return int(data.split(b" ", 2)[1])


async def serve(app: web.Application):
    runner = web.AppRunner(app)
    await runner.setup()
    site = web.TCPSite(runner, "127.0.0.1", 0)
    await site.start()
    return runner, site._server.sockets[0].getsockname()[1]


async def main() -> int:
    failures = []

    # --- reference: one mount works
    api = web.Application()
    api.router.add_get("/items", items, name="items")
    root = web.Application()
    root.add_subapp("/v1", api)
    runner, port = await serve(root)
    ref = await fetch(port, "/v1/items")
    await runner.cleanup()
    print("single mount:  GET /v1/items ->", ref)
    assert ref == 200

    # --- the same sub-app under two prefixes
    api = web.Application()
    api.router.add_get("/items", items, name="items")
    root = web.Application()
    root.add_subapp("/v1", api)
    try:
        root.add_subapp("/v2", api)
    except RuntimeError as exc:  # a refusal would be fine
        print("second mount refused:", exc)
    else:
        print("second mount accepted; url_for ->", api.router["items"].url_for())
        runner, port = await serve(root)
        got = {p: await fetch(port, p) for p in ("/v1/items", "/v2/items", "/v2/v1/items")}
        await runner.cleanup()
        print("double mount: ", got)
        if got["/v1/items"] != 200:
            failures.append(
                "GET /v1/items is %d after the sub-app was also mounted at /v2 "
                "(was 200 before; first mount silently destroyed)" % got["/v1/items"]
            )
        if got["/v2/items"] != 200:
            failures.append("GET /v2/items is %d although add_subapp('/v2', api) succeeded" % got["/v2/items"])
        if got["/v2/v1/items"] == 200:
            failures.append("GET /v2/v1/items is served: the prefixes were stacked")

    # --- domain mount followed by a prefix mount of the same application
    site_app = web.Application()
    site_app.router.add_get("/items", items)
    root = web.Application()
    root.add_domain("example.com", site_app)
    try:
        root.add_subapp("/site", site_app)
    except RuntimeError as exc:
        print("second mount refused:", exc)
    else:
        runner, port = await serve(root)
        by_domain = await fetch(port, "/items", host="example.com")
        by_prefix = await fetch(port, "/site/items", host="other.test")
        await runner.cleanup()
        print("domain + prefix mount: example.com/items ->", by_domain, " /site/items ->", by_prefix)
        if by_domain != 200:
            failures.append(
                "Host example.com GET /items is %d after the same app was mounted at /site" % by_domain
            )

    for f in failures:
        print("FAIL:", f)
    return 1 if failures else 0


sys.exit(asyncio.run(main()))
