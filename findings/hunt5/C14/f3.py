"""A route with the empty path ('' = the mount point itself) of a domain
sub-application that is nested below a prefix is moved to '<prefix>/'.

For a prefixed sub-app the documented/implemented meaning of '' is the mount
point without a trailing slash (PlainResource.add_prefix: '/pre' + '' = '/pre',
'/' gives '/pre/').  A domain sub-app is pre-frozen by add_domain() *before* the
enclosing application is mounted, PlainResource.freeze() has by then rewritten
'' to '/', and the prefix added later (the repair for nesting domain apps,
PrefixedSubAppResource._add_prefix_to_resources -> MatchedSubAppResource.add_prefix)
yields '/pre/'.  GET /pre (Host: example.com) is 404, url_for() gives /pre/.

Exits 1 if the two sibling kinds of sub-application disagree.
"""
import asyncio
import sys

import aiohttp
from aiohttp import web

print(aiohttp.__file__)


async def index(request: web.Request) -> web.Response:
    return web.Response(text="index")


async def status(port: int, path: str, host: str) -> int:
    r, w = await asyncio.open_connection("127.0.0.1", port)
    w.write(f"GET {path} HTTP/1.1\r\nHost: {host}\r\nConnection: close\r\n\r\n".encode())
    data = await asyncio.wait_for(r.read(), 5)
    w.close()
    return int(data.split(b" ", 2)[1])


async def run(app: web.Application, host: str) -> dict[str, int]:
    runner = web.AppRunner(app)
    await runner.setup()
    site = web.TCPSite(runner, "127.0.0.1", 0)
    await site.start()
    port = site._server.sockets[0].getsockname()[1]
    out = {p: await status(port, p, host) for p in ("/pre", "/pre/")}
    await runner.cleanup()
    return out


async def main() -> int:
    # prefixed sub-app with the '' route
    root = web.Application()
    sub = web.Application()
    sub.router.add_get("", index, name="index")
    root.add_subapp("/pre", sub)
    a_url = str(sub.router["index"].url_for())
    a = await run(root, "example.com")
    print("prefixed sub-app:            url_for=%s  %s" % (a_url, a))

    # the same routes in a domain sub-app that lives below the same prefix
    root = web.Application()
    mid = web.Application()
    dom = web.Application()
    dom.router.add_get("", index, name="index")
    mid.add_domain("example.com", dom)
    root.add_subapp("/pre", mid)
    b_url = str(dom.router["index"].url_for())
    b = await run(root, "example.com")
    print("domain sub-app below /pre:   url_for=%s  %s" % (b_url, b))

    if (a_url, a) != (b_url, b):
        print("FAIL: '' route resolves at %s in one kind of sub-app and at %s in the other" % (a_url, b_url))
        return 1
    return 0


sys.exit(asyncio.run(main()))
