"""The duplicate-method guard of Resource.add_route() is case-sensitive although
the method parameter is documented as case-insensitive ("you can push 'get' as
well as 'GET'", "The method should be unique for resource").

    router.add_route("GET", "/x", first)
    router.add_route("get", "/x", second)   # no RuntimeError

add_route() looks the *un-normalised* spelling up in self._routes (keys are
upper-cased by AbstractRoute), finds nothing, and register_route() then
overwrites the entry of the first route: the handler registered FIRST is
silently dropped and GET /x is served by the one registered LAST - the opposite
of the documented rule (registration order; a duplicate is refused with
"Added route will never be executed").  The upper-case spelling is refused.

Exits 1 when the lower-case duplicate is accepted and changes the handler that
serves GET /x.
"""
import asyncio
import sys

import aiohttp
from aiohttp import web

print(aiohttp.__file__)


async def first(request: web.Request) -> web.Response:
    return web.Response(text="first")


async def second(request: web.Request) -> web.Response:
    return web.Response(text="second")


async def get(port: int, path: str) -> bytes:
    r, w = await asyncio.open_connection("127.0.0.1", port)
    w.write(f"GET {path} HTTP/1.1\r\nHost: x\r\nConnection: close\r\n\r\n".encode())
    data = await asyncio.wait_for(r.read(), 5)
    w.close()
    return data.rpartition(b"\r\n\r\n")[2]


async def main() -> int:
    # reference: the canonical spelling is refused
    app = web.Application()
    app.router.add_route("GET", "/x", first)
    try:
        app.router.add_route("GET", "/x", second)
    except RuntimeError as exc:
        print("GET + GET  ->", type(exc).__name__, exc)
    else:
        print("GET + GET accepted?!")
        return 1

    app = web.Application()
    app.router.add_route("GET", "/x", first)
    try:
        app.router.add_route("get", "/x", second)
    except RuntimeError as exc:
        print("GET + get  ->", type(exc).__name__, exc)
        return 0
    res = list(app.router.resources())
    print("GET + get  -> accepted; resources:", res, "routes:", list(app.router.routes()))

    runner = web.AppRunner(app)
    await runner.setup()
    site = web.TCPSite(runner, "127.0.0.1", 0)
    await site.start()
    port = site._server.sockets[0].getsockname()[1]
    body = await get(port, "/x")
    await runner.cleanup()
    print("GET /x served by:", body)
    if body != b"first":
        print(
            "FAIL: the duplicate registration spelled 'get' was not refused and "
            "replaced the handler registered first (GET /x -> %r)" % body
        )
        return 1
    return 0


sys.exit(asyncio.run(main()))
