"""C13 / incomplete repair of F260.

Client: task B calls ws.close(code=4001, message=b"bye") while the main task
iterates the socket (`async for msg in ws`) inside `async with session.ws_connect()`.
close() wakes the parked receive() *before* it marks the session closed.  The woken
task leaves the loop and the context manager calls ws.close() (defaults) without
yielding: it finds _closed False, takes the close over and sends Close(1000, b"").
B's close() then returns False although no handshake had happened when it was
called, and its code/message never reach the wire.

The repair of F260 only covered the woken task calling receive() again; the far
more common `async for` + `async with` (or an explicit ws.close() after the loop)
still takes the close over.
"""
import asyncio
import sys

import aiohttp
from aiohttp import web

print(aiohttp.__file__)


async def main() -> int:
    seen = {}
    done = asyncio.Event()

    async def handler(request: web.Request) -> web.WebSocketResponse:
        ws = web.WebSocketResponse()
        await ws.prepare(request)
        async for msg in ws:
            pass
        seen["code"] = ws.close_code
        done.set()
        return ws

    app = web.Application()
    app.router.add_get("/", handler)
    runner = web.AppRunner(app)
    await runner.setup()
    site = web.TCPSite(runner, "127.0.0.1", 0)
    await site.start()
    port = site._server.sockets[0].getsockname()[1]

    res = {}
    async with aiohttp.ClientSession() as session:

        async def closer(ws: aiohttp.ClientWebSocketResponse) -> None:
            await asyncio.sleep(0.2)
            res["returned"] = await ws.close(code=4001, message=b"bye")
            res["close_code_when_returned"] = ws.close_code

        async with session.ws_connect(f"http://127.0.0.1:{port}/") as ws:
            task = asyncio.create_task(closer(ws))
            async for msg in ws:
                pass
        await task
        await asyncio.wait_for(done.wait(), 5)
    await runner.cleanup()

    print("caller: close(code=4001, message=b'bye') returned", res["returned"],
          "- close_code at that moment:", res["close_code_when_returned"])
    print("server saw close code:", seen["code"])
    if seen["code"] != 4001 or res["returned"] is not True:
        print("FAIL: the close code/message of the caller were replaced by 1000/b'' "
              "(close taken over by the woken task's own close())")
        return 1
    print("OK")
    return 0


sys.exit(asyncio.run(main()))
