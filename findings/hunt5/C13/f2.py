"""C13: a pong timer firing during the peer's close handshake -> 1006 on both sides.

Server: ws.close() (close timeout 10 s).  Client: ws_connect(heartbeat=1.0); its
application is busy with a message for 3 s (well inside the server's close timeout)
and does not call receive() meanwhile, so the peer's CLOSE waits in the queue.

The client's heartbeat sends PING.  The aiohttp peer is inside close(), whose wait
loop drops every frame that is not CLOSE - it never answers the PING although
RFC 6455 5.5.2 obliges an endpoint to answer until it has *received* a Close.
0.5 s later the client's pong timer declares the peer dead: 1006, transport
aborted - with the peer's CLOSE(1000) sitting unread in its own queue.  The
server's close() then ends with 1006/EofStream as well.

Expected: a clean close, code 1000 on both sides (as without heartbeat).
Phase 2 shows the mirror image (server heartbeat, busy handler, client closes).
"""
import asyncio
import sys

import aiohttp
from aiohttp import web

print(aiohttp.__file__)


async def start(handler):
    app = web.Application()
    app.router.add_get("/", handler)
    runner = web.AppRunner(app)
    await runner.setup()
    site = web.TCPSite(runner, "127.0.0.1", 0)
    await site.start()
    return runner, site._server.sockets[0].getsockname()[1]


async def phase1() -> dict:
    got = {}
    done = asyncio.Event()

    async def handler(request: web.Request) -> web.WebSocketResponse:
        ws = web.WebSocketResponse(timeout=10)
        await ws.prepare(request)
        await ws.send_str("job")
        await asyncio.sleep(0.1)
        await ws.close(code=1000, message=b"done")
        got["server_code"] = ws.close_code
        got["server_exc"] = ws.exception()
        done.set()
        return ws

    runner, port = await start(handler)
    async with aiohttp.ClientSession() as s:
        async with s.ws_connect(f"http://127.0.0.1:{port}/", heartbeat=1.0) as ws:
            async for msg in ws:
                await asyncio.sleep(3)  # a slow job
            got["client_code"] = ws.close_code
            got["client_exc"] = ws.exception()
        await asyncio.wait_for(done.wait(), 15)
    await runner.cleanup()
    return got


async def phase2() -> dict:
    got = {}
    done = asyncio.Event()

    async def handler(request: web.Request) -> web.WebSocketResponse:
        ws = web.WebSocketResponse(heartbeat=1.0)
        await ws.prepare(request)
        async for msg in ws:
            await asyncio.sleep(3)  # a slow job
        got["server_code"] = ws.close_code
        got["server_exc"] = ws.exception()
        done.set()
        return ws

    runner, port = await start(handler)
    async with aiohttp.ClientSession() as s:
        ws = await s.ws_connect(f"http://127.0.0.1:{port}/")
        await ws.send_str("job")
        await asyncio.sleep(0.1)
        await ws.close(code=1000, message=b"done")  # ws_close timeout: 10 s
        got["client_code"] = ws.close_code
        got["client_exc"] = ws.exception()
        await asyncio.wait_for(done.wait(), 15)
    await runner.cleanup()
    return got


async def main() -> int:
    rc = 0
    for name, phase in (("client heartbeat, server closes", phase1),
                        ("server heartbeat, client closes", phase2)):
        got = await phase()
        print(name, "->", got)
        if got["client_code"] != 1000 or got["server_code"] != 1000:
            print("FAIL: clean close reported as abnormal:",
                  "client", got["client_code"], repr(got["client_exc"]),
                  "/ server", got["server_code"], repr(got["server_exc"]))
            rc = 1
    return rc


sys.exit(asyncio.run(main()))
