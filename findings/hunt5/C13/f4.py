"""C13: the receive timeout is re-armed by every control frame receive() swallows.

receive() wraps each `reader.read()` in its own `timeout(receive_timeout)` and starts
over (`continue`) after an auto-answered PING or a skipped PONG.  With a heartbeat
shorter than the receive timeout (heartbeat=0.3, receive timeout 0.5 - think 30 s /
60 s) the peer's PONGs arrive every 0.3 s, so receive(timeout=0.5) never raises
TimeoutError although no message arrives: an idle-peer timeout that can never fire.
A peer that just sends PING frames has the same effect without any heartbeat.
Same code in ClientWebSocketResponse.receive() and web.WebSocketResponse.receive()
(F6 repaired this very pattern for close(): "timeout re-armed per frame").
"""
import asyncio
import sys

import aiohttp
from aiohttp import web

print(aiohttp.__file__)

LIMIT = 3.0  # we give up observing after 6 x the receive timeout


async def main() -> int:
    loop = asyncio.get_running_loop()
    res = {}
    release = asyncio.Event()

    async def handler(request: web.Request) -> web.WebSocketResponse:
        # server side: receive_timeout=0.5, heartbeat=0.3; the client answers the PINGs
        ws = web.WebSocketResponse(receive_timeout=0.5, heartbeat=0.3)
        await ws.prepare(request)
        t0 = loop.time()
        try:
            msg = await asyncio.wait_for(ws.receive(), LIMIT)
            res["server"] = f"returned {msg.type!r} after {loop.time() - t0:.2f}s"
        except asyncio.TimeoutError:
            res["server"] = round(loop.time() - t0, 2)
        release.set()
        await ws.close()
        return ws

    async def quiet(request: web.Request) -> web.WebSocketResponse:
        ws = web.WebSocketResponse()  # answers PINGs (autoping), sends nothing
        await ws.prepare(request)
        async for msg in ws:
            pass
        return ws

    app = web.Application()
    app.router.add_get("/srv", handler)
    app.router.add_get("/quiet", quiet)
    runner = web.AppRunner(app)
    await runner.setup()
    site = web.TCPSite(runner, "127.0.0.1", 0)
    await site.start()
    port = site._server.sockets[0].getsockname()[1]

    async with aiohttp.ClientSession() as s:
        # 1. server-side receive(); this client only answers the heartbeat PINGs
        async with s.ws_connect(f"http://127.0.0.1:{port}/srv") as ws:
            async for msg in ws:
                pass
        await release.wait()

        # 2. client-side receive(): ws_receive=0.5, heartbeat=0.3, quiet server
        async with s.ws_connect(
            f"http://127.0.0.1:{port}/quiet",
            heartbeat=0.3,
            timeout=aiohttp.ClientWSTimeout(ws_receive=0.5, ws_close=2.0),
        ) as ws:
            t0 = loop.time()
            try:
                msg = await asyncio.wait_for(ws.receive(), LIMIT)
                res["client"] = f"returned {msg.type!r} after {loop.time() - t0:.2f}s"
            except asyncio.TimeoutError:
                res["client"] = round(loop.time() - t0, 2)
    await runner.cleanup()

    rc = 0
    for side in ("server", "client"):
        took = res[side]
        print(f"{side}: receive() with a receive timeout of 0.5s ended after {took}")
        if not isinstance(took, float) or took > 1.0:
            print(f"FAIL: {side} receive() outlived its 0.5s timeout "
                  f"(still waiting after {LIMIT}s; only PONGs arrived)")
            rc = 1
    return rc


sys.exit(asyncio.run(main()))
