"""C13: ClientWebSocketResponse.close() returns while the close handshake of another
task is still running (sibling of F261, which was repaired for the server class only).

Task B runs ws.close(code=4001): CLOSE sent, waiting for the peer's CLOSE (the peer
answers after 0.5 s; ws_close timeout is 10 s).  Meanwhile the main task leaves
`async with session.ws_connect(...)`: its ws.close() sees _closed and returns False
AT ONCE - the session is not closed (no close code, transport open).  The caller
believes the socket is closed and goes on: here it leaves `async with ClientSession`,
which drops the transport under B's running handshake -> B's close() ends with 1006,
although the peer answered with a proper CLOSE well inside the timeout.

web.WebSocketResponse.close() waits for the running handshake (_close_done); the
client class does not.
"""
import asyncio
import sys

import aiohttp
from aiohttp import web

print(aiohttp.__file__)


async def main() -> int:
    srv = {}
    done = asyncio.Event()

    async def handler(request: web.Request) -> web.WebSocketResponse:
        ws = web.WebSocketResponse(autoclose=False)
        await ws.prepare(request)
        await ws.send_str("job")
        msg = await ws.receive()
        assert msg.type is web.WSMsgType.CLOSE, msg
        await asyncio.sleep(0.5)  # a peer that needs a moment before it answers
        await ws.close()
        srv["code"] = ws.close_code
        done.set()
        return ws

    app = web.Application()
    app.router.add_get("/", handler)
    runner = web.AppRunner(app)
    await runner.setup()
    site = web.TCPSite(runner, "127.0.0.1", 0)
    await site.start()
    port = site._server.sockets[0].getsockname()[1]

    res = {}
    loop = asyncio.get_running_loop()

    async def closer(ws: aiohttp.ClientWebSocketResponse) -> None:
        await asyncio.sleep(0.1)
        res["B_returned"] = await ws.close(code=4001, message=b"bye")
        res["B_code"] = ws.close_code

    async with aiohttp.ClientSession() as session:
        async with session.ws_connect(f"http://127.0.0.1:{port}/") as ws:
            task = asyncio.create_task(closer(ws))
            msg = await ws.receive()
            assert msg.type is aiohttp.WSMsgType.TEXT
            await asyncio.sleep(0.2)  # working on the message; B closes meanwhile
            transport = ws._response.connection.transport
            t0 = loop.time()
            res["main_returned"] = await ws.close()
            res["main_close_took"] = round(loop.time() - t0, 3)
            res["code_when_main_close_returned"] = ws.close_code
            res["transport_closing_when_main_close_returned"] = transport.is_closing()
    await task
    await asyncio.wait_for(done.wait(), 5)
    await runner.cleanup()

    print(res, "server:", srv)
    bad = []
    if res["code_when_main_close_returned"] is None:
        bad.append("close() returned after %.3fs although the session is not closed "
                   "(close_code None, transport closing=%s)"
                   % (res["main_close_took"], res["transport_closing_when_main_close_returned"]))
    if res["B_code"] != 1000:
        bad.append("the running handshake was cut off: close_code %r instead of the "
                   "peer's 1000" % (res["B_code"],))
    if bad:
        for b in bad:
            print("FAIL:", b)
        return 1
    print("OK")
    return 0


sys.exit(asyncio.run(main()))
