"""C08: a request body that was received completely (feed_eof() done, all bytes in
the StreamReader's buffer) cannot be read any more once the peer disconnects.

RequestHandler.connection_lost() -> BaseRequest._cancel() calls set_exception()
on the payload without looking at is_eof(): every read*() raises before it looks
at the buffer, so bytes that were received in full are lost.  The handler keeps
running (handler_cancellation is off by default precisely so that it can finish
its work), but it can no longer get at the data.  The client side does not do
this: a completely received response body stays readable after the server closes.
"""
import asyncio
import sys

import aiohttp
from aiohttp import web

print(aiohttp.__file__)


async def main() -> int:
    result: dict[str, object] = {}
    done = asyncio.Event()

    async def webhook(request: web.Request) -> web.Response:
        await asyncio.sleep(0.3)  # e.g. look up the sender's key first
        try:
            result["body"] = await request.read()
        except Exception as exc:
            result["exc"] = exc
        result["eof_was_fed"] = request.content.is_eof()
        done.set()
        return web.Response(text="ok")

    app = web.Application()
    app.router.add_post("/", webhook)
    runner = web.AppRunner(app, shutdown_timeout=0.5)
    await runner.setup()
    site = web.TCPSite(runner, "127.0.0.1", 0)
    await site.start()
    port = site._server.sockets[0].getsockname()[1]

    body = b"x" * 1000
    reader, writer = await asyncio.open_connection("127.0.0.1", port)
    writer.write(b"POST / HTTP/1.1\r\nHost: a\r\nContent-Length: 1000\r\n\r\n" + body)
    await writer.drain()
    await asyncio.sleep(0.1)  # the whole request has arrived
    writer.close()  # fire-and-forget sender
    await asyncio.wait_for(done.wait(), 5)
    await runner.cleanup()

    if result.get("body") != body:
        print(
            "FAIL: the complete body (1000 of 1000 bytes received, is_eof() =",
            result["eof_was_fed"],
            ") was not delivered; read() raised",
            repr(result.get("exc")),
        )
        return 1
    print("ok: complete body delivered after the disconnect")
    return 0


sys.exit(asyncio.run(main()))
