"""C08: server side - a reader blocked on request.content is never woken when the
peer disconnects while the response is being finished.

RequestHandler.connection_lost() fails the request body only through
self._current_request, which _handle_request() clears as soon as the handler
returns - before finish_response() runs.  Everything that reads the body from
there (a response whose body is the request's StreamReader - a registered
payload type -, an on_response_prepare signal) waits for ever: no feed_eof(), no
set_exception().  With the default handler_cancellation=False nothing cancels the
task either: one leaked task + buffers per aborted upload until shutdown.
"""
import asyncio
import sys

import aiohttp
from aiohttp import web

print(aiohttp.__file__)


async def main() -> int:
    async def echo(request: web.Request) -> web.Response:
        return web.Response(body=request.content)  # StreamReaderPayload

    app = web.Application()
    app.router.add_post("/", echo)
    runner = web.AppRunner(app, shutdown_timeout=0.5)
    await runner.setup()
    site = web.TCPSite(runner, "127.0.0.1", 0)
    await site.start()
    port = site._server.sockets[0].getsockname()[1]

    before = set(asyncio.all_tasks())
    reader, writer = await asyncio.open_connection("127.0.0.1", port)
    writer.write(
        b"POST / HTTP/1.1\r\nHost: a\r\nContent-Length: 100000\r\n\r\n" + b"x" * 10
    )
    await writer.drain()
    await asyncio.sleep(0.3)
    writer.transport.abort()  # the client goes away in the middle of its upload
    await asyncio.sleep(2.0)

    stuck = [t for t in asyncio.all_tasks() - before if not t.done()]
    rc = 0
    for t in stuck:
        rc = 1
        print("FAIL: still pending 2 s after the peer disconnected:", t.get_coro())
        frames = t.get_stack()
        coro = t.get_coro()
        # innermost await chain
        chain = []
        while coro is not None and hasattr(coro, "cr_await"):
            chain.append(getattr(coro, "__qualname__", repr(coro)))
            coro = coro.cr_await
        print("   await chain:", " -> ".join(chain))
    if not stuck:
        print("ok: the request's tasks ended after the disconnect")
    await runner.cleanup()
    return rc


sys.exit(asyncio.run(main()))
