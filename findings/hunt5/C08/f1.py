"""C08: a reader blocked in resp.content.read*() is never woken when the
connector closes the connection (session.close() / connector.close()).

ResponseHandler.close()/abort() forget the payload (self._payload = None)
before connection_lost() runs, so the ContentLengthError / TransferEncodingError
raised by parser.feed_eof() has no stream to go to: neither feed_eof() nor
set_exception() ever reaches the StreamReader and its waiter stays pending.
"""
import asyncio
import sys

import aiohttp
from aiohttp import web

print(aiohttp.__file__)


async def main() -> int:
    async def handler(request: web.Request) -> web.StreamResponse:
        resp = web.StreamResponse(headers={"Content-Length": "100"})
        await resp.prepare(request)
        await resp.write(b"x" * 10)
        await asyncio.sleep(30)  # slow producer
        return resp

    app = web.Application()
    app.router.add_get("/", handler)
    runner = web.AppRunner(app, shutdown_timeout=0.1)
    await runner.setup()
    site = web.TCPSite(runner, "127.0.0.1", 0)
    await site.start()
    port = site._server.sockets[0].getsockname()[1]

    session = aiohttp.ClientSession(timeout=aiohttp.ClientTimeout(total=None))
    resp = await session.get(f"http://127.0.0.1:{port}/")
    assert await resp.content.read(10) == b"x" * 10

    async def download() -> object:
        try:
            return await resp.content.read(10)  # buffer empty: waits for data
        except Exception as exc:
            return exc

    task = asyncio.ensure_future(download())
    await asyncio.sleep(0.1)
    await session.close()  # application shutdown while a download is running
    done, pending = await asyncio.wait([task], timeout=3)
    rc = 0
    if pending:
        print(
            "FAIL: 3 s after session.close() the reader is still blocked:",
            resp.content,
            "protocol.connected =",
            resp.content._protocol.connected,
        )
        task.cancel()
        rc = 1
    else:
        print("reader was woken with", repr(task.result()))
        if not isinstance(task.result(), Exception):
            print("FAIL: truncated body (10 of 100 bytes) delivered without error")
            rc = 1
    await runner.cleanup()
    return rc


sys.exit(asyncio.run(main()))
