"""C20 / gunicorn entry point: the cleanup context is never exited.

A real gunicorn master (1 GunicornWebWorker) is started on this tree, one request is
being handled by a handler that does not finish (websocket / long poll / SSE style),
and the master gets SIGTERM (graceful stop).  The worker's runner spends
shutdown_timeout twice before it cancels the handler and reaches Application.cleanup().
The repair of F222 made shutdown_timeout = graceful_timeout/2*0.95, but
RequestHandler.shutdown() waits with ceil_timeout(), which rounds every deadline of
more than 5 s up to a whole second, and SIGTERM only flips `alive`; _run() notices it
up to 1 s later.  Stage 2 always lasts ceil(shutdown_timeout) s, stage 1 at least
shutdown_timeout: for graceful_timeout 11, 13, 15, 17, 19 that is always more than
graceful_timeout, for the default 30 it is 29.25 .. 30.25 s plus 0 .. 1 s latency
(too late in about 3 runs of 4: `f1.py 30`).  The arbiter SIGKILLs the worker at
graceful_timeout: the handler is never cancelled, the cleanup context never exited.

usage: f1.py [graceful_timeout=13]
"""
import os, signal, socket, subprocess, sys, tempfile, time

import aiohttp

print(aiohttp.__file__)
HERE = os.path.dirname(os.path.abspath(__file__))
ROOT = os.environ.get("PYTHONPATH", "").split(os.pathsep)[0] or os.path.dirname(HERE)  # the tree under test comes from PYTHONPATH
GRACE = int(sys.argv[1]) if len(sys.argv) > 1 else 13
tmp = tempfile.mkdtemp()
mark = os.path.join(tmp, "mark")
s = socket.socket()
s.bind(("127.0.0.1", 0))
port = s.getsockname()[1]
s.close()
env = dict(os.environ, PYTHONPATH=ROOT + os.pathsep + HERE, MARK=mark)
p = subprocess.Popen(
    [sys.executable, "-m", "gunicorn", "-k", "aiohttp.GunicornWebWorker", "-w", "1",
     "--no-control-socket", "--graceful-timeout", str(GRACE),
     "-b", "127.0.0.1:%d" % port, "gapp:app"],
    env=env, cwd=HERE, stdout=subprocess.PIPE, stderr=subprocess.STDOUT, text=True)
c = None
try:
    for _ in range(300):
        try:
            c = socket.create_connection(("127.0.0.1", port))
            break
        except OSError:
            time.sleep(0.1)
    assert c is not None, "gunicorn did not start"
    c.sendall(b"GET /hang HTTP/1.1\r\nHost: x\r\n\r\n")
    for _ in range(100):
        if os.path.exists(mark) and "handler-started" in open(mark).read():
            break
        time.sleep(0.1)
    time.sleep(0.5)
    t0 = time.time()
    p.send_signal(signal.SIGTERM)  # graceful stop, as sent by a supervisor
    out, _ = p.communicate(timeout=GRACE + 30)
finally:
    if p.poll() is None:
        p.kill()
print(out)
lines = open(mark).read().splitlines()
for l in lines:
    name, ts = l.rsplit(" ", 1)
    print("%-70s t=%+.2f s" % (name, float(ts) - t0))
print("master gone %.2f s after SIGTERM; graceful_timeout=%d, runner shutdown_timeout=%.3f"
      % (time.time() - t0, GRACE, GRACE / 2 / 100 * 95))
if not any("ctx-exited" in l for l in lines):
    print("FAIL: the cleanup context was entered but its cleanup code never ran "
          "(worker SIGKILLed before the runner reached Application.cleanup())")
    sys.exit(1)
print("ok: cleanup context exited")
