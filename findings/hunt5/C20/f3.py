"""C20: a TLS connection (asyncio's TLS transport) that carried a WebSocket survives cleanup().

After the close handshake WebSocketResponse closes the transport (_close_transport()),
then the handler returns and RequestHandler.start() closes the same transport again.
asyncio's _SSLProtocolTransport detaches itself on the second close() (F219 repaired only
force_close()): its abort() is a no-op from then on.  The TLS shutdown waits for the peer's
close_notify; a peer that went away silently never sends it, and the abort with which
RequestHandler.shutdown() ends its wait (repair F221) does nothing: the socket stays open
after AppRunner.cleanup() has returned, until asyncio's 30 s ssl_shutdown_timeout.
An idle keep-alive connection of the same kind of peer (control) is aborted in time.

asyncio's TLS transport is what UnixSite uses, and TCPSite/SockSite without aiofastnet
(PyPy, or aiofastnet not installed).
"""
import asyncio, os, socket, ssl, struct, sys, tempfile, time

import aiohttp
from aiohttp import web

print(aiohttp.__file__)
HERE = os.path.dirname(os.path.abspath(__file__))
T = 0.5


class TLSClient:
    """TLS over a raw socket; reads nothing unless asked to (a peer that went away)."""

    def __init__(self, path):
        self.sock = socket.socket(socket.AF_UNIX)
        self.sock.connect(path)
        self.sock.setblocking(False)
        ctx = ssl.SSLContext(ssl.PROTOCOL_TLS_CLIENT)
        ctx.check_hostname = False
        ctx.verify_mode = ssl.CERT_NONE
        self.inc, self.out = ssl.MemoryBIO(), ssl.MemoryBIO()
        self.obj = ctx.wrap_bio(self.inc, self.out)

    async def call(self, fn, *a):
        loop = asyncio.get_running_loop()
        while True:
            try:
                r = fn(*a)
                err = None
            except ssl.SSLWantReadError as e:
                err = e
            data = self.out.read()
            if data:
                await loop.sock_sendall(self.sock, data)
            if err is None:
                return r
            data = await loop.sock_recv(self.sock, 65536)
            if not data:
                raise EOFError
            self.inc.write(data)

    async def seconds_until_tcp_eof(self, limit):
        loop = asyncio.get_running_loop()
        t0 = loop.time()
        try:
            while True:
                left = limit - (loop.time() - t0)
                if left <= 0:
                    return None
                if not await asyncio.wait_for(loop.sock_recv(self.sock, 65536), left):
                    return loop.time() - t0
        except asyncio.TimeoutError:
            return None
        except OSError:
            return loop.time() - t0


async def ws_handler(request):
    ws = web.WebSocketResponse()
    await ws.prepare(request)
    async for msg in ws:
        pass
    return ws


async def hello(request):
    return web.Response(text="hi")


async def scenario(kind):
    app = web.Application()
    app.router.add_get("/ws", ws_handler)
    app.router.add_get("/", hello)
    runner = web.AppRunner(app, shutdown_timeout=T)
    await runner.setup()
    sctx = ssl.SSLContext(ssl.PROTOCOL_TLS_SERVER)
    sctx.load_cert_chain(os.path.join(HERE, "cert.pem"), os.path.join(HERE, "key.pem"))
    path = os.path.join(tempfile.mkdtemp(), "s.sock")
    site = web.UnixSite(runner, path, ssl_context=sctx)
    await site.start()
    c = TLSClient(path)
    await c.call(c.obj.do_handshake)
    if kind == "websocket":
        await c.call(
            c.obj.write,
            b"GET /ws HTTP/1.1\r\nHost: x\r\nUpgrade: websocket\r\nConnection: Upgrade\r\n"
            b"Sec-WebSocket-Key: dGhlIHNhbXBsZSBub25jZQ==\r\nSec-WebSocket-Version: 13\r\n\r\n",
        )
        buf = b""
        while b"\r\n\r\n" not in buf:
            buf += await c.call(c.obj.read, 65536)
        assert buf.startswith(b"HTTP/1.1 101"), buf
        # the client closes the session (masked CLOSE 1000) and goes away without reading
        await c.call(c.obj.write, b"\x88\x82\x00\x00\x00\x00" + struct.pack("!H", 1000))
    else:
        await c.call(c.obj.write, b"GET / HTTP/1.1\r\nHost: x\r\n\r\n")
        assert (await c.call(c.obj.read, 65536)).startswith(b"HTTP/1.1 200")
    await asyncio.sleep(0.3)
    tr = type(runner.server._connections[runner.server.connections[0]])
    t0 = time.monotonic()
    await runner.cleanup()
    took = time.monotonic() - t0
    after = await c.seconds_until_tcp_eof(35)
    print("%-10s transport=%s.%s cleanup() took %.2f s; socket closed %s"
          % (kind, tr.__module__, tr.__name__, took,
             "never (35 s)" if after is None else "%.1f s after cleanup() returned" % after))
    return after


async def main():
    ctl = await scenario("keep-alive")
    ws = await scenario("websocket")
    if ws is None or ws > 1.0:
        print("FAIL: the connection of the finished WebSocket is still open after cleanup() returned")
        sys.exit(1)
    print("ok")


asyncio.run(main())
