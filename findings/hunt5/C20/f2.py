"""C20: web.Server.shutdown() (the documented low-level API "that should be called to close
all opened connections") does not close idle keep-alive connections at once.

RequestHandler.shutdown() only sets _force_close and then waits for the connection's
start() task under the timeout; that task of an idle connection is parked on _waiter,
which nobody cancels (only the undocumented Server.pre_shutdown() of the runners does).
So with no request in flight at all Server.shutdown(T) keeps every idle connection open
for the whole T seconds and returns only then; with the default timeout=None it never
returns while a client keeps an idle connection.
"""
import asyncio, sys, time

import aiohttp
from aiohttp import web

print(aiohttp.__file__)
T = 3.0


async def handler(request):
    return web.Response(text="ok")


async def eof_time(reader, t0):
    await reader.read()
    return time.monotonic() - t0


async def main():
    loop = asyncio.get_running_loop()
    server = web.Server(handler)
    srv = await loop.create_server(server, "127.0.0.1", 0)
    port = srv.sockets[0].getsockname()[1]
    # an idle keep-alive connection (one request answered) and a fresh one
    r1, w1 = await asyncio.open_connection("127.0.0.1", port)
    w1.write(b"GET / HTTP/1.1\r\nHost: x\r\n\r\n")
    assert (await r1.read(1000)).startswith(b"HTTP/1.1 200")
    r2, w2 = await asyncio.open_connection("127.0.0.1", port)
    await asyncio.sleep(0.1)
    assert len(server.connections) == 2

    srv.close()  # stop listening
    t0 = time.monotonic()
    e1 = asyncio.create_task(eof_time(r1, t0))
    e2 = asyncio.create_task(eof_time(r2, t0))
    await server.shutdown(T)
    took = time.monotonic() - t0
    c1, c2 = await e1, await e2
    print("no request in flight; Server.shutdown(%.0f) returned after %.2f s" % (T, took))
    print("idle keep-alive connection closed after %.2f s, fresh connection after %.2f s" % (c1, c2))

    # default timeout: never returns while the client keeps its idle connection
    server = web.Server(handler)
    srv = await loop.create_server(server, "127.0.0.1", 0)
    port = srv.sockets[0].getsockname()[1]
    r3, w3 = await asyncio.open_connection("127.0.0.1", port)
    await asyncio.sleep(0.1)
    srv.close()
    hung = False
    try:
        await asyncio.wait_for(server.shutdown(), 5)
    except asyncio.TimeoutError:
        hung = True
        print("Server.shutdown() (default timeout) still waiting for an idle connection after 5 s")
    w3.close()

    if took > 1.0 or c1 > 1.0 or hung:
        print("FAIL: idle connections are not closed at once by Server.shutdown()")
        sys.exit(1)
    print("ok")


asyncio.run(main())
