import asyncio, os, time
from aiohttp import web
import aiohttp

MARK = os.environ["MARK"]


def mark(msg):
    with open(MARK, "a") as f:
        f.write("%s %.3f\n" % (msg, time.time()))


async def ctx(app):
    mark("aiohttp=" + aiohttp.__file__ + " ctx-entered")
    yield
    mark("ctx-exited")


async def hang(request):
    mark("handler-started")
    try:
        await asyncio.sleep(3600)
    except asyncio.CancelledError:
        mark("handler-cancelled")
        raise
    return web.Response()


app = web.Application()
app.cleanup_ctx.append(ctx)
app.router.add_get("/hang", hang)
