"""C20 (graceful shutdown, bytes on the wire): the response to a request that completes
while the server is shutting down announces a persistent connection, and the server
closes that connection immediately afterwards.

pre_shutdown() marks every connection "close after the current request", but the mark is
not reflected in the response: HTTP/1.1 answers carry no "Connection: close", HTTP/1.0
keep-alive answers even say "Connection: keep-alive".  A client / reverse proxy therefore
keeps the connection for reuse and its next request is silently dropped (RFC 9112 9.6:
a server that intends to close SHOULD send the close option).  Same defect as F168
(keepalive_timeout=0), which was repaired only for that configuration.
"""
import asyncio, sys

import aiohttp
from aiohttp import web

print(aiohttp.__file__)


async def slow(request):
    await asyncio.sleep(0.5)
    return web.Response(text="ok")


async def exchange(version, extra_header=b""):
    app = web.Application()
    app.router.add_get("/slow", slow)
    runner = web.AppRunner(app, shutdown_timeout=5)
    await runner.setup()
    site = web.TCPSite(runner, "127.0.0.1", 0)
    await site.start()
    r, w = await asyncio.open_connection("127.0.0.1", site.port)
    w.write(b"GET /slow HTTP/" + version + b"\r\nHost: x\r\n" + extra_header + b"\r\n")
    await asyncio.sleep(0.1)
    cleanup = asyncio.create_task(runner.cleanup())  # shutdown begins, handler is running
    head = await r.readuntil(b"\r\n\r\n")
    body = await r.readexactly(2)
    # the client believes the connection is reusable and sends its next request
    w.write(b"GET /slow HTTP/" + version + b"\r\nHost: x\r\n" + extra_header + b"\r\n")
    try:
        rest = await r.read()
    except ConnectionError as e:
        rest = repr(e)
    await cleanup
    return head.decode(), rest


async def main():
    bad = False
    for version, hdr in ((b"1.1", b""), (b"1.0", b"Connection: keep-alive\r\n")):
        head, rest = await exchange(version, hdr)
        print("--- request HTTP/%s, completed during shutdown:" % version.decode())
        print(head.strip())
        print("--- next request on the same connection got:", rest or "nothing (connection closed)")
        conn = [l for l in head.lower().split("\r\n") if l.startswith("connection:")]
        announced_close = any("close" in l for l in conn)
        if not announced_close:
            bad = True
    if bad:
        print("FAIL: the connection is closed right after a response that does not announce it")
        sys.exit(1)
    print("ok")


asyncio.run(main())
