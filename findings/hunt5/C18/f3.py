"""C18: expect100 + sock_read < 1 s: SocketTimeoutError against a healthy server, caused by the
client's own hold-back of the body.

Two earlier repairs collide.  F76 arms the sock_read timer while the writer waits for "100 Continue";
F136 bounds that wait by 1 s (_EXPECT_CONTINUE_TIMEOUT, "same as curl") and then sends the body anyway,
because many servers (HTTP/1.0 peers, servers that ignore Expect) never send the interim response and
simply wait for the body.  With sock_read below 1 s the timer armed for the wait fires first: the
request fails with SocketTimeoutError at sock_read although the peer is healthy and is only waiting for
the body the client itself is holding back - the fallback "send the body after 1 s" is never reached.
The same request with sock_read >= 1 s (or None) succeeds after 1 s.

Exit status 1 = violation demonstrated.
"""
import asyncio
import sys
import time

import aiohttp
from aiohttp import ClientTimeout

print("aiohttp from", aiohttp.__file__)


async def peer(r: asyncio.StreamReader, w: asyncio.StreamWriter) -> None:
    """A healthy server that ignores Expect: reads the declared body, answers at once."""
    try:
        await r.readuntil(b"\r\n\r\n")
        await r.readexactly(1000)
        w.write(b"HTTP/1.1 200 OK\r\nContent-Length: 2\r\n\r\nok")
        await w.drain()
    except (asyncio.IncompleteReadError, ConnectionError, asyncio.CancelledError):
        pass
    finally:
        w.close()


async def attempt(port: int, sock_read: float | None) -> tuple[str, float]:
    t0 = time.monotonic()
    async with aiohttp.ClientSession() as s:
        try:
            async with s.post(
                f"http://127.0.0.1:{port}/",
                data=b"x" * 1000,
                expect100=True,
                timeout=ClientTimeout(total=None, sock_read=sock_read),
            ) as resp:
                out = f"{resp.status} {await resp.read()!r}"
        except Exception as e:
            out = type(e).__name__
    return out, time.monotonic() - t0


async def main() -> int:
    server = await asyncio.start_server(peer, "127.0.0.1", 0)
    port = server.sockets[0].getsockname()[1]
    bad = 0
    for sock_read in (None, 3.0, 0.5):
        out, dt = await attempt(port, sock_read)
        print(f"expect100=True, sock_read={sock_read}: {out} after {dt:.2f}s")
        if sock_read in (None, 3.0):
            assert out.startswith("200"), "control broken: the server is supposed to be healthy"
        elif not out.startswith("200"):
            bad += 1
    server.close()
    if bad:
        print(
            "VIOLATION: the peer never stalled (it answers as soon as it gets the body); the client "
            "timed out on its own 1 s hold-back because sock_read (0.5 s) is armed for the wait"
        )
        return 1
    print("ok")
    return 0


sys.exit(asyncio.run(main()))
