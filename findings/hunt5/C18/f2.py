"""C18: sock_read is not enforced after a *late* "100 Continue".

expect100=True: the client holds the body back for 1 s (F136), then sends it anyway and arms the
sock_read timer (end of upload).  If the server's "100 Continue" arrives after that - it was just slow -
the interim response disarms the timer (every completed message does) and ClientResponse.start() takes
the `if self._continue is not None:` branch, which relies on the writer to re-arm the timer at the end of
the upload.  The writer has finished already, so nobody re-arms it: a server that stalls now is waited
for without bound although sock_read is configured.  (F76 repaired the `elif` branch only.)

Exit status 1 = violation demonstrated.
"""
import asyncio
import sys
import time

import aiohttp
from aiohttp import ClientTimeout

print("aiohttp from", aiohttp.__file__)

SOCK_READ = 2.0
SERVER_DELAY = 1.5  # > 1 s (the client's wait for 100 Continue), < SOCK_READ
HARD_LIMIT = 9.0

log = []
T0 = 0.0


def stamp(msg: str) -> None:
    log.append(f"  t={time.monotonic() - T0:5.2f}s  {msg}")


async def peer(r: asyncio.StreamReader, w: asyncio.StreamWriter) -> None:
    head = await r.readuntil(b"\r\n\r\n")
    assert b"100-continue" in head.lower()
    stamp("server: request head received, thinking ...")
    await asyncio.sleep(SERVER_DELAY)
    w.write(b"HTTP/1.1 100 Continue\r\n\r\n")
    await w.drain()
    stamp("server: sent '100 Continue', reads the body, then stalls (never sends the final response)")
    try:
        while await r.read(65536):
            pass
    except (ConnectionError, asyncio.CancelledError):
        pass
    stamp("server: connection closed by the client")


async def run(server_delay: float) -> tuple[str, float]:
    global T0, SERVER_DELAY
    SERVER_DELAY = server_delay
    log.clear()
    server = await asyncio.start_server(peer, "127.0.0.1", 0)
    port = server.sockets[0].getsockname()[1]
    T0 = time.monotonic()
    outcome = None
    async with aiohttp.ClientSession() as session:
        async def go() -> None:
            tmo = ClientTimeout(total=None, sock_read=SOCK_READ)
            async with session.post(
                f"http://127.0.0.1:{port}/", data=b"x" * 1000, expect100=True, timeout=tmo
            ) as resp:
                await resp.read()

        task = asyncio.ensure_future(go())
        done, _ = await asyncio.wait([task], timeout=HARD_LIMIT)
        elapsed = time.monotonic() - T0
        if not done:
            outcome = "HANG"
            task.cancel()
            try:
                await task
            except BaseException:
                pass
        else:
            try:
                task.result()
                outcome = "completed?!"
            except Exception as e:
                outcome = type(e).__name__
    server.close()
    print("\n".join(log))
    return outcome, elapsed


async def main() -> int:
    # control: the 100 Continue comes in time (while the writer still waits for it)
    outcome, elapsed = await run(0.3)
    print(f"control (100 Continue after 0.3s, then stall): outcome={outcome} after {elapsed:.2f}s")
    assert outcome == "SocketTimeoutError" and elapsed < 0.3 + SOCK_READ + 1.0, "control broken"
    outcome, elapsed = await run(1.5)
    bound = SERVER_DELAY + SOCK_READ
    print(
        f"request with sock_read={SOCK_READ}: outcome={outcome} after {elapsed:.2f}s "
        f"(the peer has been silent since t={SERVER_DELAY}s, so SocketTimeoutError is due by ~{bound}s)"
    )
    if outcome == "HANG" or elapsed > bound + 1.0:
        print(
            "VIOLATION: the peer stalls after a late '100 Continue' and sock_read never fires "
            f"(still waiting after {HARD_LIMIT}s)"
        )
        return 1
    print("ok")
    return 0


sys.exit(asyncio.run(main()))
