"""C18: after a timeout / cancellation while *streaming* an https response body
(resp.content.read(n) / iter_chunked() / readline() inside ``async with``), the
connection to the stalled peer is NOT closed: it lingers in a graceful TLS shutdown
(asyncio's 30 s default) outside the connector's accounting.

F240 (commit b3b910c) made TCPConnector._release() abort the TLS connection only for
``should_close=True`` (Connection.close()).  ``async with session.get(...)`` leaves through
ClientResponse.release() -> Connection.release() -> _release(should_close=False); the
base class then closes the protocol because ``protocol.should_close`` is true
(unfinished body / recorded timeout) - with a graceful transport.close() that waits for
the close_notify of the peer that has just been declared stalled.

Exit status 1 = violation demonstrated.
"""
import asyncio
import os
import ssl
import sys

import aiohttp
from aiohttp import ClientTimeout

print("aiohttp from", aiohttp.__file__)
ROOT = os.environ.get("PYTHONPATH", "").split(os.pathsep)[0] or os.path.dirname(os.path.dirname(os.path.abspath(__file__)))  # the tree under test


def established_to(port: int) -> int:
    """Number of ESTABLISHED client-side sockets whose remote port is `port`."""
    n = 0
    for fn in ("/proc/net/tcp", "/proc/net/tcp6"):
        try:
            lines = open(fn).read().splitlines()[1:]
        except OSError:
            continue
        for ln in lines:
            f = ln.split()
            rport = int(f[2].rsplit(":", 1)[1], 16)
            if rport == port and f[3] == "01":
                n += 1
    return n


async def stalling_peer(r: asyncio.StreamReader, w: asyncio.StreamWriter) -> None:
    await r.readuntil(b"\r\n\r\n")
    # head + a part of the body, then the peer stalls: it neither sends nor reads
    w.write(b"HTTP/1.1 200 OK\r\nContent-Length: 100000\r\n\r\n" + b"x" * 1000)
    await w.drain()
    w.transport.pause_reading()
    try:
        await asyncio.sleep(3600)
    except asyncio.CancelledError:
        pass


async def attempt(how: str, port: int) -> tuple[str, int, int, int]:
    url = f"https://127.0.0.1:{port}/"
    conn = aiohttp.TCPConnector(ssl=False)  # default ssl_shutdown_timeout (0: abort)
    session = aiohttp.ClientSession(connector=conn)
    outcome = "?"

    async def stream() -> None:
        tmo = (
            ClientTimeout(total=None, sock_read=0.3)
            if how == "sock_read"
            else ClientTimeout(total=0.3)
            if how in ("total", "control")
            else ClientTimeout(total=None)
        )
        async with session.get(url, timeout=tmo) as resp:
            if how == "control":
                await resp.read()  # read() closes the response itself on error
            async for _ in resp.content.iter_chunked(512):
                pass

    task = asyncio.ensure_future(stream())
    if how == "cancel":
        await asyncio.sleep(0.3)
        task.cancel()
    try:
        await task
        outcome = "completed?!"
    except asyncio.CancelledError:
        outcome = "CancelledError"
    except Exception as e:
        outcome = type(e).__name__
    await asyncio.sleep(1.0)  # far beyond any rounding
    open_after = established_to(port)
    acquired, pooled = len(conn._acquired), sum(len(v) for v in conn._conns.values())
    await session.close()
    await asyncio.sleep(0.2)
    open_after_session_close = established_to(port)
    return outcome, open_after, acquired + pooled, open_after_session_close


async def main() -> int:
    ctx = ssl.SSLContext(ssl.PROTOCOL_TLS_SERVER)
    ctx.load_cert_chain(
        os.path.join(ROOT, "examples", "server.crt"),
        os.path.join(ROOT, "examples", "server.key"),
    )
    bad = 0
    for how in ("control", "sock_read", "total", "cancel"):
        server = await asyncio.start_server(stalling_peer, "127.0.0.1", 0, ssl=ctx)
        port = server.sockets[0].getsockname()[1]
        outcome, open_after, tracked, open_closed = await attempt(how, port)
        print(
            f"[{how}] request ended with {outcome}; 1 s later: client sockets still "
            f"ESTABLISHED to the peer = {open_after}, connections tracked by the "
            f"connector = {tracked}; after session.close(): still ESTABLISHED = {open_closed}"
        )
        if how == "control":
            # resp.read() -> ClientResponse.close() -> Connection.close(): aborted at once
            assert open_after == 0, "control run: the observation method is broken"
        elif open_after or open_closed:
            bad += 1
        server.close()
    if bad:
        print(
            "VIOLATION: the connection of a timed-out / cancelled https exchange is not "
            "closed (graceful TLS shutdown waits for the stalled peer's close_notify), "
            "it is neither acquired nor pooled and survives session.close()"
        )
        return 1
    print("ok: connection closed after timeout / cancellation")
    return 0


sys.exit(asyncio.run(main()))
