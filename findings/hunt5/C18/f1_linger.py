"""Measures how long the socket of f1.py's sock_read case lingers."""
import asyncio, os, ssl, sys, time
import aiohttp
from aiohttp import ClientTimeout
sys.path.insert(0, os.path.dirname(os.path.abspath(__file__)))
ROOT = os.environ.get("PYTHONPATH", "").split(os.pathsep)[0] or os.path.dirname(os.path.dirname(os.path.abspath(__file__)))  # the tree under test

def established_to(port):
    n = 0
    for ln in open("/proc/net/tcp").read().splitlines()[1:]:
        f = ln.split()
        if int(f[2].rsplit(":", 1)[1], 16) == port and f[3] == "01":
            n += 1
    return n

async def peer(r, w):
    await r.readuntil(b"\r\n\r\n")
    w.write(b"HTTP/1.1 200 OK\r\nContent-Length: 100000\r\n\r\n" + b"x" * 1000)
    await w.drain()
    w.transport.pause_reading()
    try:
        await asyncio.sleep(3600)
    except asyncio.CancelledError:
        pass

async def main():
    ctx = ssl.SSLContext(ssl.PROTOCOL_TLS_SERVER)
    ctx.load_cert_chain(os.path.join(ROOT, "examples", "server.crt"), os.path.join(ROOT, "examples", "server.key"))
    server = await asyncio.start_server(peer, "127.0.0.1", 0, ssl=ctx)
    port = server.sockets[0].getsockname()[1]
    async with aiohttp.ClientSession(connector=aiohttp.TCPConnector(ssl=False)) as s:
        try:
            async with s.get(f"https://127.0.0.1:{port}/", timeout=ClientTimeout(total=None, sock_read=0.3)) as resp:
                async for _ in resp.content.iter_chunked(512):
                    pass
        except Exception as e:
            print("failed with", type(e).__name__)
    t0 = time.monotonic()
    while established_to(port) and time.monotonic() - t0 < 40:
        await asyncio.sleep(0.5)
    print(f"socket closed {time.monotonic() - t0:.1f} s after the timeout error and session.close()")

asyncio.run(main())
