"""C06 - bytes that arrive on a NEW connection before the request is handed to it
are delivered as the response to that request.

ResponseHandler.data_received() stores everything that arrives before
set_response_params() (no parser yet) in self._tail, and set_response_params()
replays that into the fresh parser.  The repairs for re-acquired connections
(protocol.idle, F208/F217) only cover the time after set_response_params(): on a
brand-new connection (also one that was just created because the pooled one was
retired) a peer that speaks first has its bytes taken for the answer to a request
it has not seen.

To make the order of events unambiguous the script suspends the documented
on_connection_create_end trace callback for 50 ms (the same kind of window a
TLS handshake, a slow on_request_start/on_request_headers_sent callback or a busy
event loop opens): the greeting is read by the client long before the request
head is written.  Without the callback the outcome depends on which side's
callback the event loop runs first.
"""

import asyncio
import sys

import aiohttp

print(aiohttp.__file__)


async def main():
    state = {"connections": 0}
    seen = []

    async def handle(r, w):
        state["connections"] += 1
        first = state["connections"] == 1
        try:
            if first:
                # speaks first: a complete response before any request exists
                w.write(b"HTTP/1.1 200 OK\r\nContent-Length: 8\r\n\r\nGREETING")
                await w.drain()
                sent_at = asyncio.get_running_loop().time()
            while True:
                head = await r.readuntil(b"\r\n\r\n")
                if first:
                    seen.append(
                        "server: request head arrived %.1f ms after the greeting was sent"
                        % ((asyncio.get_running_loop().time() - sent_at) * 1000)
                    )
                path = head.split(b" ")[1]
                w.write(
                    b"HTTP/1.1 200 OK\r\nContent-Length: %d\r\n\r\n%s" % (len(path), path)
                )
                await w.drain()
        except (asyncio.IncompleteReadError, ConnectionError):
            pass
        finally:
            w.close()

    srv = await asyncio.start_server(handle, "127.0.0.1", 0)
    port = srv.sockets[0].getsockname()[1]

    async def on_connection_create_end(session, ctx, params):
        await asyncio.sleep(0.05)

    tc = aiohttp.TraceConfig()
    tc.on_connection_create_end.append(on_connection_create_end)

    rc = 0
    async with aiohttp.ClientSession(trace_configs=[tc]) as s:
        for path in ("/a", "/b"):
            try:
                async with s.get(f"http://127.0.0.1:{port}{path}") as resp:
                    body = await resp.read()
            except aiohttp.ClientError as exc:
                # refusing the connection is fine
                print(f"GET {path} -> {exc!r}")
                continue
            print(f"GET {path} -> {body!r}")
            if body != path.encode():
                rc = 1
            await asyncio.sleep(0.05)
    for line in seen:
        print(line)
    print("connections used:", state["connections"])
    srv.close()
    if rc:
        print(
            "VIOLATION: the response delivered for GET /a was sent by the peer "
            "before that request was handed to the connection"
        )
    return rc


sys.exit(asyncio.run(main()))
