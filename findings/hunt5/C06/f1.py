"""C06 - sock_read timer armed by a request writer that finishes after the
response was already complete: the connection is pooled with a running timer,
the timer fires while the connection idles and the next request that reuses the
connection fails at once with SocketTimeoutError (the server answered nothing
late, the exchange on the wire is perfectly clean).

History: POST with a streamed body; the server answers (complete, keep-alive
response) after the first chunk and keeps reading the body.  The last body chunk
is written in the loop iteration between data_received() (response complete,
timer dropped) and ClientResponse.start() (which would cancel the writer):
ClientRequest._write_bytes() ends with protocol.start_timeout() although there
is nothing left to wait for.  Part 2 shows that no special scheduling is needed:
plain file uploads answered early hit the same window a few percent of the time.
"""

import asyncio
import os
import random
import sys
import tempfile

import aiohttp

print(aiohttp.__file__)

SOCK_READ = 0.3


async def start_server(state):
    async def handle(r, w):
        state["connections"] += 1
        try:
            while True:
                head = await r.readuntil(b"\r\n\r\n")
                hl = head.lower()
                if b"transfer-encoding: chunked" in hl:
                    # early answer: after the size line of the first chunk
                    await r.readuntil(b"\r\n")
                    w.write(b"HTTP/1.1 200 OK\r\nContent-Length: 2\r\n\r\nR1")
                    await w.drain()
                    state["responded"].set()
                    await r.readuntil(b"\r\n0\r\n\r\n")
                    continue
                n = 0
                for line in hl.split(b"\r\n"):
                    if line.startswith(b"content-length:"):
                        n = int(line.split(b":")[1])
                if n > 1000:
                    # early answer somewhere inside the body, then read the rest
                    k = n - random.randrange(1, 131072)
                    await r.readexactly(k)
                    w.write(b"HTTP/1.1 200 OK\r\nContent-Length: 2\r\n\r\nR1")
                    await w.drain()
                    await r.readexactly(n - k)
                else:
                    await r.readexactly(n)
                    w.write(b"HTTP/1.1 200 OK\r\nContent-Length: 2\r\n\r\nR2")
                    await w.drain()
        except (asyncio.IncompleteReadError, ConnectionError):
            pass
        finally:
            w.close()

    srv = await asyncio.start_server(handle, "127.0.0.1", 0)
    return srv, srv.sockets[0].getsockname()[1]


async def part1():
    """Deterministic schedule."""
    state = {"connections": 0, "responded": asyncio.Event()}
    srv, port = await start_server(state)
    go = asyncio.Event()

    async def relay():
        # one extra hop: the writer is woken in the iteration in which the
        # response is read from the socket, and runs before start() does
        await state["responded"].wait()
        go.set()

    relay_task = asyncio.create_task(relay())

    async def body():
        yield b"first"
        await go.wait()
        yield b"last"

    failed = None
    timeout = aiohttp.ClientTimeout(total=10, sock_read=SOCK_READ)
    async with aiohttp.ClientSession(timeout=timeout) as s:
        try:
            async with s.post(f"http://127.0.0.1:{port}/upload", data=body()) as resp:
                r1 = await resp.read()
        except aiohttp.ClientError as exc:
            print(f"part1: inconclusive, the upload itself failed: {exc!r}")
            relay_task.cancel()
            srv.close()
            return None
        print("part1: first exchange ->", r1)
        # longer than sock_read, far shorter than keepalive_timeout (15 s)
        await asyncio.sleep(SOCK_READ * 2)
        t0 = asyncio.get_running_loop().time()
        try:
            async with s.post(f"http://127.0.0.1:{port}/next", data=b"x") as resp:
                print("part1: second exchange ->", await resp.read())
        except aiohttp.SocketTimeoutError as exc:
            dt = asyncio.get_running_loop().time() - t0
            failed = exc
            print(
                f"part1: second exchange FAILED after {dt * 1000:.1f} ms "
                f"(sock_read={SOCK_READ}) with {exc!r}; connections used: "
                f"{state['connections']}"
            )
    relay_task.cancel()
    srv.close()
    return failed


async def part2(rounds=60, sock_read=0.2):
    """No special scheduling: file uploads answered early."""
    state = {"connections": 0, "responded": asyncio.Event()}
    srv, port = await start_server(state)
    fd, path = tempfile.mkstemp()
    os.write(fd, b"x" * 300000)
    os.close(fd)
    failures = 0
    loop = asyncio.get_running_loop()
    timeout = aiohttp.ClientTimeout(total=10, sock_read=sock_read)
    try:
        async with aiohttp.ClientSession(timeout=timeout) as s:
            for i in range(rounds):
                try:
                    with open(path, "rb") as f:
                        async with s.post(f"http://127.0.0.1:{port}/up", data=f) as resp:
                            await resp.read()
                except aiohttp.ClientError as exc:
                    print(f"part2: round {i}: upload itself failed ({exc!r}), skipped")
                    continue
                await asyncio.sleep(sock_read * 1.5)
                t0 = loop.time()
                try:
                    async with s.post(f"http://127.0.0.1:{port}/n", data=b"x") as resp:
                        await resp.read()
                except aiohttp.SocketTimeoutError as exc:
                    dt = loop.time() - t0
                    # a stale timer fails the request at once; a slow machine
                    # would need at least sock_read
                    if dt < sock_read / 2:
                        failures += 1
                        if failures == 1:
                            print(
                                f"part2: round {i}: request after an early-answered "
                                f"upload failed after {dt * 1000:.1f} ms: {exc!r}"
                            )
    finally:
        os.unlink(path)
        srv.close()
    print(f"part2: {failures} of {rounds} follow-up requests failed at once with SocketTimeoutError")
    return failures


async def main():
    failed = await part1()
    failures = await part2()
    if failed is not None or failures:
        print(
            "VIOLATION: a clean keep-alive connection was pooled with the sock_read "
            "timer of the finished exchange still running; the request that reused "
            "it failed with SocketTimeoutError without the server being late"
        )
        return 1
    print("ok")
    return 0


sys.exit(asyncio.run(main()))
