"""C17 / f3: DigestAuthMiddleware - sibling of F214 that the repair left alone.

The middleware scopes its credentials to the origin of the first request and
tests it with ``request.url.origin() != self._origin`` (yarl compares the netloc
text: http://a.test and http://a.test:80 differ).  ClientSession._request was
repaired (F214: compare scheme, host, effective port); the commit message says
the middleware's protection-space test hides the problem - but the protection
space is empty until a challenge was received.

History: GET http://a.test/  ->  301 Location: http://a.test:80/app  (same
origin, default port spelled out; no challenge yet)  ->  401 Digest challenge.
The middleware passes the second hop through "as a foreign origin": the 401 is
returned to the caller, the configured credentials are never used.  The same
chain with ``Location: http://a.test/app`` (or ``/app``) authenticates.
"""
import asyncio
import sys

import aiohttp
from aiohttp import DigestAuthMiddleware
from lib import LoopbackResolver, Srv, resp

print(aiohttp.__file__)


async def chain(location: str) -> tuple[int, list[tuple[str, str | None]]]:
    log = []

    def route(rec):
        if rec.target == "/":
            return resp(301, [("Location", location)])
        if (rec.get("authorization") or "").startswith("Digest "):
            return resp(200, [], b"secret content")
        return resp(
            401,
            [("WWW-Authenticate", 'Digest realm="r", nonce="abc", qop="auth", algorithm=MD5')],
            b"",
        )

    srv = Srv(route, log)
    srv.server = await asyncio.start_server(srv._handle, "127.0.0.1", 80)
    srv.port = 80
    try:
        conn = aiohttp.TCPConnector(resolver=LoopbackResolver())
        mw = DigestAuthMiddleware(login="user", password="pw")
        async with aiohttp.ClientSession(connector=conn, middlewares=(mw,)) as s:
            async with s.get("http://a.test/") as r:
                status = r.status
    finally:
        await srv.stop()
    return status, [(rec.target, (rec.get("authorization") or "")[:12]) for rec in log]


async def main() -> int:
    ok_status, ok_log = await chain("http://a.test/app")
    print("Location http://a.test/app    ->", ok_status, ok_log)
    bad_status, bad_log = await chain("http://a.test:80/app")
    print("Location http://a.test:80/app ->", bad_status, bad_log)
    if ok_status == 200 and bad_status != 200:
        print(
            "FAIL: the same-origin redirect spelled with its default port was "
            "passed through as a foreign origin: the 401 challenge was not answered"
        )
        return 1
    print("OK")
    return 0


sys.exit(asyncio.run(main()))
