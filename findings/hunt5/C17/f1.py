"""C17 / f1: a relative redirect (Location without a leading slash) is resolved
against the percent-DECODED path of the current URL.

ClientSession._request resolves a scheme-less Location with ``url.join(...)``.
For a relative-path reference yarl's join() merges ``self.parts`` (decoded)
instead of the raw path, so every percent-escape in the directory part of the
URL that was just requested is undone in the next request:

    GET /my%20docs/index  -> 302 Location: other ->  "GET /my docs/other HTTP/1.1"

i.e. a blank / TAB / '#' / '?' is written verbatim into the request line (a
malformed or different request - default settings, requote_redirect_url=True),
%2F becomes a path separator, and %0D%0A / %7F end in a bare ValueError
("Forbidden control character detected in headers") out of session.get().
"""
import asyncio
import sys

import aiohttp
from lib import LoopbackResolver, Srv, resp

print(aiohttp.__file__)

CASES = [
    # requested path,        expected request line of the second hop
    ("/my%20docs/index", b"GET /my%20docs/other HTTP/1.1"),
    ("/a%3Fb/index", b"GET /a%3Fb/other HTTP/1.1"),
    ("/a%23b/index", b"GET /a%23b/other HTTP/1.1"),
    ("/a%2Fb/index", b"GET /a%2Fb/other HTTP/1.1"),
    ("/a%09b/index", b"GET /a%09b/other HTTP/1.1"),
    ("/x%0D%0AInjected:%20y/index", b"GET /x%0D%0AInjected:%20y/other HTTP/1.1"),
    ("/a%7Fb/index", b"GET /a%7Fb/other HTTP/1.1"),
]


async def main() -> int:
    log = []

    def route(rec):
        if rec.target.endswith("/index"):
            return resp(302, [("Location", "other")])  # relative-path reference
        return resp(200, [], b"ok")

    a = await Srv(route, log).start()
    conn = aiohttp.TCPConnector(resolver=LoopbackResolver())
    bad = 0
    async with aiohttp.ClientSession(connector=conn) as s:
        for path, expected in CASES:
            log.clear()
            try:
                async with s.get(f"http://a.test:{a.port}{path}") as r:
                    out = f"{r.status} {r.url!s}"
            except aiohttp.ClientError as e:
                out = f"ClientError {e!r}"
            except Exception as e:
                out = f"BARE {e!r}"
            lines = [rec.raw_head.split(b"\r\n")[0] for rec in log]
            second = lines[1] if len(lines) > 1 else None
            verdict = "ok" if second == expected else "WRONG"
            if second != expected:
                bad += 1
            print(f"{path}\n    outcome : {out}\n    2nd hop : {second!r}\n    expected: {expected!r}  {verdict}")
    await a.stop()
    if bad:
        print(
            f"FAIL: {bad} relative redirects were resolved against the decoded "
            "path: wrong request line on the wire / bare ValueError"
        )
        return 1
    print("OK")
    return 0


sys.exit(asyncio.run(main()))
