"""Tiny scripted HTTP/1.1 server used by the hunt scripts."""
import asyncio


class Rec:
    def __init__(self, port, method, target, headers, body, raw_head):
        self.port = port
        self.method = method
        self.target = target
        self.headers = headers  # list of (name, value)
        self.body = body
        self.raw_head = raw_head

    def get(self, name, default=None):
        name = name.lower()
        vals = [v for k, v in self.headers if k.lower() == name]
        return vals[0] if vals else default

    def getall(self, name):
        name = name.lower()
        return [v for k, v in self.headers if k.lower() == name]

    def __repr__(self):
        return f"<{self.port} {self.method} {self.target} {self.headers} body={self.body!r}>"


class Srv:
    """route(rec) -> bytes (full raw response) ; keeps a log of requests."""

    def __init__(self, route, log=None):
        self.route = route
        self.log = log if log is not None else []
        self.server = None
        self.port = None
        self.conns = 0

    async def start(self, host="127.0.0.1", ssl=None):
        self.server = await asyncio.start_server(self._handle, host, 0, ssl=ssl)
        self.port = self.server.sockets[0].getsockname()[1]
        return self

    async def _handle(self, r, w):
        self.conns += 1
        try:
            while True:
                try:
                    head = await r.readuntil(b"\r\n\r\n")
                except (asyncio.IncompleteReadError, ConnectionError):
                    break
                lines = head[:-4].split(b"\r\n")
                method, target, _ = lines[0].decode("latin-1").split(" ", 2)
                hs = []
                for l in lines[1:]:
                    k, _, v = l.decode("latin-1").partition(":")
                    hs.append((k.strip(), v.strip()))
                rec = Rec(self.port, method, target, hs, b"", head)
                cl = rec.get("content-length")
                te = rec.get("transfer-encoding", "")
                body = b""
                if "chunked" in te.lower():
                    while True:
                        sz = await r.readuntil(b"\r\n")
                        n = int(sz.strip().split(b";")[0], 16)
                        if n == 0:
                            await r.readuntil(b"\r\n")
                            break
                        body += await r.readexactly(n)
                        await r.readexactly(2)
                elif cl:
                    body = await r.readexactly(int(cl))
                rec.body = body
                self.log.append(rec)
                out = self.route(rec)
                if asyncio.iscoroutine(out):
                    out = await out
                if out is None:
                    break
                w.write(out)
                await w.drain()
                if b"connection: close" in out.lower():
                    break
        finally:
            w.close()

    async def stop(self):
        self.server.close()
        try:
            await asyncio.wait_for(self.server.wait_closed(), 1)
        except Exception:
            pass


def resp(status, headers=(), body=b""):
    reason = {200: "OK", 301: "Moved", 302: "Found", 303: "See Other", 307: "Temp", 308: "Perm", 401: "Unauthorized"}.get(status, "X")
    out = f"HTTP/1.1 {status} {reason}\r\n"
    for k, v in headers:
        out += f"{k}: {v}\r\n"
    out += f"Content-Length: {len(body)}\r\n\r\n"
    return out.encode("latin-1") + body


import socket
from aiohttp.abc import AbstractResolver


class LoopbackResolver(AbstractResolver):
    def __init__(self):
        self.asked = []

    async def resolve(self, host, port=0, family=socket.AF_INET):
        self.asked.append(host)
        return [{"hostname": host, "host": "127.0.0.1", "port": port, "family": socket.AF_INET, "proto": 0, "flags": 0}]

    async def close(self):
        pass
