"""C17 / f2: requote_redirect_url=False, Location with a blank next to the port.

The first parse (URL(r_url, encoded=True).port) passes because int(" 8080") /
int("8080 ") is accepted, then the blank is replaced by %20 and the URL is
parsed AGAIN without any validation (repair of F213).  The second URL has the
port "8080%20": the next attribute access raises a bare ValueError that leaves
ClientSession.get() instead of InvalidUrlRedirectClientError (same class of
defect as F42 / F211 / F212).
"""
import asyncio
import sys
import traceback

import aiohttp
from lib import LoopbackResolver, Srv, resp

print(aiohttp.__file__)


async def run(location_tpl: str) -> str:
    log = []
    port_box = {}

    def route(rec):
        if rec.target == "/start":
            return resp(302, [("Location", location_tpl.format(port=port_box["p"]))])
        return resp(200, [], b"ok")

    a = await Srv(route, log).start()
    port_box["p"] = a.port
    conn = aiohttp.TCPConnector(resolver=LoopbackResolver())
    try:
        async with aiohttp.ClientSession(
            connector=conn, requote_redirect_url=False
        ) as s:
            try:
                async with s.get(f"http://a.test:{a.port}/start") as r:
                    return f"ok {r.status} {r.url}"
            except aiohttp.ClientError as e:
                return f"ClientError:{type(e).__name__}"
            except Exception as e:
                traceback.print_exc()
                return f"BARE:{type(e).__name__}: {e}"
    finally:
        await a.stop()


async def main() -> int:
    bad = 0
    for tpl in (
        "http://a.test:{port} /fin",  # blank after the port
        "http://a.test: {port}/fin",  # blank before the port
        "//a.test:{port} /fin",  # scheme-relative
    ):
        out = await run(tpl)
        print(repr(tpl), "->", out)
        if out.startswith("BARE"):
            bad += 1
    if bad:
        print(
            "FAIL: a redirect Location left ClientSession.get() as a bare "
            "ValueError (expected InvalidUrlRedirectClientError or a followed redirect)"
        )
        return 1
    print("OK")
    return 0


sys.exit(asyncio.run(main()))
