"""C17 / f4: the same-origin test of the redirect loop compares the scheme and
the host as text.

(a) ws_connect("ws://host:P/ws") answered by a redirect whose absolute Location
    is spelled http://host:P/ws/ (what request.url based code, nginx's
    absolute_redirect etc. send - a server never sees a "ws" scheme): same host,
    same port, same (absent) TLS, i.e. the very same endpoint, but the caller's
    Authorization / Cookie / per-request cookies are dropped and the handshake
    is refused.  wss:// -> https:// is the same.
(b) host names are case-insensitive; a start URL built with encoded=True (or a
    Location taken as is under requote_redirect_url=False) keeps its case, and
    http://A.test:P -> http://a.test:P is treated as a foreign origin
    (the cookie jar got this repair as F244, the redirect loop did not;
    sibling of F214).
"""
import asyncio
import sys

import aiohttp
from aiohttp import web
from lib import LoopbackResolver
from yarl import URL

print(aiohttp.__file__)


async def main() -> int:
    seen = []

    def note(request):
        seen.append(
            (
                request.path,
                request.headers.get("Authorization"),
                request.headers.get("Cookie"),
            )
        )

    async def ws(request):
        note(request)
        if request.headers.get("Authorization") != "Bearer T":
            raise web.HTTPUnauthorized()
        if request.headers.get("Upgrade", "").lower() != "websocket":
            return web.Response(text="fine")
        w = web.WebSocketResponse()
        await w.prepare(request)
        await w.close()
        return w

    async def redir(request):
        note(request)
        # absolute Location for the same endpoint
        raise web.HTTPMovedPermanently(request.url.with_path("/ws/"))

    app = web.Application()
    app.router.add_get("/ws", redir)
    app.router.add_get("/ws/", ws)
    runner = web.AppRunner(app)
    await runner.setup()
    site = web.TCPSite(runner, "127.0.0.1", 0)
    await site.start()
    port = site._server.sockets[0].getsockname()[1]

    failures = []

    # (a) ws:// -> http:// on the same host and port
    conn = aiohttp.TCPConnector(resolver=LoopbackResolver())
    async with aiohttp.ClientSession(connector=conn) as s:
        try:
            w = await s.ws_connect(
                f"ws://a.test:{port}/ws",
                headers={"Authorization": "Bearer T"},
            )
            await w.close()
            print("(a) handshake ok")
        except aiohttp.WSServerHandshakeError as e:
            print("(a) ws_connect failed:", e.status, e.message)
            failures.append("a")
    print("(a) server saw", seen)
    seen.clear()

    # (b) same host, other letter case
    conn = aiohttp.TCPConnector(resolver=LoopbackResolver())
    async with aiohttp.ClientSession(connector=conn) as s:
        async with s.get(
            URL(f"http://A.test:{port}/ws", encoded=True),
            headers={"Authorization": "Bearer T"},
            cookies={"sid": "1"},
        ) as r:
            print("(b) final status", r.status)
            if r.status != 200:
                failures.append("b")
    print("(b) server saw", seen)

    await runner.cleanup()
    if failures:
        print(
            "FAIL: credentials were dropped on a redirect to the same "
            "host/port/TLS endpoint:",
            failures,
        )
        return 1
    print("OK")
    return 0


sys.exit(asyncio.run(main()))
