"""C07: closing the connector "fails" a parked pool waiter with a bare asyncio.CancelledError.

BaseConnector._close_immediately() calls keyed_waiter.cancel() on every queued waiter
future.  `await fut` inside _wait_for_available_connection() therefore raises
CancelledError in a task nobody cancelled (task.cancelling() == 0), and it travels
unchanged through connect(), the TimerContext and ClientSession._request() to the caller.
Every sibling path reports the same event as ClientConnectionError("Connector is closed."):
connect() on a closed connector, a waiter that was woken just before close() (repair F118),
a connection established while close() ran.  Which one the application sees depends on
whether the request had a slot yet.

A CancelledError is not an error to asyncio: a TaskGroup / gather() child that ends with
it is treated as *cancelled* - the failure of the request is swallowed, `except
aiohttp.ClientError` / `except Exception` handlers (retry, logging, fallback) never run.
"""
import asyncio
import sys

import aiohttp
from aiohttp import web

print(aiohttp.__file__)


async def main() -> int:
    release = asyncio.Event()

    async def handler(request: web.Request) -> web.Response:
        await release.wait()
        return web.Response(text="ok")

    app = web.Application()
    app.router.add_get("/", handler)
    runner = web.AppRunner(app)
    await runner.setup()
    site = web.TCPSite(runner, "127.0.0.1", 0)
    await site.start()
    port = site._server.sockets[0].getsockname()[1]
    url = f"http://127.0.0.1:{port}/"

    session = aiohttp.ClientSession(connector=aiohttp.TCPConnector(limit=1))
    outcome = {}

    async def fetch(tag: str) -> None:
        try:
            async with session.get(url) as resp:
                outcome[tag] = await resp.text()
        except aiohttp.ClientError as e:  # what an application handles / retries / logs
            outcome[tag] = f"handled {e!r}"
        except BaseException as e:
            outcome[tag] = (
                f"UNHANDLED {e!r} (task.cancelling()={asyncio.current_task().cancelling()})"
            )
            raise

    async def closer() -> None:
        await asyncio.sleep(0.2)
        await session.close()  # e.g. application shutdown
        release.set()

    holder = asyncio.create_task(fetch("holds the only slot"))
    await asyncio.sleep(0.05)
    try:
        async with asyncio.TaskGroup() as tg:
            waiter = tg.create_task(fetch("parked waiter"))
            tg.create_task(closer())
        group = "TaskGroup finished without any error"
    except BaseException as e:  # pragma: no cover
        group = f"TaskGroup raised {e!r}"
    await asyncio.gather(holder, return_exceptions=True)

    for k, v in outcome.items():
        print(f"{k:22}: {v}")
    print(group, "| waiter.cancelled() =", waiter.cancelled())
    await runner.cleanup()

    if waiter.cancelled() or "UNHANDLED" in outcome.get("parked waiter", ""):
        print(
            "FAIL: the parked waiter was failed with CancelledError although nobody cancelled "
            "its task; the siblings get ClientConnectionError('Connector is closed.')"
        )
        return 1
    print("ok")
    return 0


sys.exit(asyncio.run(main()))
