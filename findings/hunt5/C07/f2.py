"""C07: requests that pin the same certificate (ssl=aiohttp.Fingerprint(digest), the
documented per-request usage) get a different ConnectionKey each, because Fingerprint
has identity equality/hash.  Consequences for the pool:
  * limit_per_host is not enforced: two concurrent requests to one https endpoint with
    limit_per_host=1 hold two connections at the same time;
  * nothing is ever reused: N sequential requests open N TLS connections and all N sit
    idle in the pool at the same time (one dead-weight socket per request until the
    keep-alive timeout), while the same run with one shared Fingerprint object uses 1.
"""
import asyncio
import hashlib
import os
import ssl
import sys

import aiohttp
from aiohttp import web

print(aiohttp.__file__)
HERE = os.path.dirname(os.path.dirname(os.path.abspath(aiohttp.__file__)))  # the tree under test
CRT = os.path.join(HERE, "examples", "server.crt")
KEY = os.path.join(HERE, "examples", "server.key")


async def main() -> int:
    with open(CRT) as f:
        der = ssl.PEM_cert_to_DER_cert(f.read())
    digest = hashlib.sha256(der).digest()

    live = set()  # transports with a request being handled right now
    seen = set()  # every transport the server has seen
    max_live = 0
    gate = asyncio.Event()

    async def handler(request: web.Request) -> web.Response:
        nonlocal max_live
        tr = request.transport
        seen.add(id(tr))
        live.add(tr)
        max_live = max(max_live, len(live))
        try:
            if request.path == "/slow":
                try:
                    await asyncio.wait_for(gate.wait(), 0.5)
                except asyncio.TimeoutError:
                    pass
            return web.Response(text="ok")
        finally:
            live.discard(tr)

    app = web.Application()
    app.router.add_get("/{tail:.*}", handler)
    runner = web.AppRunner(app)
    await runner.setup()
    sctx = ssl.SSLContext(ssl.PROTOCOL_TLS_SERVER)
    sctx.load_cert_chain(CRT, KEY)
    site = web.TCPSite(runner, "127.0.0.1", 0, ssl_context=sctx)
    await site.start()
    port = site._server.sockets[0].getsockname()[1]
    base = f"https://127.0.0.1:{port}"

    failures = []

    # --- 1. limit_per_host=1, two concurrent requests, equal fingerprints -------------
    conn = aiohttp.TCPConnector(limit_per_host=1)
    async with aiohttp.ClientSession(connector=conn) as session:

        async def get(path: str) -> str:
            # exactly the call shown in docs/client_reference.rst (class Fingerprint)
            async with session.get(base + path, ssl=aiohttp.Fingerprint(digest)) as r:
                return await r.text()

        await asyncio.gather(get("/slow"), get("/slow"))
        print("limit_per_host=1: max simultaneous connections in use:", max_live)
        if max_live > 1:
            failures.append(
                f"limit_per_host=1 but {max_live} connections to one endpoint were in use at once"
            )

        # --- 2. sequential requests never reuse ----------------------------------------
        seen.clear()
        for _ in range(5):
            await get("/fast")
        idle = sum(len(v) for v in conn._conns.values())
        print("5 sequential requests: connections opened:", len(seen),
              "| idle in the pool afterwards:", idle, "| distinct keys:", len(conn._conns))
        if len(seen) > 1:
            failures.append(
                f"5 sequential requests with equal fingerprints opened {len(seen)} connections; "
                f"{idle} idle sockets are parked in the pool under {len(conn._conns)} different keys"
            )

    # --- control: one shared Fingerprint object behaves -----------------------------------
    max_live = 0
    seen.clear()
    live.clear()
    fp = aiohttp.Fingerprint(digest)
    conn = aiohttp.TCPConnector(limit_per_host=1)
    async with aiohttp.ClientSession(connector=conn) as session:

        async def get2(path: str) -> str:
            async with session.get(base + path, ssl=fp) as r:
                return await r.text()

        await asyncio.gather(get2("/slow"), get2("/slow"))
        for _ in range(5):
            await get2("/fast")
        print("control (one shared Fingerprint object): max simultaneous:", max_live,
              "| connections opened:", len(seen))

    await runner.cleanup()
    if failures:
        print("FAIL")
        for f in failures:
            print(" -", f)
        return 1
    print("ok")
    return 0


sys.exit(asyncio.run(main()))
