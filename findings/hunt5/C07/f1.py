"""C07 (incomplete repair of F240): an abandoned https exchange that is given back with
release() instead of close() still ends in a *graceful* TLS shutdown.

`async with session.get(...) as resp:` + reading resp.content (iter_chunked / read(n) /
iter_any) is the documented way to stream a download.  When that block is left with the
body unfinished - sock_read timeout, task cancellation, or simply an early exit -
ClientResponse.__aexit__ calls release(), Connection.release() calls
connector._release(key, proto) with should_close=False, BaseConnector._release() then
finds protocol.should_close and calls protocol.close() -> transport.close().  The repair
for F240 (TCPConnector._release aborts when should_close=True and ssl_shutdown_timeout == 0)
only looks at the *argument*, so this path still waits for the close_notify of the peer.
If the peer has stalled (which is why the download was given up) the socket stays
ESTABLISHED for asyncio's 30 s default, in neither _acquired nor _conns: it is not counted
against limit, and `await session.close()` returns without closing it.

Here: limit=1, four downloads from a stalled TLS peer are given up one after the other.
Expected: never more than 1 open connection, none after session.close().
"""
import asyncio
import os
import socket
import ssl
import sys
import threading

import aiohttp

print(aiohttp.__file__)
HERE = os.path.dirname(os.path.dirname(os.path.abspath(aiohttp.__file__)))  # the tree under test (was: the script's worktree)
CRT = os.path.join(HERE, "examples", "server.crt")
KEY = os.path.join(HERE, "examples", "server.key")


def established_client_sockets(port: int) -> int:
    """TCP sockets of this host whose *remote* port is `port` and that are ESTABLISHED."""
    n = 0
    with open("/proc/net/tcp") as f:
        next(f)
        for line in f:
            p = line.split()
            if int(p[2].split(":")[1], 16) == port and p[3] == "01":
                n += 1
    return n


def stalled_tls_server(lsock: socket.socket, stop: threading.Event) -> None:
    """Answers with the head and 10 of 1000 body bytes, then stalls (never reads again)."""
    sctx = ssl.SSLContext(ssl.PROTOCOL_TLS_SERVER)
    sctx.load_cert_chain(CRT, KEY)
    conns = []
    lsock.settimeout(0.1)
    while not stop.is_set():
        try:
            c, _ = lsock.accept()
        except socket.timeout:
            continue
        try:
            s = sctx.wrap_socket(c, server_side=True)
            s.settimeout(2)
            buf = b""
            while b"\r\n\r\n" not in buf:
                buf += s.recv(4096)
            s.sendall(b"HTTP/1.1 200 OK\r\nContent-Length: 1000\r\n\r\n" + b"x" * 10)
            conns.append(s)
        except Exception as e:  # pragma: no cover
            print("server error", e)
    for s in conns:
        s.close()


async def main() -> int:
    lsock = socket.socket()
    lsock.bind(("127.0.0.1", 0))
    lsock.listen(16)
    port = lsock.getsockname()[1]
    stop = threading.Event()
    th = threading.Thread(target=stalled_tls_server, args=(lsock, stop), daemon=True)
    th.start()
    url = f"https://127.0.0.1:{port}/"

    connector = aiohttp.TCPConnector(limit=1)  # ssl_shutdown_timeout: default (0 = abort)
    session = aiohttp.ClientSession(
        connector=connector,
        timeout=aiohttp.ClientTimeout(total=None, sock_read=0.3),
    )

    async def download_timeout() -> str:
        try:
            async with session.get(url, ssl=False) as resp:
                async for _ in resp.content.iter_chunked(100):
                    pass
        except aiohttp.SocketTimeoutError as e:
            return f"gave up: {e!r}"
        return "completed?!"

    async def download_cancelled() -> str:
        async def go() -> None:
            async with session.get(url, ssl=False) as resp:
                async for _ in resp.content.iter_chunked(100):
                    pass

        t = asyncio.ensure_future(go())
        await asyncio.sleep(0.15)
        t.cancel()
        try:
            await t
        except asyncio.CancelledError:
            return "gave up: cancelled"
        return "completed?!"

    async def download_early_exit() -> str:
        async with session.get(url, ssl=False) as resp:
            await resp.content.read(5)
        return "gave up: left the block after 5 bytes"

    worst = 0
    for step in (download_timeout, download_cancelled, download_early_exit, download_timeout):
        res = await step()
        await asyncio.sleep(0.2)  # far more than an abort needs
        n = established_client_sockets(port)
        worst = max(worst, n)
        print(
            f"{step.__name__:20} {res:75.75} | open sockets={n} "
            f"acquired={len(connector._acquired)} pooled={sum(len(v) for v in connector._conns.values())}"
        )

    await session.close()
    await asyncio.sleep(2.0)
    after = established_client_sockets(port)
    print(f"after `await session.close()` + 2 s: open sockets={after}")

    # control: the same give-up through resp.close() (the path F240 repaired) leaves nothing
    connector2 = aiohttp.TCPConnector(limit=1)
    session2 = aiohttp.ClientSession(
        connector=connector2, timeout=aiohttp.ClientTimeout(total=None, sock_read=0.3)
    )
    try:
        async with session2.get(url, ssl=False) as resp:
            await resp.read()  # read() calls close() itself on failure
    except aiohttp.SocketTimeoutError:
        pass
    await asyncio.sleep(0.2)
    control = established_client_sockets(port) - after
    print(f"control (resp.read() -> close()): additional open sockets={control}")
    await session2.close()

    stop.set()
    th.join()
    bad = []
    if worst > 1:
        bad.append(f"limit=1 but {worst} connections made by the connector were open at the same time")
    if after:
        bad.append(f"{after} connection(s) created by the connector still ESTABLISHED 2 s after session.close() returned")
    if bad:
        print("FAIL")
        for b in bad:
            print(" -", b)
        return 1
    print("ok")
    return 0


sys.exit(asyncio.run(main()))
