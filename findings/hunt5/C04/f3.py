"""A forbidden character in a multipart part header is refused only after part of the message is on the wire.

MultipartWriter never checks part headers when they are supplied (append(),
append_payload(), or set on the returned Payload afterwards, which is the
documented way).  The only check is Payload._binary_headers, evaluated lazily:
 * by MultipartWriter.size - but size returns None at the first part of unknown
   size, before it looks at the headers of that part or of any later part;
 * by MultipartWriter.write() - part by part, in the middle of the body.
So with a streamed first part the request head and the first part are sent, then
the second part's header is refused: the peer gets a truncated chunked message and
the caller gets ClientConnectionError instead of the ValueError it gets (before
any byte is sent) when every part has a known size.
"""
import asyncio
import sys

import aiohttp

print(aiohttp.__file__)

received = []


async def handle(r: asyncio.StreamReader, w: asyncio.StreamWriter) -> None:
    data = b""
    try:
        while True:
            chunk = await asyncio.wait_for(r.read(65536), 0.5)
            if not chunk:
                break
            data += chunk
    except asyncio.TimeoutError:
        pass
    received.append(data)
    w.close()


async def attempt(port: int, first: object) -> tuple:
    mp = aiohttp.MultipartWriter("mixed", boundary="b")
    mp.append(first)
    part = mp.append("second")
    part.headers["X-Note"] = "a\r\nX-Injected: 1"
    received.clear()
    err: BaseException | None = None
    async with aiohttp.ClientSession() as s:
        try:
            async with s.post(f"http://127.0.0.1:{port}/", data=mp) as r:
                await r.read()
        except Exception as e:
            err = e
    await asyncio.sleep(0.8)
    return err, b"".join(received)


async def main() -> int:
    srv = await asyncio.start_server(handle, "127.0.0.1", 0)
    port = srv.sockets[0].getsockname()[1]

    async def gen():
        yield b"first part data"

    rc = 0
    for label, first in (("bytes first part ", b"first part data"), ("stream first part", gen())):
        err, wire = await attempt(port, first)
        print(f"{label}: {type(err).__name__}: {str(err)[:70]!r}; bytes on the wire: {len(wire)}")
        if wire:
            print("   peer received:", wire[:40], "...", wire[-60:])
            assert b"X-Injected" not in wire
            rc = 1
    if rc:
        print("FAIL: the message was refused after its head and first part had been sent")
    srv.close()
    return rc


sys.exit(asyncio.run(main()))
