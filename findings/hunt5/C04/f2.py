"""Client request with compress= and a zero-size body: Content-Encoding announced, coded body missing.

session.post(url, data=<empty file / empty BytesIO>, compress="deflate") takes the
"nothing to write" shortcut of ClientRequestBase._send(), which ends the message
with StreamWriter.set_eof().  set_eof() writes the chunked terminator but, unlike
write_eof(), never finishes the compressor that _create_writer() enabled.  The
request announces `Content-Encoding: deflate` and carries zero bytes, which is not
a deflate/zlib stream (the coding of the empty string is 8 bytes).  The very same
request sent through _write_bytes() (expect100=True, or a connection whose write
buffer is paused) carries the correct 8 bytes: what goes on the wire depends on
the path taken, not on the data.
"""
import asyncio
import io
import sys
import zlib

import aiohttp

print(aiohttp.__file__)

seen = []


async def handle(r: asyncio.StreamReader, w: asyncio.StreamWriter) -> None:
    data = b""
    sent100 = False
    while not data.endswith(b"0\r\n\r\n"):
        chunk = await r.read(65536)
        if not chunk:
            break
        data += chunk
        if not sent100 and b"100-continue" in data and b"\r\n\r\n" in data:
            sent100 = True
            w.write(b"HTTP/1.1 100 Continue\r\n\r\n")
    seen.append(data)
    w.write(b"HTTP/1.1 200 OK\r\nContent-Length: 0\r\nConnection: close\r\n\r\n")
    await w.drain()
    w.close()


def dechunk(body: bytes) -> bytes:
    out = b""
    while True:
        line, _, body = body.partition(b"\r\n")
        n = int(line, 16)
        if n == 0:
            return out
        out += body[:n]
        body = body[n + 2 :]


async def main() -> int:
    srv = await asyncio.start_server(handle, "127.0.0.1", 0)
    port = srv.sockets[0].getsockname()[1]
    url = f"http://127.0.0.1:{port}/upload"
    async with aiohttp.ClientSession() as s:
        for kw in ({}, {"expect100": True}):
            async with s.post(url, data=io.BytesIO(b""), compress="deflate", **kw) as r:
                await r.read()
    srv.close()

    rc = 0
    bodies = []
    for kw, raw in zip(("plain", "expect100"), seen):
        head, _, body = raw.partition(b"\r\n\r\n")
        hl = head.lower()
        assert b"content-encoding: deflate" in hl and b"transfer-encoding: chunked" in hl, head
        coded = dechunk(body)
        bodies.append(coded)
        try:
            plain = zlib.decompress(coded)
            print(f"{kw:10s}: Content-Encoding: deflate, body {coded!r} -> decodes to {plain!r}")
        except zlib.error as e:
            print(f"{kw:10s}: Content-Encoding: deflate, body {coded!r} -> NOT a deflate stream: {e}")
            rc = 1
    if bodies[0] != bodies[1]:
        print("FAIL: the same data is sent as two different bodies depending on the write path")
        rc = 1
    return rc


sys.exit(asyncio.run(main()))
