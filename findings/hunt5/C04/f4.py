"""DigestAuthMiddleware re-sends a consumed streaming body as an empty body.

(Adjacent to C04: the framing of the second message is truthful, but the body that
is sent is not the data the application supplied - it is silently empty.)

The middleware answers a 401 by calling handler(request) a second time with the
same ClientRequest.  A body that cannot be replayed (async generator / any
AsyncIterablePayload that was not cached by as_bytes(), i.e. every qop=auth
challenge) has been drained by the first attempt; write_with_length() of the
consumed payload writes nothing, so the authenticated request goes out as
`Transfer-Encoding: chunked` + `0\r\n\r\n`.  The redirect and the reconnect paths
of ClientSession._request() check `req._body.consumed` and fail fast ("instead of
silently sending an empty body"); the middleware retry does not.
"""
import asyncio
import sys

import aiohttp
from aiohttp import DigestAuthMiddleware, web

print(aiohttp.__file__)

seen = []


async def upload(request: web.Request) -> web.Response:
    body = await request.read()
    seen.append(("Authorization" in request.headers, body))
    if "Authorization" not in request.headers:
        return web.Response(
            status=401,
            headers={"WWW-Authenticate": 'Digest realm="r", nonce="abc", qop="auth", algorithm=MD5'},
        )
    return web.Response(text="stored %d bytes" % len(body))


async def main() -> int:
    app = web.Application()
    app.router.add_post("/", upload)
    runner = web.AppRunner(app)
    await runner.setup()
    site = web.TCPSite(runner, "127.0.0.1", 0)
    await site.start()
    port = site._server.sockets[0].getsockname()[1]

    async def gen():
        yield b"important upload"

    async with aiohttp.ClientSession(middlewares=(DigestAuthMiddleware("u", "p"),)) as s:
        async with s.post(f"http://127.0.0.1:{port}/", data=gen()) as r:
            status, text = r.status, await r.text()
    await runner.cleanup()

    print("client got:", status, repr(text))
    for authenticated, body in seen:
        print("server saw: authenticated=%s body=%r" % (authenticated, body))
    if status == 200 and seen[-1] == (True, b""):
        print("FAIL: the authenticated request carried an empty body and was accepted; no error was raised")
        return 1
    return 0


sys.exit(asyncio.run(main()))
