"""StreamResponse.write(bytearray): the caller's buffer goes to the transport by reference.

A handler that streams a file through one reusable read buffer (readinto) and a
declared Content-Length; the client reads slowly.  The body that arrives has the
right length but blocks are overwritten by later blocks.

HTTP sibling of the repaired WebSocket defect (large message handed to the
transport by reference): StreamWriter._write() passes the caller's
bytearray/memoryview straight to transport.write(); asyncio's selector transport
(Python >= 3.12) keeps a memoryview of whatever could not be sent at once, so
`await resp.write(buf)` returns while the transport still reads from `buf`.
The server is started with loop.create_server(web.Server(handler)) - the plain
asyncio transport, which is what aiohttp uses whenever the optional aiofastnet
package is not installed.
"""
import asyncio
import socket
import sys

import aiohttp
from aiohttp import web

print(aiohttp.__file__)

BLOCK = 32 * 1024
NBLOCKS = 64


def block(i: int) -> bytes:
    return (b"%08d" % i) * (BLOCK // 8)


async def handler(request: web.Request) -> web.StreamResponse:
    resp = web.StreamResponse()
    resp.content_length = BLOCK * NBLOCKS
    await resp.prepare(request)
    buf = bytearray(BLOCK)  # one read buffer, refilled for every block
    for i in range(NBLOCKS):
        buf[:] = block(i)  # stands for f.readinto(buf)
        await resp.write(buf)
    await resp.write_eof()
    return resp


async def main() -> int:
    loop = asyncio.get_running_loop()
    # the documented low-level server: web.Server is an asyncio protocol factory
    server = web.Server(handler)
    lsock = socket.socket()
    # small kernel buffers, so that a slow reader is noticed after a few blocks
    lsock.setsockopt(socket.SOL_SOCKET, socket.SO_SNDBUF, 64 * 1024)
    lsock.bind(("127.0.0.1", 0))
    srv = await loop.create_server(server, sock=lsock)
    port = srv.sockets[0].getsockname()[1]

    sock = socket.socket()
    sock.setsockopt(socket.SOL_SOCKET, socket.SO_RCVBUF, 16 * 1024)
    sock.setblocking(False)
    await loop.sock_connect(sock, ("127.0.0.1", port))
    await loop.sock_sendall(sock, b"GET / HTTP/1.1\r\nHost: x\r\nConnection: close\r\n\r\n")
    pieces = []
    while True:
        await asyncio.sleep(0.002)  # a slow reader
        chunk = await loop.sock_recv(sock, 64 * 1024)
        if not chunk:
            break
        pieces.append(chunk)
    data = b"".join(pieces)
    sock.close()
    srv.close()
    await server.shutdown(1)

    head, _, body = data.partition(b"\r\n\r\n")
    print(head.decode().splitlines()[0], "| body bytes:", len(body))
    expected = b"".join(block(i) for i in range(NBLOCKS))
    if len(body) != len(expected):
        print("length differs", len(body), len(expected))
        return 1
    bad = [i for i in range(NBLOCKS) if body[i * BLOCK:(i + 1) * BLOCK] != block(i)]
    if bad:
        i = bad[0]
        got = body[i * BLOCK:(i + 1) * BLOCK]
        off = next(k for k in range(BLOCK) if got[k] != block(i)[k])
        print(
            "FAIL: %d of %d blocks arrived with other content than was written; "
            "block %d byte %d: wrote %r, wire has %r"
            % (len(bad), NBLOCKS, i, off, block(i)[off - off % 8:off - off % 8 + 8], got[off - off % 8:off - off % 8 + 8])
        )
        return 1
    print("ok: body is the concatenation of the written data")
    return 0


sys.exit(asyncio.run(main()))
