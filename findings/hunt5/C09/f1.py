"""C09 / sibling of F264: a multipart part whose gzip/deflate data ends inside the
compressed stream is reported by BodyPartReader.read(decode=True) (repair 4403edc) but
is still delivered as a complete body by the sibling decode paths:

  * BodyPartReader.decode(data)                      (documented sync API)
  * BodyPartReaderPayload.write()                    (forwarding a received part,
                                                      MultipartWriter.append(part))
  * read_chunk() + decode_iter() to the end of part  (documented streaming API; the
                                                      reader knows the part has ended)

Exit status 1 = at least one path delivered a short body without any error.
"""

import asyncio
import gzip
import sys
import zlib

import aiohttp
from aiohttp import multipart
from aiohttp.abc import AbstractStreamWriter
from aiohttp.base_protocol import BaseProtocol
from aiohttp.streams import StreamReader

print(aiohttp.__file__)

RAW = b"0123456789abcdef" * 4000  # 64000 bytes


class Sink(AbstractStreamWriter):
    """Minimal writer: what a forwarded part would put on the wire."""

    def __init__(self) -> None:
        self.buf = bytearray()

    async def write(self, chunk):
        self.buf += chunk

    async def write_eof(self, chunk=b""):
        self.buf += chunk

    async def drain(self):
        pass

    def enable_compression(self, encoding="deflate", strategy=None):
        pass

    def enable_chunking(self):
        pass

    async def write_headers(self, status_line, headers):
        pass


def make_reader(loop, enc: str, body: bytes) -> multipart.MultipartReader:
    wire = (
        b"--b\r\nContent-Type: application/octet-stream\r\nContent-Encoding: "
        + enc.encode()
        + b"\r\n\r\n"
        + body
        + b"\r\n--b--\r\n"
    )
    proto = BaseProtocol(loop)
    proto.transport = object()  # "connected"
    proto._upgraded = True  # no HTTP parser behind this stand-alone stream
    stream = StreamReader(proto, 2**16, loop=loop)
    stream.feed_data(wire)
    stream.feed_eof()
    return multipart.MultipartReader(
        {"Content-Type": "multipart/mixed; boundary=b"}, stream
    )


async def run(loop, enc, body, mode):
    reader = make_reader(loop, enc, body)
    part = await reader.next()
    if mode == "read(decode=True)":
        return bytes(await part.read(decode=True))
    if mode == "decode(read())":
        return bytes(part.decode(await part.read()))
    if mode == "read_chunk()+decode_iter()":
        out = bytearray()
        while chunk := await part.read_chunk(4096):
            async for d in part.decode_iter(chunk):
                out += d
        return bytes(out)
    if mode == "BodyPartReaderPayload.write()":
        sink = Sink()
        await multipart.BodyPartReaderPayload(part).write(sink)
        return bytes(sink.buf)
    raise AssertionError(mode)


async def main() -> int:
    loop = asyncio.get_running_loop()
    bad = 0
    cases = {
        "gzip": gzip.compress(RAW),
        "deflate": zlib.compress(RAW),
    }
    for enc, full in cases.items():
        cut = full[: len(full) - 30]  # ends inside the compressed stream
        for mode in (
            "read(decode=True)",
            "decode(read())",
            "read_chunk()+decode_iter()",
            "BodyPartReaderPayload.write()",
        ):
            # sanity: the intact part decodes on every path
            assert await run(loop, enc, full, mode) == RAW, (enc, mode)
            try:
                out = await run(loop, enc, cut, mode)
            except Exception as exc:
                print(f"ok   {enc:8s}{mode:32s} -> {type(exc).__name__}: {exc}")
                continue
            bad += 1
            print(
                f"BAD  {enc:8s}{mode:32s} -> delivered {len(out)} of {len(RAW)} bytes "
                f"as a complete body, no error (prefix ok: {RAW.startswith(out)})"
            )
    if bad:
        print(f"\n{bad} decode path(s) deliver a truncated compressed part silently")
        return 1
    return 0


sys.exit(asyncio.run(main()))
