"""C09 / sibling of F181: BodyPartReader.read(decode=True) (and text()/json()/form())
interrupted while it DECODES the part (the decompressor runs in the executor for
anything over 4 KiB, in slabs of 64 KiB, so a highly compressible part spends nearly all
of its time there) loses the whole part: the compressed bytes were taken from the
stream, the part is marked at EOF, nothing is kept - the retry returns b"" as if the part
were empty.  The repair of F181 (f3f0ddb/53bcaa4) keeps the collected chunks only when
the interruption happens while they are being collected.

History: a 300 KB gzip part (decodes to 30 MB) is read with read(decode=True); the call
is cancelled (what asyncio.wait_for / asyncio.timeout do on expiry) after the part has
been collected and while it is being decoded; read(decode=True) is called again.
Expected: the 30 MB body (or an error).  Observed: b"" - an empty part, no error.
Exit status 1 = data silently lost.
"""

import asyncio
import gzip
import os
import sys

import aiohttp
from aiohttp import multipart
from aiohttp.base_protocol import BaseProtocol
from aiohttp.streams import StreamReader

print(aiohttp.__file__)

RAW = os.urandom(1000) * 30000  # 30 MB, compresses to ~200-300 KB


def make_part_reader(loop) -> multipart.MultipartReader:
    wire = (
        b"--b\r\nContent-Type: text/plain\r\nContent-Encoding: gzip\r\n\r\n"
        + gzip.compress(RAW, 1)
        + b"\r\n--b--\r\n"
    )
    proto = BaseProtocol(loop)
    proto.transport = object()
    proto._upgraded = True  # stand-alone stream, no HTTP parser behind it
    stream = StreamReader(proto, 2**16, loop=loop)
    stream.feed_data(wire)
    stream.feed_eof()
    return multipart.MultipartReader(
        {"Content-Type": "multipart/mixed; boundary=b"}, stream
    )


async def main() -> int:
    loop = asyncio.get_running_loop()

    # control: uninterrupted
    part = await make_part_reader(loop).next()
    assert bytes(await part.read(decode=True)) == RAW

    part = await make_part_reader(loop).next()
    task = loop.create_task(part.read(decode=True))
    # Let it collect the part and enter the decode phase (public state only).
    while not part.at_eof():
        await asyncio.sleep(0)
    await asyncio.sleep(0.005)
    assert not task.done(), "decode finished already, nothing to interrupt"
    task.cancel()  # == expiry of asyncio.wait_for(part.read(decode=True), t)
    try:
        await task
    except asyncio.CancelledError:
        print("first read(decode=True): interrupted while decoding")

    try:
        again = bytes(await part.read(decode=True))
    except Exception as exc:
        print(f"retry raised {type(exc).__name__}: {exc} (the loss is reported: fine)")
        return 0
    if again == RAW:
        print("retry returned the whole part: fine")
        return 0
    print(
        f"BAD: retry returned {len(again)} bytes instead of {len(RAW)}, no error: "
        "the part was consumed from the stream and dropped"
    )
    return 1


sys.exit(asyncio.run(main()))
