"""F327 (C10): ClientResponse.links parses each Link parameter with `^\\s*(\\S*)\\s*=\\s*(['"]?)(.*?)(\\2)\\s*$`: the lazy group tries the rest after
every character and the rest (`\\s*$`) scans the whole run of blanks before it fails - quadratic in the length of the parameter.  Found by the
`adjacent` clause of C10.regex.linear written for F326 (the sibling in helpers._LIST_ELEMENT_RE).  Exit 1 = defect present."""
import sys, time
from multidict import CIMultiDict, CIMultiDictProxy
from yarl import URL
import aiohttp
from aiohttp.client_reqrep import ClientResponse

print(aiohttp.__file__)


def cost(n):
    value = "<http://a.test/x>; rel=" + " " * n + "x" + " " * n + "y\x00z"
    r = ClientResponse.__new__(ClientResponse)
    r._headers = CIMultiDictProxy(CIMultiDict({"Link": value}))
    r._url = r._real_url = URL("http://a.test/")
    r._cache = {}
    t = time.perf_counter()
    r.links
    return time.perf_counter() - t


cost(100)
a, b = min(cost(2000) for _ in range(3)), min(cost(8000) for _ in range(3))
print(f"2000 blanks: {a:.4f} s, 8000 blanks: {b:.4f} s, ratio {b / max(a, 1e-9):.1f} for 4x the input")
sys.exit(1 if b / max(a, 1e-9) > 9 else 0)
