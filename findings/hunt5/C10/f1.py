"""C10: `Forwarded: x` makes BaseRequest.forwarded loop for ever (event loop hangs).

The request parser accepts the field (any token characters are a legal value).
BaseRequest.forwarded walks the value with

    elif not field_value[pos : field_value.find(";", pos)].strip(" \\t"):
        pos = field_value.find(";", pos) + 1          # find() == -1  ->  pos = 0

When no ";" follows, find() returns -1: the slice [pos:-1] silently drops the last
character and, if what is left is blank, `pos` is set to -1 + 1 = 0 - the scan
starts over from the beginning and never ends.  `Forwarded: x`, `Forwarded: for=a;b`
or `Forwarded: for=1.2.3.4, x` are enough.  The handler never returns, and as the
loop does not yield the whole server stops answering.
"""
import asyncio
import os
import socket
import sys
import threading
import time

import aiohttp
from aiohttp import web

print(aiohttp.__file__)
port_box: list[int] = []


def server_thread() -> None:
    async def handler(request: web.Request) -> web.Response:
        # what an application behind a reverse proxy does
        fwd = request.forwarded
        return web.Response(text=repr(fwd))

    async def run() -> None:
        app = web.Application()
        app.router.add_get("/", handler)
        runner = web.AppRunner(app)
        await runner.setup()
        site = web.TCPSite(runner, "127.0.0.1", 0)
        await site.start()
        port_box.append(site._server.sockets[0].getsockname()[1])
        await asyncio.Event().wait()

    asyncio.run(run())


threading.Thread(target=server_thread, daemon=True).start()
while not port_box:
    time.sleep(0.05)
port = port_box[0]


def get(extra: bytes, timeout: float = 5.0) -> bytes:
    s = socket.create_connection(("127.0.0.1", port), timeout=timeout)
    try:
        s.sendall(b"GET / HTTP/1.1\r\nHost: a\r\nConnection: close\r\n" + extra + b"\r\n")
        data = b""
        while True:
            chunk = s.recv(65536)
            if not chunk:
                return data
            data += chunk
    except socket.timeout:
        return b"<no answer within %d s>" % timeout
    finally:
        s.close()


print("Forwarded: for=1.2.3.4;proto=https ->", get(b"Forwarded: for=1.2.3.4;proto=https\r\n").split(b"\r\n\r\n")[-1])
print("no Forwarded header               ->", get(b"").split(b"\r\n")[0])
r1 = get(b"Forwarded: x\r\n")
print("Forwarded: x                      ->", r1.split(b"\r\n")[0])
r2 = get(b"")
print("next plain request (other socket) ->", r2.split(b"\r\n")[0])
sys.stdout.flush()
if r1.startswith(b"<no answer") and r2.startswith(b"<no answer"):
    print("VIOLATION: a 12-byte header field hangs request.forwarded; the event loop is blocked for good")
    sys.stdout.flush()
    os._exit(1)
print("ok")
os._exit(0)
