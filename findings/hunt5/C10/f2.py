"""C10: a Content-Type value that the parser accepts raises IndexError / RecursionError later.

HeadersParser accepts any VCHAR in a field value, so
    Content-Type: text/plain; charset*                       (20 bytes)
    Content-Type: text/plain; ((((( ... (((                  (600 opening parentheses)
are well-formed header fields.  request.content_type / request.charset (and
therefore request.text(), request.json(), request.post()) and
ClientResponse.content_type / .charset / .json() hand the value to
email.parser.HeaderParser (helpers.parse_content_type), which raises IndexError
for a parameter name ending in "*" without a value and recurses once per "(".

  server: the request is answered 500 Internal Server Error (not 400, not served)
  client: `await resp.json()` raises IndexError / RecursionError, not a ClientError
"""
import asyncio
import logging
import sys

import aiohttp
from aiohttp import web

print(aiohttp.__file__)
logging.getLogger("aiohttp.server").setLevel(logging.CRITICAL)

BAD = (b"text/plain; charset*", b"text/plain; " + b"(" * 600)
problems = []


async def server_side() -> None:
    async def handler(request: web.Request) -> web.Response:
        body = await request.text()  # looks up request.charset
        return web.Response(text="got " + body)

    app = web.Application()
    app.router.add_post("/", handler)
    runner = web.AppRunner(app)
    await runner.setup()
    site = web.TCPSite(runner, "127.0.0.1", 0)
    await site.start()
    port = site._server.sockets[0].getsockname()[1]
    try:
        for ct in (b"text/plain; charset=utf-8", *BAD):
            r, w = await asyncio.open_connection("127.0.0.1", port)
            w.write(
                b"POST / HTTP/1.1\r\nHost: a\r\nContent-Type: " + ct + b"\r\n"
                b"Content-Length: 2\r\nConnection: close\r\n\r\nhi"
            )
            data = await asyncio.wait_for(r.read(), 10)
            w.close()
            status = data.split(b"\r\n", 1)[0]
            print(f"server: Content-Type of {len(ct)} bytes -> {status!r}")
            if b" 500 " in status:
                problems.append(
                    f"server answered {status!r} to a well-formed request "
                    f"(Content-Type: {ct[:24]!r}{'...' if len(ct) > 24 else ''})"
                )
    finally:
        await runner.cleanup()


async def client_side(ct: bytes) -> None:
    async def serve(r: asyncio.StreamReader, w: asyncio.StreamWriter) -> None:
        await r.readuntil(b"\r\n\r\n")
        w.write(
            b"HTTP/1.1 200 OK\r\nContent-Type: " + ct.replace(b"text/plain", b"application/json") + b"\r\n"
            b"Content-Length: 2\r\nConnection: close\r\n\r\n{}"
        )
        await w.drain()
        w.close()

    srv = await asyncio.start_server(serve, "127.0.0.1", 0)
    port = srv.sockets[0].getsockname()[1]
    try:
        async with aiohttp.ClientSession() as s:
            async with s.get(f"http://127.0.0.1:{port}/") as resp:
                try:
                    print("client: resp.json() ->", await resp.json())
                except aiohttp.ClientError as e:
                    print("client: client error (fine):", type(e).__name__)
                except BaseException as e:
                    print("client: resp.json() raised", type(e).__name__)
                    problems.append(
                        f"client: resp.json() raised {type(e).__name__}, not a ClientError"
                    )
    finally:
        srv.close()
        await srv.wait_closed()


async def main() -> None:
    await server_side()
    for ct in BAD:
        await client_side(ct)


asyncio.run(main())
if problems:
    print("VIOLATION:")
    for p in problems:
        print("  -", p)
    sys.exit(1)
print("ok")
