"""C10 (extra): a non-ASCII Sec-WebSocket-Key is answered 500 instead of 400.

The parser decodes field values as UTF-8 (surrogateescape), so
    Sec-WebSocket-Key: dGhlIHNhbXBsZSBub25jZ\xc3\xa9==
reaches WebSocketResponse._handshake() as a str with a non-ASCII character.
base64.b64decode(str) raises a plain ValueError for it ("string argument should
contain only ASCII characters"), the handshake only catches binascii.Error.
"""
import asyncio
import logging
import sys

import aiohttp
from aiohttp import web

print(aiohttp.__file__)
logging.getLogger("aiohttp.server").setLevel(logging.CRITICAL)


async def main() -> int:
    async def handler(request: web.Request) -> web.StreamResponse:
        ws = web.WebSocketResponse()
        await ws.prepare(request)
        await ws.close()
        return ws

    app = web.Application()
    app.router.add_get("/", handler)
    runner = web.AppRunner(app)
    await runner.setup()
    site = web.TCPSite(runner, "127.0.0.1", 0)
    await site.start()
    port = site._server.sockets[0].getsockname()[1]
    bad = 0
    try:
        for key in (b"dGhlIHNhbXBsZSBub25jZQ==", b"not-base64!", b"dGhlIHNhbXBsZSBub25jZ\xc3\xa9=="):
            r, w = await asyncio.open_connection("127.0.0.1", port)
            w.write(
                b"GET / HTTP/1.1\r\nHost: a\r\nUpgrade: websocket\r\nConnection: Upgrade\r\n"
                b"Sec-WebSocket-Version: 13\r\nSec-WebSocket-Key: " + key + b"\r\n\r\n"
            )
            data = await asyncio.wait_for(r.readuntil(b"\r\n"), 10)
            w.close()
            print(f"Sec-WebSocket-Key: {key!r} -> {data.strip()!r}")
            if b" 500 " in data:
                bad += 1
    finally:
        await runner.cleanup()
    if bad:
        print("VIOLATION: malformed handshake answered 500 (ValueError out of base64.b64decode), not 400")
        return 1
    print("ok")
    return 0


sys.exit(asyncio.run(main()))
