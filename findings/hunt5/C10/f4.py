"""C10: quadratic regex in HeadersDictProxy.getall() (request.forwarded, ClientResponse.links).

helpers._LIST_ELEMENT_RE splits a list-valued header with
    (?: ... | [^,] )+?  [ \\t]* (?:,|\\Z)
The lazy group grows by one character and each time `[ \\t]*` runs over the rest
of a blank run before `(?:,|\\Z)` fails: a field value `for=a<n blanks>b` costs
n^2/2 steps.  The value is a legal field value (blanks inside a value are kept by
the parser) and is within max_field_size.

request.forwarded (server) and ClientResponse.links (client) call getall().
Forwarded may be repeated, so one request within the default limits
(125 fields x 8190 bytes) keeps the event loop busy for tens of seconds.
"""
import asyncio
import sys
import time

import aiohttp
from aiohttp import web

print(aiohttp.__file__)


async def cost(fields: list[bytes]) -> float:
    spent = []

    async def handler(request: web.Request) -> web.Response:
        t = time.process_time()
        request.forwarded
        spent.append(time.process_time() - t)
        return web.Response(text="ok")

    app = web.Application()
    app.router.add_get("/", handler)
    runner = web.AppRunner(app)
    await runner.setup()
    site = web.TCPSite(runner, "127.0.0.1", 0)
    await site.start()
    port = site._server.sockets[0].getsockname()[1]
    try:
        r, w = await asyncio.open_connection("127.0.0.1", port)
        w.write(
            b"GET / HTTP/1.1\r\nHost: a\r\nConnection: close\r\n"
            + b"".join(b"Forwarded: " + f + b"\r\n" for f in fields)
            + b"\r\n"
        )
        data = await r.read()
        w.close()
        assert data.startswith(b"HTTP/1.1 200"), data[:100]
    finally:
        await runner.cleanup()
    return spent[0]


async def main() -> int:
    t2 = await cost([b"for=a" + b" " * 2000 + b"b"])
    t8 = await cost([b"for=a" + b" " * 8000 + b"b"])
    t20 = await cost([b"for=a" + b" " * 8000 + b"b"] * 20)
    print(f"request.forwarded, one field with 2000 blanks: {t2:.3f} s CPU")
    print(f"request.forwarded, one field with 8000 blanks: {t8:.3f} s CPU ({t8 / t2:.1f}x for 4x the bytes)")
    print(f"request.forwarded, 20 such fields (160 kB request): {t20:.2f} s CPU; 125 fields -> ~{t20 * 125 / 20:.0f} s")
    if t8 > 8 * t2 and t8 > 0.05:
        print("VIOLATION: super-linear work on a header field within max_field_size")
        return 1
    print("ok")
    return 0


sys.exit(asyncio.run(main()))
