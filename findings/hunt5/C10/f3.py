"""C10: quadratic work on a Content-Type header that is within every limit.

The response parser (lax) accepts repeated Content-Type fields, HeadersDictProxy
joins them with ", ", and ClientResponse.content_type / .charset / .json() feed
the joined value to email.parser.HeaderParser (helpers.parse_content_type),
whose running time is quadratic in the number of ';' tokens.

Every field here is 8011 bytes (< max_field_size 8190) and there are at most 4
of them (max_headers is 128):  4x the bytes cost ~16x the CPU time.  With the 126
fields the defaults admit (1 MB of headers) a single `await resp.json()` blocks
the event loop for hours.  On the server one 8 kB Content-Type costs the loop
about a second per request in request.text() / .json() / .post().
"""
import asyncio
import sys
import time

import aiohttp
from aiohttp import web

print(aiohttp.__file__)

def field(tag: bytes) -> bytes:
    # parse_content_type() is lru_cached: every measurement uses its own value
    f = b"Content-Type: text/x-" + tag + b";" * 7980 + b"\r\n"
    assert len(f) - 2 < 8190
    return f


async def client_cost(k: int) -> float:
    async def serve(r: asyncio.StreamReader, w: asyncio.StreamWriter) -> None:
        await r.readuntil(b"\r\n\r\n")
        w.write(b"HTTP/1.1 200 OK\r\n" + field(b"c%d" % k) * k + b"Content-Length: 2\r\n\r\n{}")
        await w.drain()
        w.close()

    srv = await asyncio.start_server(serve, "127.0.0.1", 0)
    port = srv.sockets[0].getsockname()[1]
    try:
        async with aiohttp.ClientSession() as s:
            async with s.get(f"http://127.0.0.1:{port}/") as resp:
                await resp.read()
                t = time.process_time()
                resp.content_type  # what resp.json() looks at first
                return time.process_time() - t
    finally:
        srv.close()
        await srv.wait_closed()


async def server_cost() -> float:
    spent = []

    async def handler(request: web.Request) -> web.Response:
        t = time.process_time()
        await request.text()
        spent.append(time.process_time() - t)
        return web.Response(text="ok")

    app = web.Application()
    app.router.add_post("/", handler)
    runner = web.AppRunner(app)
    await runner.setup()
    site = web.TCPSite(runner, "127.0.0.1", 0)
    await site.start()
    port = site._server.sockets[0].getsockname()[1]
    try:
        r, w = await asyncio.open_connection("127.0.0.1", port)
        w.write(
            b"POST / HTTP/1.1\r\nHost: a\r\n" + field(b"srv")
            + b"Content-Length: 2\r\nConnection: close\r\n\r\nhi"
        )
        data = await r.read()
        w.close()
        print("server answered", data.split(b"\r\n", 1)[0])
    finally:
        await runner.cleanup()
    return spent[0]


async def main() -> int:
    t_srv = await server_cost()
    print(f"server: request.text() with one 8 kB Content-Type: {t_srv:.2f} s CPU in the event loop")
    t1 = await client_cost(1)
    t4 = await client_cost(4)
    print(f"client: resp.content_type, 1 field ( 8 kB): {t1:.2f} s CPU")
    print(f"client: resp.content_type, 4 fields (32 kB): {t4:.2f} s CPU  ({t4 / t1:.1f}x for 4x the bytes)")
    if t4 > 8 * t1 and t4 > 1.0:
        print(
            "VIOLATION: super-linear work on header fields within max_field_size/"
            f"max_headers; 126 such fields extrapolate to {t4 * (126 / 4) ** 2 / 3600:.1f} h"
        )
        return 1
    print("ok")
    return 0


sys.exit(asyncio.run(main()))
