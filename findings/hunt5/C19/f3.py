"""C19 / incomplete repair of F264 (commit 4403edc): a part whose gzip/deflate data ends
inside the compressed stream is reported by read(decode=True) only.  The other decoding
paths still hand out the shortened body as if it were complete:

  * part.decode(await part.read())          - the way docs/multipart.rst shows
  * BodyPartReaderPayload.write()           - a received part passed on as a payload
                                              (session.post(data=part), mpwriter.append(part))
"""
import asyncio
import gzip
import sys
import zlib
from unittest import mock

import aiohttp
from aiohttp import hdrs, multipart, streams
from aiohttp.base_protocol import BaseProtocol

print(aiohttp.__file__)

ORIGINAL = b"".join(b"record %05d;" % i for i in range(2000))


class Buf:
    def __init__(self) -> None:
        self.data = bytearray()

    async def write(self, chunk: bytes) -> None:
        self.data.extend(chunk)


def part_of(encoding: str, data: bytes) -> multipart.BodyPartReader:
    body = (
        b"--b\r\nContent-Encoding: " + encoding.encode() + b"\r\n\r\n" + data + b"\r\n--b--\r\n"
    )
    proto = mock.Mock(spec=BaseProtocol)
    proto._reading_paused = False
    stream = streams.StreamReader(proto, 2**16, loop=asyncio.get_running_loop())
    stream.feed_data(body)
    stream.feed_eof()
    return multipart.MultipartReader(
        {hdrs.CONTENT_TYPE: "multipart/mixed; boundary=b"}, stream
    )


async def run(api: str, encoding: str, data: bytes) -> str:
    reader = part_of(encoding, data)
    part = await reader.next()
    try:
        if api == "read(decode=True)":
            got = bytes(await part.read(decode=True))
        elif api == "decode(read())":
            got = bytes(part.decode(await part.read()))
        else:
            buf = Buf()
            await multipart.BodyPartReaderPayload(part).write(buf)
            got = bytes(buf.data)
    except Exception as exc:
        return "error: %r" % exc
    if got == ORIGINAL:
        return "complete body"
    return "SHORT BODY delivered as complete: %d of %d bytes" % (len(got), len(ORIGINAL))


async def main() -> int:
    bad = 0
    for encoding, comp in (("gzip", gzip.compress(ORIGINAL)), ("deflate", zlib.compress(ORIGINAL))):
        truncated = comp[: len(comp) // 2]
        for api in ("read(decode=True)", "decode(read())", "BodyPartReaderPayload.write"):
            assert await run(api, encoding, comp) == "complete body"
            res = await run(api, encoding, truncated)
            print("%-8s %-28s %s" % (encoding, api, res))
            bad += res.startswith("SHORT")
    if bad:
        print("FAIL: %d decoding paths accepted a part cut inside its compressed stream" % bad)
        return 1
    print("ok")
    return 0


sys.exit(asyncio.run(main()))
