"""C19 / round trip of field names: parse_content_disposition() strips every leading
"/" and "\\" from EVERY parameter value, not only from filename (where it is meant to
drop a client-side directory).  A FormData field called "/a" is read back as "a", "/"
and "\\" as "" - with the default quote_fields=True, with quote_fields=False and in the
name*= (RFC 5987) form.  Two distinct fields collapse into one key.
"""
import asyncio
import sys
from unittest import mock

import aiohttp
from aiohttp import FormData, hdrs, multipart, streams
from aiohttp.base_protocol import BaseProtocol

print(aiohttp.__file__)


class Buf:
    def __init__(self) -> None:
        self.data = bytearray()

    async def write(self, chunk: bytes) -> None:
        self.data.extend(chunk)


async def names_read_back(names, quote_fields):
    form = FormData(quote_fields=quote_fields, default_to_multipart=True)
    for i, name in enumerate(names):
        form.add_field(name, "v%d" % i)
    writer = form()
    buf = Buf()
    await writer.write(buf)
    proto = mock.Mock(spec=BaseProtocol)
    proto._reading_paused = False
    stream = streams.StreamReader(proto, 2**16, loop=asyncio.get_running_loop())
    stream.feed_data(bytes(buf.data))
    stream.feed_eof()
    reader = multipart.MultipartReader(
        {hdrs.CONTENT_TYPE: writer.headers[hdrs.CONTENT_TYPE]}, stream
    )
    out = []
    while (part := await reader.next()) is not None:
        out.append((part.name, part.headers[hdrs.CONTENT_DISPOSITION]))
        await part.read()
    return out


async def main() -> int:
    names = ["a", "/a", "/", "\\\\host\\share", "/café", "items/0/id"]
    bad = 0
    for quote_fields in (True, False):
        got = await names_read_back(names, quote_fields)
        for want, (name, header) in zip(names, got):
            ok = name == want
            bad += not ok
            print(
                "quote_fields=%-5s sent %-18r read %-18r %s   [%s]"
                % (quote_fields, want, name, "ok" if ok else "WRONG", header)
            )
    if bad:
        print("FAIL: %d field names were not read back as they were written" % bad)
        return 1
    print("ok")
    return 0


sys.exit(asyncio.run(main()))
