"""C19 / termination: BodyPartReader.readline() never reports the end of a part whose
closing boundary is missing (truncated body).  at_eof() stays False and readline()
returns b"" for ever WITHOUT suspending, so the natural loop

    while not part.at_eof():
        line = await part.readline()

spins and blocks the whole event loop.  read_chunk() on the same bytes raises
ValueError("Reading after EOF").  Shown against a real web.Application: one POST with a
correct Content-Length but no closing delimiter.
"""
import asyncio
import sys

import aiohttp
from aiohttp import web

print(aiohttp.__file__)

CAP = 200_000  # a correct reader needs 4 calls for this body
BODY = (
    b"--b\r\n"
    b'Content-Disposition: form-data; name="f"\r\n'
    b"\r\n"
    b"line1\r\nline2\r\nline3"  # the closing "\r\n--b--\r\n" never comes
)
result = {}


async def by_line(request: web.Request) -> web.Response:
    reader = await request.multipart()
    part = await reader.next()
    calls = 0
    lines = []
    while not part.at_eof():
        calls += 1
        if calls > CAP:  # only so that this script ends
            break
        lines.append(await part.readline())
    result["readline"] = (calls, lines[:5])
    return web.Response(text="ok")


async def by_chunk(request: web.Request) -> web.Response:
    reader = await request.multipart()
    part = await reader.next()
    calls = 0
    try:
        while not part.at_eof():
            calls += 1
            await part.read_chunk()
        result["read_chunk"] = (calls, "no error")
    except ValueError as exc:
        result["read_chunk"] = (calls, repr(exc))
    return web.Response(text="ok")


async def send(port: int, path: str) -> None:
    r, w = await asyncio.open_connection("127.0.0.1", port)
    w.write(
        b"POST %s HTTP/1.1\r\nHost: x\r\nConnection: close\r\n"
        b"Content-Type: multipart/form-data; boundary=b\r\n"
        b"Content-Length: %d\r\n\r\n" % (path.encode(), len(BODY)) + BODY
    )
    await w.drain()
    await r.read()
    w.close()


async def main() -> int:
    app = web.Application()
    app.router.add_post("/line", by_line)
    app.router.add_post("/chunk", by_chunk)
    runner = web.AppRunner(app)
    await runner.setup()
    site = web.TCPSite(runner, "127.0.0.1", 0)
    await site.start()
    port = site._server.sockets[0].getsockname()[1]
    await send(port, "/chunk")
    await send(port, "/line")
    await runner.cleanup()

    print("read_chunk loop:", result["read_chunk"])
    calls, lines = result["readline"]
    print("readline loop  : %d calls, first results %r" % (calls, lines))
    if calls > CAP:
        print(
            "FAIL: the body ended without a closing boundary; read_chunk() reports it, "
            "readline() returned b'' %d times with at_eof() still False - the loop never "
            "ends and never yields to the event loop" % (calls - 3)
        )
        return 1
    print("ok")
    return 0


sys.exit(asyncio.run(main()))
