"""C19 / declared size: MultipartWriter._part_encodings() sets a part's Content-Length
whenever the part's size is known, but never takes it away again when the size is NOT
known any more.  A nested MultipartWriter appended while (still) of known size keeps that
Content-Length after a part without a size (base64 / gzip / async iterable / pipe) is
added to it: the header that goes out declares 9 bytes for a body of several hundred.

    root = MultipartWriter("mixed");  sub = MultipartWriter("related")
    root.append(sub)                      # sub.size == 9 -> "Content-Length: 9" stored
    sub.append(data, {"Content-Transfer-Encoding": "base64"})   # sub.size is None now
"""
import asyncio
import re
import sys

import aiohttp
from aiohttp import multipart

print(aiohttp.__file__)


class Buf:
    def __init__(self) -> None:
        self.data = bytearray()

    async def write(self, chunk: bytes) -> None:
        self.data.extend(chunk)


async def declared_and_written(fill_first: bool, via_as_bytes: bool):
    root = multipart.MultipartWriter("mixed", boundary="root")
    sub = multipart.MultipartWriter("related", boundary="sub")
    if not fill_first:
        root.append(sub)
    sub.append(b"x" * 300, {"Content-Transfer-Encoding": "base64"})
    sub.append(b"plain")
    if fill_first:
        root.append(sub)
    if via_as_bytes:
        body = await root.as_bytes()
    else:
        buf = Buf()
        await root.write(buf)
        body = bytes(buf.data)
    head, _, rest = body.partition(b"\r\n\r\n")
    written = rest[: rest.rindex(b"\r\n--root--")]
    m = re.search(rb"Content-Length: (\d+)", head)
    return (int(m.group(1)) if m else None), len(written), head


async def main() -> int:
    bad = 0
    for fill_first in (True, False):
        for via_as_bytes in (False, True):
            declared, written, head = await declared_and_written(fill_first, via_as_bytes)
            ok = declared is None or declared == written
            bad += not ok
            print(
                "%-28s %-10s nested part declares Content-Length %-5s body written %4d bytes  %s"
                % (
                    "sub filled, then appended" if fill_first else "sub appended, then filled",
                    "as_bytes()" if via_as_bytes else "write()",
                    declared,
                    written,
                    "ok" if ok else "WRONG",
                )
            )
    if bad:
        print("FAIL: the Content-Length of the nested part is not the number of bytes written")
        return 1
    print("ok")
    return 0


sys.exit(asyncio.run(main()))
