"""Server WebSocket handshake: a Sec-WebSocket-Key with a non-ASCII byte is
answered 500 Internal Server Error instead of 400 Bad Request.

_handshake() guards base64.b64decode(key) with `except binascii.Error`, but for
a str with non-ASCII characters b64decode() raises a plain ValueError ("string
argument should contain only ASCII characters"), which is not a binascii.Error.
Sibling of the repaired "handshake rejected over an undecodable header value"
(Upgrade / Connection / Sec-WebSocket-Version were repaired, the key was not).
"""
import asyncio
import sys

import aiohttp
from aiohttp import web

print(aiohttp.__file__)


async def main() -> int:
    async def handler(request: web.Request) -> web.WebSocketResponse:
        ws = web.WebSocketResponse()
        await ws.prepare(request)
        await ws.close()
        return ws

    app = web.Application()
    app.router.add_get("/", handler)
    runner = web.AppRunner(app)
    await runner.setup()
    site = web.TCPSite(runner, "127.0.0.1", 0)
    await site.start()
    port = site._server.sockets[0].getsockname()[1]

    async def status_for(key: bytes) -> bytes:
        r, w = await asyncio.open_connection("127.0.0.1", port)
        w.write(
            b"GET / HTTP/1.1\r\nHost: x\r\nUpgrade: websocket\r\n"
            b"Connection: Upgrade\r\nSec-WebSocket-Version: 13\r\n"
            b"Sec-WebSocket-Key: " + key + b"\r\n\r\n"
        )
        line = await asyncio.wait_for(r.readline(), 5)
        w.close()
        return line.strip()

    rc = 0
    for key in (
        b"not base64!",  # control: binascii.Error -> 400
        b"dGhlIHNhbXBsZSBub25jZQ=\xff",  # undecodable byte
        "dGhlIHNhbXBsZSBub25jZé==".encode(),  # valid UTF-8, not ASCII
    ):
        status = await status_for(key)
        print(key, "->", status)
        if not status.startswith(b"HTTP/1.1 400"):
            rc = 1
    await runner.cleanup()
    return rc


rc = asyncio.run(main())
if rc:
    print("FAIL: a malformed Sec-WebSocket-Key was not answered 400")
sys.exit(rc)
