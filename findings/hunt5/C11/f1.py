"""permessage-deflate negotiation: a window-bits parameter with more than 4300
digits makes ws_ext_parse() raise a bare ValueError (int() digit limit).

* server role: the handshake code promises "Server side always get return with
  no exception. If something happened, just drop compress extension" - instead
  the upgrade request is answered 500 Internal Server Error.
* client role: ws_connect() promises WSServerHandshakeError (a ClientError) for
  a bad extension parameter ("Invalid window size") - instead a bare ValueError
  leaves ws_connect().

The header (about 5 kB) is well inside the default max_field_size of 8190.
"""
import asyncio
import base64
import hashlib
import sys

import aiohttp
from aiohttp import web
from aiohttp._websocket.helpers import WS_KEY

print(aiohttp.__file__)
DIGITS = "1" * 5000
problems = []


async def server_role() -> None:
    async def handler(request: web.Request) -> web.WebSocketResponse:
        ws = web.WebSocketResponse()
        await ws.prepare(request)
        await ws.close()
        return ws

    app = web.Application()
    app.router.add_get("/", handler)
    runner = web.AppRunner(app)
    await runner.setup()
    site = web.TCPSite(runner, "127.0.0.1", 0)
    await site.start()
    port = site._server.sockets[0].getsockname()[1]

    async def status_for(ext: str) -> bytes:
        r, w = await asyncio.open_connection("127.0.0.1", port)
        w.write(
            (
                "GET / HTTP/1.1\r\nHost: x\r\nUpgrade: websocket\r\n"
                "Connection: Upgrade\r\nSec-WebSocket-Version: 13\r\n"
                "Sec-WebSocket-Key: dGhlIHNhbXBsZSBub25jZQ==\r\n"
                f"Sec-WebSocket-Extensions: {ext}\r\n\r\n"
            ).encode()
        )
        line = await asyncio.wait_for(r.readline(), 5)
        w.close()
        return line.strip()

    # an unsupported window size is declined, the upgrade still succeeds
    ok = await status_for("permessage-deflate; server_max_window_bits=99")
    print("server, server_max_window_bits=99      ->", ok)
    bad = await status_for(f"permessage-deflate; server_max_window_bits={DIGITS}")
    print("server, server_max_window_bits=<5000 digits> ->", bad)
    if not ok.startswith(b"HTTP/1.1 101"):
        problems.append("control case did not upgrade")
    if not (bad.startswith(b"HTTP/1.1 101") or bad.startswith(b"HTTP/1.1 400")):
        problems.append(f"server answered {bad!r} to an over-long window-bits value")
    await runner.cleanup()


async def client_role() -> None:
    async def handle(reader: asyncio.StreamReader, writer: asyncio.StreamWriter) -> None:
        head = await reader.readuntil(b"\r\n\r\n")
        key = [
            line.split(b":", 1)[1].strip()
            for line in head.split(b"\r\n")
            if line.lower().startswith(b"sec-websocket-key")
        ][0]
        accept = base64.b64encode(hashlib.sha1(key + WS_KEY).digest())
        writer.write(
            b"HTTP/1.1 101 Switching Protocols\r\nUpgrade: websocket\r\n"
            b"Connection: upgrade\r\nSec-WebSocket-Accept: " + accept + b"\r\n"
            b"Sec-WebSocket-Extensions: permessage-deflate; client_max_window_bits="
            + DIGITS.encode()
            + b"\r\n\r\n"
        )
        await writer.drain()
        try:
            await reader.read()
        except asyncio.CancelledError:
            pass
        writer.close()

    srv = await asyncio.start_server(handle, "127.0.0.1", 0)
    port = srv.sockets[0].getsockname()[1]
    async with aiohttp.ClientSession() as session:
        try:
            ws = await session.ws_connect(f"http://127.0.0.1:{port}/", compress=15)
        except aiohttp.ClientError as exc:
            print("client ->", type(exc).__name__, "(fine)")
        except Exception as exc:
            print("client ->", type(exc).__name__, str(exc)[:70])
            problems.append(
                f"ws_connect() raised {type(exc).__name__}, not a ClientError"
            )
        else:
            await ws.close()
            problems.append("client accepted the parameter")
    srv.close()
    await srv.wait_closed()


async def main() -> None:
    await server_role()
    await client_role()


asyncio.run(main())
if problems:
    print("FAIL:", "; ".join(problems))
    sys.exit(1)
print("ok")
