import asyncio, random, sys, zlib
import aiohttp
from aiohttp._websocket.writer import WebSocketWriter
from aiohttp._websocket.reader import WebSocketReader, WebSocketDataQueue
from aiohttp._websocket.models import WSMsgType
from aiohttp.base_protocol import BaseProtocol


class Tr(asyncio.Transport):
    def __init__(self):
        super().__init__()
        self.buf = bytearray()
        self.closing = False
        self.paused = 0
        self.resumed = 0
    def write(self, data):
        self.buf += data
    def is_closing(self):
        return self.closing
    def get_write_buffer_size(self):
        return 0
    def pause_reading(self):
        self.paused += 1
    def resume_reading(self):
        self.resumed += 1
    def close(self):
        self.closing = True


def make_writer(loop, **kw):
    tr = Tr()
    proto = BaseProtocol(loop)
    proto.transport = tr
    w = WebSocketWriter(proto, tr, **kw)
    return w, tr, proto


def make_reader(loop, compress=True, max_msg_size=0, decode_text=True, limit=2**16):
    tr = Tr()
    proto = BaseProtocol(loop)
    proto.transport = tr
    proto._upgraded = True
    q = WebSocketDataQueue(proto, limit, loop=loop)
    r = WebSocketReader(q, max_msg_size, compress=compress, decode_text=decode_text)
    return r, q, proto, tr


def drain(q):
    out = []
    while q._buffer:
        out.append(q._read_from_buffer())
    return out
