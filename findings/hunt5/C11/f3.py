"""EMULATED - the Python 3.10 / 3.11 branch of WebSocketWriter.send_frame().

aiohttp supports Python >= 3.10.  For a large (> 16 KiB) compressed message
send_frame() creates the shielded task that takes the send lock with
`asyncio.Task(..., eager_start=True)` on 3.12+, but with `loop.create_task()`
on 3.10/3.11.  That task has not started (so it does not hold or queue for the
lock) when send_frame() suspends.  A close() issued by another task in the
same loop iteration finds the lock free, writes the Close frame, and the data
frame is written AFTER Close: the repair "the Close frame overtook compressed
messages already inside send_frame()" only holds on 3.12+.

Only /venv/bin/python (3.12) is available here, so this script makes the
writer module see sys.version_info == (3, 11) to run the other branch of the
UNMODIFIED code; nothing else is patched.  Without the emulation (argument
"native") the order is correct on 3.12.
"""
import asyncio
import os
import sys

sys.path.insert(0, os.path.dirname(__file__))
import aiohttp._websocket.writer as wmod
from harness import WSMsgType, aiohttp, drain, make_reader, make_writer

print(aiohttp.__file__)


class Sys311:
    version_info = (3, 11, 7, "final", 0)

    def __getattr__(self, name):
        return getattr(sys, name)


async def main() -> int:
    if sys.argv[1:] != ["native"]:
        wmod.sys = Sys311()
    loop = asyncio.get_running_loop()
    w, tr, _ = make_writer(loop, compress=15)
    r, q, _, _ = make_reader(loop, compress=True, limit=2**40)
    sender = asyncio.create_task(w.send_frame(b"x" * 100_000, WSMsgType.BINARY))
    closer = asyncio.create_task(w.close(1000, b"bye"))
    res = await asyncio.gather(sender, closer, return_exceptions=True)
    print("send_frame ->", res[0], " close ->", res[1])
    r.feed_data(bytes(tr.buf))
    order = [m.type.name for m in drain(q)]
    print("frames on the wire:", order)
    if order != ["BINARY", "CLOSE"]:
        print("FAIL: a data frame was written after the Close frame")
        return 1
    return 0


sys.exit(asyncio.run(main()))
