"""C05 / sibling of F169: a response built from a *raised* web.HTTPException that
fails to start is not answered at all - the connection is dropped without any
response - while the very same response *returned* by the handler is answered
500 (the repair of F169 wrapped only the `else:` branch of _handle_request()).

Trigger used here: a header value that the header-injection guard of the
serialiser refuses (a decoded query parameter echoed into WWW-Authenticate).
"""
import asyncio
import logging
import sys

import aiohttp
from aiohttp import web

print("aiohttp from", aiohttp.__file__)
logging.disable(logging.CRITICAL)


async def handler(request: web.Request) -> web.StreamResponse:
    challenge = 'Bearer realm="%s"' % request.query.get("realm", "api")
    if request.path == "/raise":
        # the documented idiom
        raise web.HTTPUnauthorized(headers={"WWW-Authenticate": challenge})
    return web.Response(status=401, headers={"WWW-Authenticate": challenge})


async def ask(port: int, target: bytes) -> tuple[bytes, bool]:
    r, w = await asyncio.open_connection("127.0.0.1", port)
    w.write(b"GET " + target + b" HTTP/1.1\r\nHost: x\r\n\r\n")
    out, closed = b"", False
    try:
        while True:
            d = await asyncio.wait_for(r.read(65536), 0.5)
            if not d:
                closed = True
                break
            out += d
    except asyncio.TimeoutError:
        pass
    w.close()
    return out, closed


async def main() -> int:
    escaped = []
    asyncio.get_running_loop().set_exception_handler(lambda l, c: escaped.append(c))
    app = web.Application()
    app.router.add_get("/raise", handler)
    app.router.add_get("/return", handler)
    runner = web.AppRunner(app)
    await runner.setup()
    site = web.TCPSite(runner, "127.0.0.1", 0)
    await site.start()
    port = site._server.sockets[0].getsockname()[1]

    results = {}
    for target in (b"/return?realm=ok", b"/raise?realm=ok", b"/return?realm=a%0Ab", b"/raise?realm=a%0Ab"):
        out, closed = await ask(port, target)
        status = out.split(b"\r\n", 1)[0]
        results[target] = (status, closed)
        print(f"{target.decode():24} -> status line {status!r:40} closed={closed}")
    await runner.cleanup()

    ret = results[b"/return?realm=a%0Ab"]
    rai = results[b"/raise?realm=a%0Ab"]
    if ret[0].startswith(b"HTTP/1.1 500") and rai[0] == b"":
        print(
            "VIOLATION: the request whose handler *raises* the HTTPException is never "
            "answered (connection dropped, no bytes), the same response *returned* is "
            "answered 500. finish_response() in the `except HTTPException` branch of "
            "RequestHandler._handle_request() is not protected."
        )
        return 1
    print("ok: both spellings are answered")
    return 0


sys.exit(asyncio.run(main()))
