"""C05 / sibling of F29: a connection whose request was answered before its body
arrived ("lingering") is not released when the peer disconnects.

connection_lost() wakes start() only when it idles in `self._waiter`
(force_close() cancels that future) or fails the payload of the request *being
handled*; a start() that is reading the rest of an unread body
(`await payload.readany()` of the lingering loop) is woken by nobody: the task,
the request, its StreamReader and the entry in Server.connections stay for the
whole lingering_time (10 s) after the socket is gone.  Because connection_lost()
also drops `_task_handler` when no handler is running, shutdown() cannot cancel
that task either: it outlives AppRunner.cleanup().
"""
import asyncio
import logging
import sys
import time

import aiohttp
from aiohttp import web

print("aiohttp from", aiohttp.__file__)
logging.disable(logging.CRITICAL)


async def handler(request: web.Request) -> web.Response:
    # e.g. an auth / validation failure decided on the headers alone
    return web.Response(status=403, text="no upload for you")


async def main() -> int:
    app = web.Application()
    app.router.add_post("/upload", handler)
    runner = web.AppRunner(app)  # lingering_time defaults to 10 s
    await runner.setup()
    site = web.TCPSite(runner, "127.0.0.1", 0)
    await site.start()
    port = site._server.sockets[0].getsockname()[1]

    r, w = await asyncio.open_connection("127.0.0.1", port)
    w.write(
        b"POST /upload HTTP/1.1\r\nHost: x\r\nContent-Length: 100000\r\n\r\n" + b"x" * 10
    )
    head = await r.read(1000)
    print("client got:", head.split(b"\r\n", 1)[0])
    w.close()  # the client gives up on the upload and disconnects
    await w.wait_closed()
    await asyncio.sleep(1.0)

    bad = False
    conns = runner.server.connections
    print("1 s after the disconnect the server still tracks:", conns)
    if conns:
        bad = True

    t0 = time.monotonic()
    await runner.cleanup()
    print("runner.cleanup() returned after %.2f s" % (time.monotonic() - t0))
    left = [t for t in asyncio.all_tasks() if t is not asyncio.current_task()]
    print("tasks alive after cleanup():", left)
    if left:
        bad = True
        t0 = time.monotonic()
        while [t for t in asyncio.all_tasks() if t is not asyncio.current_task()]:
            await asyncio.sleep(0.1)
        print("... the task went away %.1f s later (lingering_time)" % (time.monotonic() - t0))

    if bad:
        print(
            "VIOLATION: RequestHandler.start() keeps lingering for a body that can no "
            "longer arrive: connection_lost() neither wakes nor cancels it, shutdown() "
            "has lost its task, so it survives the disconnect and cleanup() by lingering_time."
        )
        return 1
    print("ok: nothing left after the disconnect")
    return 0


sys.exit(asyncio.run(main()))
