"""F20 (C11): per-message `compress=` override under context takeover.   cd /repo && PYTHONPATH=/repo /venv/bin/python /verif/findings/F20.py
Three binary messages: shared context, per-message override, shared context again; the third repeats parts of the first two.
A reader with the negotiated parameters must deliver identical payloads.  Exit 1 otherwise."""
import asyncio
import random
from unittest import mock

import aiohttp
from aiohttp._websocket.reader import WebSocketDataQueue, WebSocketReader
from aiohttp._websocket.writer import WebSocketWriter
from aiohttp.base_protocol import BaseProtocol
from aiohttp.http_websocket import WSMsgType

print(aiohttp.__file__)


async def main():
    loop = asyncio.get_running_loop()
    out = bytearray()
    transport = mock.Mock()
    transport.write = lambda d: out.extend(d)
    transport.is_closing = lambda: False
    proto = mock.Mock()
    proto._paused = False
    proto._drain_helper = mock.AsyncMock()
    w = WebSocketWriter(proto, transport, compress=15, notakeover=False, use_mask=False)
    rproto = BaseProtocol(loop)
    rproto.transport = mock.Mock()
    q = WebSocketDataQueue(rproto, 2**16, loop=loop)
    rd = WebSocketReader(q, 4 * 1024 * 1024, True, False)
    random.seed(1)
    msgs = [bytes(random.getrandbits(8) for _ in range(40)) for _ in range(3)]
    msgs[2] = msgs[0][:20] + msgs[1][:20]
    await w.send_frame(msgs[0], WSMsgType.BINARY)
    await w.send_frame(msgs[1], WSMsgType.BINARY, compress=15)
    await w.send_frame(msgs[2], WSMsgType.BINARY)
    rd.feed_data(bytes(out))
    got = []
    while q._buffer:
        got.append((await q.read()).data)
    print("payloads identical:", [g == m for g, m in zip(got, msgs)], "error:", q.exception())
    raise SystemExit(0 if got == msgs else 1)

asyncio.run(main())
