"""F18 (C02 C04 C05): body data streamed on a response that must not have a body.   cd /repo && PYTHONPATH=/repo /venv/bin/python /verif/findings/F18.py
A handler streams through StreamResponse.write() on HEAD / 204 / 304; the next pipelined response must start right after the blank line.
Exit 1 if body bytes appear between the two responses."""
import asyncio
import aiohttp
from aiohttp import web

print(aiohttp.__file__)


async def stream(request):
    resp = web.StreamResponse(status=int(request.query.get("s", "200")))
    await resp.prepare(request)
    await resp.write(b"HELLO-BODY")
    await resp.write_eof(b"-TAIL")
    return resp


async def plain(request):
    return web.Response(text="second")


async def main():
    app = web.Application()
    app.router.add_route("*", "/s", stream)
    app.router.add_get("/p", plain)
    runner = web.AppRunner(app)
    await runner.setup()
    site = web.TCPSite(runner, "127.0.0.1", 0)
    await site.start()
    port = site._server.sockets[0].getsockname()[1]
    bad = 0
    for first in (b"HEAD /s HTTP/1.1", b"GET /s?s=204 HTTP/1.1", b"GET /s?s=304 HTTP/1.1"):
        r, w = await asyncio.open_connection("127.0.0.1", port)
        w.write(first + b"\r\nHost: a\r\n\r\nGET /p HTTP/1.1\r\nHost: a\r\n\r\n")
        await w.drain()
        await asyncio.sleep(0.3)
        data = await r.read(65536)
        w.close()
        leaked = b"HELLO-BODY" in data or b"-TAIL" in data
        print(first, "LEAKED body bytes into the stream" if leaked else "ok", data.count(b"HTTP/1.1 "), "status lines")
        bad += leaked
    await runner.cleanup()
    raise SystemExit(1 if bad else 0)

asyncio.run(main())
