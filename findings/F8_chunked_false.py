"""F8 (C02, C04): chunked=False produces Content-Length with a chunk-framed body."""
import asyncio, sys
import aiohttp
from aiohttp import web

async def main():
    print(aiohttp.__file__)
    got = {}
    async def raw(reader, writer):
        data = b""
        while b"\r\n\r\n" not in data:
            data += await reader.read(65536)
        head, _, body = data.partition(b"\r\n\r\n")
        await asyncio.sleep(0.1)
        try:
            body += await asyncio.wait_for(reader.read(65536), 0.1)
        except asyncio.TimeoutError:
            pass
        got["head"], got["body"] = head, body
        writer.write(b"HTTP/1.1 200 OK\r\nContent-Length: 0\r\nConnection: close\r\n\r\n"); await writer.drain(); writer.close()
    srv = await asyncio.start_server(raw, "127.0.0.1", 0)
    port = srv.sockets[0].getsockname()[1]
    async with aiohttp.ClientSession() as s:
        async with s.post(f"http://127.0.0.1:{port}/", data=b"abc", chunked=False) as r:
            await r.read()
    srv.close(); await srv.wait_closed()
    print(got["head"].decode().splitlines()[1:], got["body"])
    ok = got["body"] == b"abc"
    return 0 if ok else 1
sys.exit(asyncio.run(main()))
