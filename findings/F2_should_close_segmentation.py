"""F2 (C03): 'data after Connection: close' is rejected only when it arrives in the same read."""
import asyncio, sys
from unittest import mock
import aiohttp
from aiohttp.http_parser import HttpRequestParserPy
from aiohttp.base_protocol import BaseProtocol

def run(stream, cuts):
    loop = asyncio.new_event_loop()
    try:
        proto = mock.Mock(spec=BaseProtocol); proto._reading_paused = False
        p = HttpRequestParserPy(proto, loop, 2**16)
        n = 0; pos = 0
        try:
            for c in list(cuts) + [len(stream)]:
                msgs, up, tail = p.feed_data(stream[pos:c]); pos = c
                n += len(msgs)
            return ("accepted", n)
        except Exception as e:
            return ("rejected", type(e).__name__)
    finally:
        loop.close()

print(aiohttp.__file__)
s = b"GET /1 HTTP/1.1\r\nHost: a\r\nConnection: close\r\n\r\nGET /2 HTTP/1.1\r\nHost: a\r\n\r\n"
ref = run(s, [])
outcomes = {run(s, [c])[0] for c in range(1, len(s))} | {ref[0]}
print("one read:", ref, "outcomes over all single cuts:", outcomes)
sys.exit(1 if len(outcomes) > 1 else 0)
