import asyncio, sys, random
import aiohttp
from aiohttp._websocket.writer import WebSocketWriter
from aiohttp._websocket.reader_py import WebSocketReader, WebSocketDataQueue
from aiohttp._websocket.models import WSMsgType
from aiohttp.base_protocol import BaseProtocol


class Tr(asyncio.Transport):
    def __init__(self):
        super().__init__()
        self.buf = bytearray()
        self.closing = False
    def write(self, data):
        self.buf += data
    def is_closing(self):
        return self.closing
    def pause_reading(self): pass
    def resume_reading(self): pass


class Proto(BaseProtocol):
    pass


def mk(loop, *, mask=False, compress=0, notakeover=False, max_msg_size=4*2**20, rcompress=None):
    tr = Tr()
    proto = Proto(loop)
    proto.transport = tr
    w = WebSocketWriter(proto, tr, use_mask=mask, compress=compress, notakeover=notakeover)
    rproto = Proto(loop)
    rproto.transport = Tr(); rproto._upgraded = True; proto._upgraded = True
    q = WebSocketDataQueue(rproto, 2**16, loop=loop)
    r = WebSocketReader(q, max_msg_size, compress=bool(compress) if rcompress is None else rcompress, decode_text=True)
    return tr, w, q, r


def drain(q):
    out = []
    while q._buffer:
        out.append(q._read_from_buffer())
    return out
