"""C11 finding 1: send_bytes() accepts any memoryview, but the frame header is built
from len(message) (number of ITEMS) while the payload written is the whole buffer
(nbytes).  With a memoryview whose itemsize is not 1 (array('I'), numpy, struct-cast
views ...) the declared frame length is too small, the surplus payload bytes are parsed
by the peer as the next frame header -> wrong message + protocol error.
(http_writer.StreamWriter.write() handles exactly this case with chunk.cast("c").)
"""
import array
import asyncio
import sys

import aiohttp
from aiohttp import web

print(aiohttp.__file__)

VALUES = array.array("I", range(1, 41))  # 40 items, 160 bytes
EXPECTED = VALUES.tobytes()


async def main() -> int:
    async def handler(request: web.Request) -> web.WebSocketResponse:
        ws = web.WebSocketResponse()
        await ws.prepare(request)
        await ws.send_bytes(memoryview(VALUES))  # documented: bytes, bytearray or memoryview
        await ws.send_bytes(b"second message")
        await ws.close()
        return ws

    app = web.Application()
    app.router.add_get("/", handler)
    runner = web.AppRunner(app)
    await runner.setup()
    site = web.TCPSite(runner, "127.0.0.1", 0)
    await site.start()
    port = site._server.sockets[0].getsockname()[1]

    got = []
    async with aiohttp.ClientSession() as s:
        async with s.ws_connect(f"http://127.0.0.1:{port}/") as ws:
            async for msg in ws:
                got.append((msg.type, msg.data))
            got.append(("close_code", ws.close_code))
    await runner.cleanup()

    want = [
        (aiohttp.WSMsgType.BINARY, EXPECTED),
        (aiohttp.WSMsgType.BINARY, b"second message"),
        ("close_code", 1000),
    ]
    if got != want:
        print("VIOLATION: the receiver did not get the messages that were sent")
        print("  sent    : BINARY %d bytes, BINARY b'second message', CLOSE 1000" % len(EXPECTED))
        for t, d in got:
            print("  received:", t, (len(d), d[:24]) if isinstance(d, bytes) else repr(d))
        return 1
    print("ok")
    return 0


sys.exit(asyncio.run(main()))
