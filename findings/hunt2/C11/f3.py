"""C11 finding 3: per-message compress= override on a connection where permessage-deflate
was NOT negotiated still deflates the payload and sets RSV1.  RFC 6455 5.2: RSV1 MUST be 0
unless an extension defining it was negotiated, the receiver MUST fail the connection -
and aiohttp's own reader does: the message is lost and the connection dies with 1002.
Typical history: ws_connect(compress=15) against a server that declines the extension
(ws.compress == 0 afterwards), application code keeps passing compress= to send_*().
"""
import asyncio
import sys

import aiohttp
from aiohttp import web

print(aiohttp.__file__)


async def main() -> int:
    server_got = []

    async def handler(request: web.Request) -> web.WebSocketResponse:
        ws = web.WebSocketResponse(compress=False)  # server declines permessage-deflate
        await ws.prepare(request)
        async for msg in ws:
            server_got.append((msg.type, msg.data))
        server_got.append(("close_code", ws.close_code))
        return ws

    app = web.Application()
    app.router.add_get("/", handler)
    runner = web.AppRunner(app)
    await runner.setup()
    site = web.TCPSite(runner, "127.0.0.1", 0)
    await site.start()
    port = site._server.sockets[0].getsockname()[1]

    async with aiohttp.ClientSession() as s:
        async with s.ws_connect(f"http://127.0.0.1:{port}/", compress=15) as ws:
            print("negotiated: ws.compress =", ws.compress)
            await ws.send_str("plain")
            await ws.send_str("hello hello hello", compress=15)  # per-message override
            await ws.send_str("after")
            await ws.close()
    await asyncio.sleep(0.1)
    await runner.cleanup()

    want = [
        (aiohttp.WSMsgType.TEXT, "plain"),
        (aiohttp.WSMsgType.TEXT, "hello hello hello"),
        (aiohttp.WSMsgType.TEXT, "after"),
        ("close_code", 1000),
    ]
    if server_got != want:
        print("VIOLATION: reader configured with the negotiated parameters (no compression)")
        print("  sent    :", want)
        print("  received:", server_got)
        return 1
    print("ok")
    return 0


sys.exit(asyncio.run(main()))
