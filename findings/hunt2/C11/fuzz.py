import asyncio, sys, random, os
sys.path.insert(0, "_hunt")
from harness import *
print(aiohttp.__file__)
SIZES = [0,1,2,124,125,126,127,65534,65535,65536,65537,16383,16384,16385,16386,2**14+100, 200000]
rnd = random.Random(int(sys.argv[1]) if len(sys.argv)>1 else 1)

def payload(n):
    k = rnd.random()
    if k < .3: return os.urandom(n)
    if k < .6: return bytes(rnd.choice(b"abcd") for _ in range(min(n,50))) * (n//50+1)
    return (b"hello world %d " % rnd.randrange(10)) * (n//14+1)

async def sender(w, sid, n, log, sent):
    for i in range(n):
        sz = rnd.choice(SIZES)
        p = payload(sz)[:sz]
        kind = rnd.random()
        ov = rnd.choice([None, None, 9, 12, 15]) 
        tag = b"%d:%d:" % (sid, i)
        if kind < .1:
            await w.send_frame(tag[:10], WSMsgType.PING); sent.append((sid, 'ping', tag[:10]))
        elif kind < .5:
            body = (tag + p.hex().encode())[:max(sz, len(tag))]
            await w.send_frame(body, WSMsgType.TEXT, ov); sent.append((sid,'text',body))
        else:
            body = tag + p
            t = asyncio.ensure_future(w.send_frame(body, WSMsgType.BINARY, ov))
            if rnd.random() < .3:
                await asyncio.sleep(0)
                t.cancel()
            try:
                await t
                sent.append((sid,'bin',body))
            except asyncio.CancelledError:
                sent.append((sid,'maybe',body))
        if rnd.random()<.3: await asyncio.sleep(0)

async def one(mask, compress, nt):
    loop = asyncio.get_running_loop()
    tr, w, q, r = mk(loop, mask=mask, compress=compress, notakeover=nt, max_msg_size=0)
    if not compress:
        global rndov
    sent = []
    await asyncio.gather(*[sender(w, s, 6, None, sent) for s in range(4)])
    await asyncio.sleep(0.05)
    while w._background_tasks: await asyncio.sleep(0.01)
    data = bytes(tr.buf)
    # segment
    pos = 0
    mode = rnd.choice([1, 'rand', 'all'])
    while pos < len(data):
        step = {1:1,'rand':rnd.choice([1,2,3,7,100,5000,70000]),'all':len(data)}[mode]
        if mode == 1 and len(data) > 300000: step = rnd.choice([1,2,3,1000])
        err, _ = r.feed_data(data[pos:pos+step]); pos += step
        if err:
            import traceback; traceback.print_exception(q.exception())
            print("READER ERROR", repr(q.exception()), repr(q.exception().__cause__), mask, compress, nt, pos, len(data)); return False
    got = drain(q)
    # per sender order check
    for sid in range(4):
        exp = [(k,b) for s,k,b in sent if s==sid and k!='ping']
        g = []
        for m in got:
            if m.type == WSMsgType.PING: continue
            d = m.data.encode() if isinstance(m.data,str) else m.data
            if d.startswith(b"%d:"%sid): g.append(d)
        gi = 0
        for k,b in exp:
            if gi < len(g) and g[gi]==b: gi+=1
            elif k=='maybe': continue
            else:
                print("MISMATCH", sid, [(k,b[:4],len(b)) for k,b in exp], [(x[:4],len(x)) for x in g], mask, compress, nt); return False
        if gi != len(g):
            print("EXTRA", sid); return False
    return True

async def main():
    ok = True
    for it in range(int(sys.argv[2]) if len(sys.argv)>2 else 20):
        mask = rnd.random()<.5
        compress = rnd.choice([9,10,11,12,13,14,15])
        nt = rnd.random()<.5
        ok &= await one(mask, compress, nt)
    print("ok" if ok else "FAIL")
asyncio.run(main())
