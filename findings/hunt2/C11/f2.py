"""C11 finding 2: an uncompressed, unmasked (server side) message over 16 KiB given as a
bytearray/memoryview is handed to transport.write() BY REFERENCE.  On Python >= 3.12 the
selector transport keeps the object itself in its buffer (zero-copy), and send_frame()
returns while up to a low-water mark of it is still unsent (or all of it, when
_output_size has not passed the limit).  A sender that reuses its buffer after
`await ws.send_bytes(buf)` has returned - the normal pattern for a bytearray - changes
bytes that are still to go on the wire: the peer receives a payload that was never sent.
Every other path (masked, <= 16 KiB, compressed) copies the message.

Needs the event loop's own selector transport on Python >= 3.12 (aiofastnet, when it is
installed and web.AppRunner/TCPSite is used, happens to copy mutable buffers itself).
"""
import asyncio
import sys

import aiohttp
from aiohttp import web

print(aiohttp.__file__)
SIZE = 40000
N = 1500


async def main() -> int:
    async def handler(request: web.Request) -> web.WebSocketResponse:
        ws = web.WebSocketResponse(compress=False)
        await ws.prepare(request)
        buf = bytearray(SIZE)
        for i in range(N):
            buf[:] = bytes([65 + i % 26]) * SIZE  # refill the reusable buffer
            await ws.send_bytes(buf)  # returns: the message is "sent"
        await ws.close()
        return ws

    # Low-level server on the event loop's own transports (docs/web_lowlevel.rst,
    # web.Server is "a protocol factory for loop.create_server()"): what aiohttp uses
    # whenever the optional aiofastnet accelerator is not installed / not supported
    # (PyPy, android, ios) or another loop implementation is in use.
    loop = asyncio.get_running_loop()
    server = web.Server(handler)
    srv = await loop.create_server(server, "127.0.0.1", 0)
    port = srv.sockets[0].getsockname()[1]

    bad = []
    count = 0
    async with aiohttp.ClientSession() as s:
        async with s.ws_connect(f"http://127.0.0.1:{port}/", max_msg_size=0) as ws:
            async for msg in ws:
                if msg.type is not aiohttp.WSMsgType.BINARY:
                    continue
                want = bytes([65 + count % 26]) * SIZE
                if msg.data != want:
                    foreign = sum(1 for b in set(msg.data) if b != 65 + count % 26)
                    wrong = len(msg.data) - msg.data.count(bytes([65 + count % 26]))
                    bad.append((count, len(msg.data), wrong, sorted(set(msg.data))))
                count += 1
                await asyncio.sleep(0.001)  # a reader that is a little slower than the writer
    srv.close()
    await server.shutdown(1)

    if bad or count != N:
        print(f"VIOLATION: {len(bad)} of {count} messages arrived with a payload that was never sent")
        for i, ln, wrong, vals in bad[:5]:
            print(f"  message {i}: sent {SIZE} x {bytes([65 + i % 26])!r}; received {ln} bytes, "
                  f"{wrong} of them differ, byte values seen: {bytes(vals)!r}")
        return 1
    print("ok")
    return 0


sys.exit(asyncio.run(main()))
