"""C11 finding 4 (minor): a message of exactly max_msg_size bytes is accepted by the
reader when it travels compressed (check after inflate: len > max_msg_size) but rejected
when it travels uncompressed (early check: declared length >= max_msg_size) with the
self-contradicting error "Message size N exceeds limit N".  So whether an identical
message round-trips depends on the negotiated compression, at the size boundary.
"""
import asyncio
import sys

import aiohttp
from aiohttp._websocket.reader_py import WebSocketDataQueue, WebSocketReader
from aiohttp._websocket.writer import WebSocketWriter
from aiohttp.base_protocol import BaseProtocol
from aiohttp import WSMsgType

print(aiohttp.__file__)
MAX = 4 * 1024 * 1024  # the documented default of ws_connect()/WebSocketResponse


class Tr(asyncio.Transport):
    def __init__(self) -> None:
        super().__init__()
        self.buf = bytearray()

    def write(self, data) -> None:
        self.buf += data

    def is_closing(self) -> bool:
        return False

    def pause_reading(self) -> None:
        pass

    def resume_reading(self) -> None:
        pass


async def roundtrip(compress: int, payload: bytes):
    loop = asyncio.get_running_loop()
    wp, rp = BaseProtocol(loop), BaseProtocol(loop)
    wp.transport, rp.transport = Tr(), Tr()
    wp._upgraded = rp._upgraded = True
    writer = WebSocketWriter(wp, wp.transport, compress=compress)
    queue = WebSocketDataQueue(rp, 2**16, loop=loop)
    reader = WebSocketReader(queue, MAX, compress=bool(compress), decode_text=True)
    await writer.send_frame(payload, WSMsgType.BINARY)
    reader.feed_data(bytes(wp.transport.buf))
    if queue.exception() is not None:
        return repr(queue.exception())
    msg = queue._read_from_buffer()
    return "delivered" if msg.data == payload else "WRONG DATA"


async def main() -> int:
    payload = b"0123456789abcdef" * (MAX // 16)
    assert len(payload) == MAX
    with_deflate = await roundtrip(15, payload)
    without = await roundtrip(0, payload)
    print(f"message of exactly max_msg_size={MAX} bytes")
    print("  permessage-deflate negotiated:", with_deflate)
    print("  no compression               :", without)
    if with_deflate != without:
        print("VIOLATION: the same message is delivered or refused depending on the negotiated compression")
        return 1
    return 0


sys.exit(asyncio.run(main()))
