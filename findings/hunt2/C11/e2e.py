import asyncio, sys, os, random, hashlib
import aiohttp
from aiohttp import web
print(aiohttp.__file__)
rnd = random.Random(int(sys.argv[1]) if len(sys.argv) > 1 else 0)

async def main():
    received = []
    done = asyncio.Event()
    async def handler(request):
        ws = web.WebSocketResponse(compress=SCOMP, max_msg_size=0)
        await ws.prepare(request)
        async for msg in ws:
            if msg.type == web.WSMsgType.BINARY:
                received.append(msg.data)
                if rnd.random() < .2:
                    await asyncio.sleep(0.01)
                await ws.send_bytes(hashlib.md5(msg.data).digest())
            elif msg.type == web.WSMsgType.TEXT:
                received.append(msg.data.encode())
                await ws.send_str(hashlib.md5(msg.data.encode()).hexdigest())
        done.set()
        return ws
    app = web.Application()
    app.router.add_get("/", handler)
    runner = web.AppRunner(app)
    await runner.setup()
    site = web.TCPSite(runner, "127.0.0.1", 0)
    await site.start()
    port = site._server.sockets[0].getsockname()[1]
    async with aiohttp.ClientSession() as s:
        ws = await s.ws_connect(f"http://127.0.0.1:{port}/", compress=CCOMP, max_msg_size=0)
        print("negotiated", ws.compress, ws.client_notakeover)
        sent = []
        replies = []
        async def rd():
            async for m in ws:
                replies.append(m.data)
        rt = asyncio.ensure_future(rd())
        async def snd(i):
            for j in range(8):
                n = rnd.choice([0, 1, 125, 126, 65535, 65536, 16384, 16385, 300000, 3_000_000])
                b = (b"%d:%d:" % (i, j)) + (os.urandom(n) if rnd.random() < .5 else b"ab" * (n // 2))
                if rnd.random() < .5:
                    await ws.send_bytes(b); sent.append(b)
                else:
                    t = b.hex()
                    await ws.send_str(t); sent.append(t.encode())
        await asyncio.gather(*[snd(i) for i in range(4)])
        for _ in range(600):
            if len(replies) >= len(sent): break
            await asyncio.sleep(0.05)
        await ws.close()
        await asyncio.wait_for(done.wait(), 5)
        rt.cancel()
    await runner.cleanup()
    ok = sorted(received) == sorted(sent) and len(replies) == len(sent)
    print(len(sent), len(received), len(replies), ok)
    return ok

ok = True
for SCOMP, CCOMP in [(True, 15), (True, 10), (False, 15), (True, 0)]:
    ok &= asyncio.run(asyncio.wait_for(main(), 120))
sys.exit(0 if ok else 1)
