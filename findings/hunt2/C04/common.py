"""Helpers shared by the hunt scripts: a recording transport and a way to run a
server-side response object against a mocked request with a *real* StreamWriter."""
import asyncio
import sys

import aiohttp
from aiohttp import web
from aiohttp.base_protocol import BaseProtocol
from aiohttp.http_writer import StreamWriter
from aiohttp.test_utils import make_mocked_request

_printed = False


def banner():
    global _printed
    if not _printed:
        print("aiohttp from:", aiohttp.__file__)
        _printed = True


class RecTransport(asyncio.Transport):
    def __init__(self):
        super().__init__()
        self.buf = bytearray()
        self._closing = False

    def write(self, data):
        self.buf += bytes(data)

    def writelines(self, chunks):
        for c in chunks:
            self.buf += bytes(c)

    def is_closing(self):
        return self._closing

    def close(self):
        self._closing = True

    def get_write_buffer_size(self):
        return 0

    def get_extra_info(self, name, default=None):
        return default


def make_writer(loop):
    tr = RecTransport()
    proto = BaseProtocol(loop)
    proto.connection_made(tr)
    return StreamWriter(proto, loop), tr


def server_request(loop, method="GET", path="/", headers=None, version=aiohttp.HttpVersion11):
    writer, tr = make_writer(loop)
    req = make_mocked_request(method, path, headers=headers or {}, version=version,
                              writer=writer, loop=loop)
    return req, tr


def split_head(raw: bytes):
    head, sep, rest = bytes(raw).partition(b"\r\n\r\n")
    assert sep, "no header terminator in %r" % raw
    lines = head.split(b"\r\n")
    hdrs = [tuple(x.strip() for x in l.split(b":", 1)) for l in lines[1:]]
    return lines[0], hdrs, rest


def dechunk(body: bytes):
    """strict chunked decoder -> (data, rest) or raises ValueError"""
    out = bytearray()
    pos = 0
    while True:
        eol = body.find(b"\r\n", pos)
        if eol < 0:
            raise ValueError("truncated chunk-size line at %d: %r" % (pos, body[pos:pos + 20]))
        size_s = body[pos:eol]
        try:
            size = int(size_s, 16)
        except ValueError:
            raise ValueError("bad chunk-size line %r" % size_s)
        pos = eol + 2
        if size == 0:
            if body[pos:pos + 2] != b"\r\n":
                raise ValueError("bad terminator")
            return bytes(out), body[pos + 2:]
        out += body[pos:pos + size]
        if body[pos + size:pos + size + 2] != b"\r\n":
            raise ValueError("chunk of declared size %d is not followed by CRLF (got %r)" % (size, body[pos + size:pos + size + 2]))
        pos += size + 2


# ---------------------------------------------------------------- wire helpers
async def start_app(handler, method="*", path="/{tail:.*}"):
    app = web.Application()
    app.router.add_route(method, path, handler)
    runner = web.AppRunner(app)
    await runner.setup()
    site = web.TCPSite(runner, "127.0.0.1", 0)
    await site.start()
    port = site._server.sockets[0].getsockname()[1]
    return runner, port


async def raw_exchange(port, request: bytes, idle=0.4):
    """send raw bytes, return everything the peer wrote until it is idle / closes"""
    r, w = await asyncio.open_connection("127.0.0.1", port)
    w.write(request)
    await w.drain()
    got = bytearray()
    try:
        while True:
            d = await asyncio.wait_for(r.read(65536), idle)
            if not d:
                break
            got += d
    except asyncio.TimeoutError:
        pass
    w.close()
    return bytes(got)


async def capture_client_request(do_request, idle=0.4):
    """run `await do_request(session, url)` against a raw loopback server and
    return the bytes the aiohttp client put on the wire"""
    got = bytearray()

    async def handle(r, w):
        try:
            while True:
                d = await asyncio.wait_for(r.read(65536), idle)
                if not d:
                    break
                got.extend(d)
        except asyncio.TimeoutError:
            pass
        w.write(b"HTTP/1.1 200 OK\r\nContent-Length: 0\r\nConnection: close\r\n\r\n")
        try:
            await w.drain()
        except Exception:
            pass
        w.close()

    srv = await asyncio.start_server(handle, "127.0.0.1", 0)
    port = srv.sockets[0].getsockname()[1]
    err = None
    async with aiohttp.ClientSession() as s:
        try:
            await do_request(s, f"http://127.0.0.1:{port}/")
        except Exception as e:  # refusing to send is a legal outcome
            err = e
    srv.close()
    return bytes(got), err


def parse_message(raw: bytes):
    """Strictly parse ONE HTTP/1.1 message from raw.
    returns (start_line, headers(list), body, rest); raises ValueError when the
    bytes do not agree with the framing headers."""
    start, hdrs, rest = split_head(raw)
    names = [k.lower() for k, _ in hdrs]
    te = [v for k, v in hdrs if k.lower() == b"transfer-encoding"]
    cl = [v for k, v in hdrs if k.lower() == b"content-length"]
    if te and cl:
        raise ValueError("message carries BOTH Transfer-Encoding %r and Content-Length %r" % (te, cl))
    if te:
        body, rest = dechunk(rest)
        return start, hdrs, body, rest
    if cl:
        n = int(cl[0])
        if len(rest) < n:
            raise ValueError("Content-Length %d but only %d body bytes were sent: %r" % (n, len(rest), rest))
        return start, hdrs, rest[:n], rest[n:]
    return start, hdrs, b"", rest
