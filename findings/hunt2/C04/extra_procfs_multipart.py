"""(not filed as a finding; exotic input)
IOBasePayload.size trusts fstat().st_size. For files whose st_size is 0 although
read() returns data (procfs/sysfs) size is 0 but write() emits the first chunk
('size or DEFAULT_CHUNK_SIZE'): MultipartWriter.size / the request Content-Length
are smaller than the bytes written; the surplus is parsed as the next request."""
import asyncio
import sys

from common import *
from aiohttp import FormData


async def main():
    banner()

    async def do(s, url):
        fd = FormData()
        fd.add_field("status", open("/proc/self/status", "rb"), filename="status")
        async with s.post(url, data=fd) as r:
            await r.read()

    raw, err = await capture_client_request(do)
    start, hdrs, rest = split_head(raw)
    cl = int([v for k, v in hdrs if k.lower() == b"content-length"][0])
    print("Content-Length", cl, "body bytes on the wire", len(rest), "client error", repr(err))
    if cl != len(rest):
        print("VIOLATION: multipart body of %d bytes sent under Content-Length %d" % (len(rest), cl))
        sys.exit(1)
    print("ok")


asyncio.run(main())
