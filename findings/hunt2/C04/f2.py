"""Server sibling of the repaired client defect F58: a caller-supplied
'Transfer-Encoding: chunked' header on web.Response (typical for a proxy
handler that copies the upstream headers) is sent together with a
Content-Length that aiohttp adds itself, and the body is NOT chunked."""
import asyncio
import sys

from common import *


async def main():
    banner()
    bad = []

    cases = {
        "/resp": lambda: web.Response(body=b"hello", headers={"Transfer-Encoding": "chunked"}),
        "/text": lambda: web.Response(text="hello", headers={"Transfer-Encoding": "chunked"}),
        "/json": lambda: web.json_response({"a": 1}, headers={"Transfer-Encoding": "chunked"}),
    }

    async def handler(request):
        return cases[request.path]()

    runner, port = await start_app(handler)
    for path in cases:
        raw = await raw_exchange(
            port,
            b"GET %b HTTP/1.1\r\nHost: x\r\n\r\n" % path.encode(),
        )
        print(path, "->", raw)
        try:
            start, hdrs, body, rest = parse_message(raw)
            if rest:
                raise ValueError("%d stray bytes after the message: %r" % (len(rest), rest))
        except ValueError as e:
            bad.append(f"{path}: {e}")

    # what a real client makes of it
    async with aiohttp.ClientSession() as s:
        try:
            async with s.get(f"http://127.0.0.1:{port}/resp") as r:
                data = await r.read()
                print("aiohttp client read:", data)
                if r.status == 200 and data != b"hello":
                    bad.append(f"client decoded {data!r} instead of b'hello'")
        except Exception as e:
            print("aiohttp client:", repr(e))
            bad.append(f"aiohttp's own client cannot read the response: {e!r}")
    await runner.cleanup()

    if bad:
        print("\nVIOLATIONS:")
        for b in bad:
            print(" -", b)
        sys.exit(1)
    print("ok")


asyncio.run(main())
