"""StreamWriter.write() reshapes a memoryview whose items are wider than one
byte (chunk.cast('c')) before it measures it; write_eof(chunk) does not.
StreamResponse.write_eof() explicitly accepts a memoryview, so
write_eof(memoryview(array('I', ...))) emits a chunk-size line that counts
ITEMS while the data that follows is 4x as many BYTES: the chunked stream is
corrupt (and the connection stays keep-alive)."""
import array
import asyncio
import sys

from common import *

ARR = array.array("I", range(1, 8))  # 7 items, 28 bytes
EXPECT = ARR.tobytes()


async def main():
    banner()
    bad = []

    async def handler(request):
        resp = web.StreamResponse()
        await resp.prepare(request)
        mv = memoryview(ARR)
        if request.path == "/write":
            await resp.write(mv)  # sibling path: handled correctly
            await resp.write_eof()
        elif request.path == "/write_eof":
            await resp.write_eof(mv)
        elif request.path == "/write_eof_after_write":
            await resp.write(b"head")
            await resp.write_eof(mv)
        return resp

    runner, port = await start_app(handler)
    for path, expect in (
        ("/write", EXPECT),
        ("/write_eof", EXPECT),
        ("/write_eof_after_write", b"head" + EXPECT),
    ):
        raw = await raw_exchange(
            port, b"GET %b HTTP/1.1\r\nHost: x\r\n\r\n" % path.encode()
        )
        body_raw = raw.partition(b"\r\n\r\n")[2]
        print(path, "->", body_raw)
        try:
            start, hdrs, body, rest = parse_message(raw)
            if rest:
                raise ValueError("%d stray bytes after the terminator: %r" % (len(rest), rest))
            if body != expect:
                raise ValueError("decoded %r, written %r" % (body, expect))
        except ValueError as e:
            bad.append(f"{path}: {e}")

    # what aiohttp's own client makes of it
    async with aiohttp.ClientSession() as s:
        try:
            async with s.get(f"http://127.0.0.1:{port}/write_eof") as r:
                data = await r.read()
                if data != EXPECT:
                    bad.append(f"client read {len(data)} bytes instead of {len(EXPECT)}")
        except Exception as e:
            print("aiohttp client:", repr(e))
            bad.append(f"aiohttp's own client cannot decode the body: {e!r}")
    await runner.cleanup()

    if bad:
        print("\nVIOLATIONS:")
        for b in bad:
            print(" -", b)
        sys.exit(1)
    print("ok")


asyncio.run(main())
