"""StreamWriter.write() enforces the declared Content-Length (surplus bytes are
cut), StreamWriter.write_eof(chunk) does not look at self.length at all.
Everything that ends in write_eof(data) - StreamResponse.write_eof(data) and
web.Response with a bytes body (Response.write_eof -> write_eof(body)) - puts
more bytes on the wire than the emitted Content-Length; on a keep-alive
connection the surplus is read as the start of the next response."""
import asyncio
import sys

from common import *

BODY = b"0123456789HTTP/1.1 200 OK\r\nContent-Length: 6\r\n\r\nFORGED"


async def main():
    banner()
    bad = []

    async def handler(request):
        if request.path == "/stream_write":  # sibling: write() cuts at the length
            resp = web.StreamResponse()
            resp.content_length = 10
            await resp.prepare(request)
            await resp.write(BODY)
            await resp.write_eof()
            return resp
        if request.path == "/stream_write_eof":
            resp = web.StreamResponse()
            resp.content_length = 10
            await resp.prepare(request)
            await resp.write_eof(BODY)
            return resp
        if request.path == "/response":
            # e.g. a proxy handler that forwards the upstream headers (length of the
            # compressed upstream body) with the body the client already inflated
            return web.Response(body=BODY, headers={"Content-Length": "10"})
        if request.path == "/response_payload":  # sibling: payload goes through write()
            import io

            return web.Response(body=io.BytesIO(BODY), headers={"Content-Length": "10"})
        return web.Response(text="second")

    runner, port = await start_app(handler)
    for path in ("/stream_write", "/response_payload", "/stream_write_eof", "/response"):
        raw = await raw_exchange(
            port,
            b"GET %b HTTP/1.1\r\nHost: x\r\n\r\nGET /next HTTP/1.1\r\nHost: x\r\n\r\n"
            % path.encode(),
        )
        try:
            s1, h1, b1, rest = parse_message(raw)
            s2, h2, b2, rest = parse_message(rest)
            print(f"{path}: 1st body {b1!r}; 2nd response {s2!r} body {b2!r}; rest {len(rest)} bytes")
            if b2 != b"second":
                raise ValueError(
                    "the answer to the 2nd pipelined request is read as %r %r (surplus of the 1st body)" % (s2, b2)
                )
            if rest:
                raise ValueError("stray bytes %r" % rest)
        except ValueError as e:
            bad.append(f"{path}: {e}")
    await runner.cleanup()

    if bad:
        print("\nVIOLATIONS:")
        for b in bad:
            print(" -", b)
        sys.exit(1)
    print("ok")


asyncio.run(main())
