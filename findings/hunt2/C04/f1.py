"""TextIOPayload.size is the on-disk size, but a text-mode file is read through
universal-newline translation (and the file's error handler): the bytes written
differ from the declared size -> wrong Content-Length on the wire.

(F86 fixed the case 'file codec != payload codec'; with the SAME codec the
size is still taken from fstat.)"""
import asyncio
import os
import sys
import tempfile

from common import *
from aiohttp import payload


class Sink:
    def __init__(self):
        self.buf = bytearray()

    async def write(self, c):
        self.buf += bytes(c)


async def main():
    banner()
    bad = []
    d = tempfile.mkdtemp()
    crlf = os.path.join(d, "table.csv")
    with open(crlf, "wb") as f:
        f.write(b"a,b\r\nc,d\r\n")  # 10 bytes on disk, CRLF line ends
    inval = os.path.join(d, "note.txt")
    with open(inval, "wb") as f:
        f.write(b"x\xffy")  # 3 bytes on disk

    # 1. payload level: declared size == bytes written ?
    for label, opener in (
        ("open(csv) [default text mode, utf-8]", lambda: open(crlf, encoding="utf-8")),
        ("open(txt, errors='replace')", lambda: open(inval, encoding="utf-8", errors="replace")),
    ):
        with opener() as fobj:
            pl = payload.get_payload(fobj)
            size = pl.size
            sink = Sink()
            await pl.write(sink)
        print(f"{label}: {type(pl).__name__}.size={size} written={len(sink.buf)} {bytes(sink.buf)!r}")
        if size is not None and size != len(sink.buf):
            bad.append(f"{label}: declared size {size} != {len(sink.buf)} bytes written")

    # 2. on the wire, client side: session.post(url, data=open(path))
    for label, opener in (
        ("POST data=open(csv)", lambda: open(crlf, encoding="utf-8")),
        ("POST data=open(txt, errors='replace')", lambda: open(inval, encoding="utf-8", errors="replace")),
    ):
        async def do(s, url):
            with opener() as fobj:
                async with s.post(url, data=fobj) as r:
                    await r.read()

        raw, err = await capture_client_request(do)
        print(label, "->", raw.partition(b"\r\n\r\n")[2], "| client error:", repr(err))
        try:
            start, hdrs, body, rest = parse_message(raw)
            if rest:
                raise ValueError("%d bytes follow the declared body: %r" % (len(rest), rest))
        except ValueError as e:
            cl = [v for k, v in split_head(raw)[1] if k.lower() == b"content-length"]
            bad.append(f"{label}: Content-Length {cl}: {e}")

    # 3. on the wire, server side: web.Response(body=open(path))
    async def handler(request):
        return web.Response(body=open(crlf, encoding="utf-8"))

    runner, port = await start_app(handler)
    raw = await raw_exchange(port, b"GET / HTTP/1.1\r\nHost: x\r\n\r\n")
    await runner.cleanup()
    try:
        start, hdrs, body, rest = parse_message(raw)
        print("server response body:", body)
    except ValueError as e:
        bad.append(f"web.Response(body=open(csv)): {e}")

    if bad:
        print("\nVIOLATIONS:")
        for b in bad:
            print(" -", b)
        sys.exit(1)
    print("ok")


asyncio.run(main())
