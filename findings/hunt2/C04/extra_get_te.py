"""(not filed as a finding; weaker sibling of repaired F56/F58)
GET/HEAD with a caller-supplied 'Transfer-Encoding: chunked' header and no data:
ClientRequest.__init__ skips _update_transfer_encoding() for body-less GET_METHODS,
so the header goes out but the writer is not chunked and no '0 CRLF CRLF' follows:
the server waits for a chunked body / takes the next request for chunk data."""
import asyncio
import sys

from common import *


async def main():
    banner()
    bad = []
    for method in ("GET", "HEAD", "OPTIONS", "DELETE"):
        async def do(s, url):
            async with s.request(method, url, headers={"Transfer-Encoding": "chunked"}) as r:
                await r.read()

        raw, err = await capture_client_request(do)
        print(method, "->", raw, "| client error:", repr(err))
        if not raw:
            continue  # refused: fine
        try:
            parse_message(raw)
        except ValueError as e:
            bad.append(f"{method}: Transfer-Encoding: chunked announced, body: {e}")
    if bad:
        print("\nVIOLATIONS:")
        for b in bad:
            print(" -", b)
        sys.exit(1)
    print("ok")


asyncio.run(main())
