"""A corrupt permessage-deflate payload is not mapped to a WebSocket close code.

The reader turns every listed violation into WebSocketError(code, ...), but the
zlib.error raised while inflating a message escapes as is.  receive() then
takes its generic `except Exception` branch: the application gets an ERROR
message whose data is a bare zlib.error, and the Close frame written to the
peer says 1000 (normal closure) although the stream was ended because of
invalid data (1007 / 1002 expected, like for invalid UTF-8 in the very same
message position).
"""
import asyncio
import base64
import os
import struct
import sys
import zlib

import aiohttp
from aiohttp import WebSocketError, WSMsgType, web

print("aiohttp from", aiohttp.__file__)


def frame(first_byte: int, payload: bytes) -> bytes:
    n = len(payload)
    assert n < 126
    key = os.urandom(4)
    return bytes([first_byte, 0x80 | n]) + key + bytes(b ^ key[i % 4] for i, b in enumerate(payload))


async def run(bad: bytes) -> tuple[list, int | None]:
    seen: list = []
    done = asyncio.Event()

    async def handler(request: web.Request) -> web.WebSocketResponse:
        ws = web.WebSocketResponse(compress=True)
        await ws.prepare(request)
        try:
            async for msg in ws:
                seen.append(msg)
                if msg.type is WSMsgType.ERROR:
                    break
            else:
                seen.append(("closed", ws.close_code, ws.exception()))
        finally:
            done.set()
        return ws

    app = web.Application()
    app.router.add_get("/", handler)
    runner = web.AppRunner(app)
    await runner.setup()
    site = web.TCPSite(runner, "127.0.0.1", 0)
    await site.start()
    port = site._server.sockets[0].getsockname()[1]
    r, w = await asyncio.open_connection("127.0.0.1", port)
    key = base64.b64encode(os.urandom(16)).decode()
    w.write(
        (
            "GET / HTTP/1.1\r\nHost: x\r\nUpgrade: websocket\r\nConnection: Upgrade\r\n"
            f"Sec-WebSocket-Key: {key}\r\nSec-WebSocket-Version: 13\r\n"
            "Sec-WebSocket-Extensions: permessage-deflate\r\n\r\n"
        ).encode()
    )
    head = await r.readuntil(b"\r\n\r\n")
    assert b"permessage-deflate" in head, head
    w.write(bad)
    await w.drain()
    # read the server's Close frame (server frames are unmasked)
    wire_code = None
    try:
        while True:
            b0, b1 = await asyncio.wait_for(r.readexactly(2), 5)
            payload = await r.readexactly(b1 & 0x7F)
            if b0 & 0x0F == 8:
                wire_code = struct.unpack("!H", payload[:2])[0] if len(payload) >= 2 else 0
                break
    except (asyncio.IncompleteReadError, asyncio.TimeoutError):
        pass
    await asyncio.wait_for(done.wait(), 5)
    w.close()
    await runner.cleanup()
    return seen, wire_code


async def main() -> int:
    # control: compressed TEXT whose inflated bytes are not UTF-8 -> 1007
    c = zlib.compressobj(wbits=-15)
    body = (c.compress(b"\xff\xfe") + c.flush(zlib.Z_SYNC_FLUSH))[:-4]
    seen, wire = await run(frame(0xC1, body))
    print("invalid UTF-8 inside a compressed message ->", seen, "close code on the wire:", wire)
    ok_control = wire == 1007

    # compressed TEXT whose payload is not a deflate stream (reserved block type 3)
    seen, wire = await run(frame(0xC1, b"\x07garbage"))
    print("corrupt deflate data ->", seen, "close code on the wire:", wire)
    err = seen[-1].data if seen and hasattr(seen[-1], "data") else None
    if ok_control and (wire == 1000 or not isinstance(err, WebSocketError)):
        print(
            "VIOLATION: invalid compressed payload ended the stream with a bare "
            f"{type(err).__name__} (no close code) and the peer was told {wire} (normal closure)"
        )
        return 1
    print("ok")
    return 0


sys.exit(asyncio.run(main()))
