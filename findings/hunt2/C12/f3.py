"""Zero-length messages bypass the reader's flow control completely.

WebSocketDataQueue.feed_data() accounts a message by its payload size only
(`self._size += data.size`) and pauses the transport when that sum exceeds the
limit.  An empty TEXT/BINARY/PING/PONG frame has size 0, so a peer that sends
only empty frames is never paused: every 2..6 wire bytes leave a ~100 byte
WSMessage in the deque for as long as the application is not reading (busy
with a message, or simply slower than the network).

The reader and its queue are driven exactly as web_protocol/client_proto drive
them (feed_data() per read, reads stop while the transport is paused).  Control:
the same flood with 1-byte payloads is paused after ~128 Ki messages.
"""
import asyncio
import sys
import tracemalloc

import aiohttp
from aiohttp._websocket.reader import WebSocketDataQueue, WebSocketReader
from aiohttp.base_protocol import BaseProtocol

print("aiohttp from", aiohttp.__file__)

FRAMES = 2_000_000


class Transport(asyncio.Transport):
    def __init__(self) -> None:
        super().__init__()
        self.paused = False

    def pause_reading(self) -> None:
        self.paused = True

    def resume_reading(self) -> None:
        self.paused = False


def flood(payload: bytes) -> tuple[int, int, int]:
    loop = asyncio.new_event_loop()
    proto = BaseProtocol(loop)
    proto._upgraded = True  # as after the 101 handshake
    tr = Transport()
    proto.transport = tr
    queue = WebSocketDataQueue(proto, 2**16, loop=loop)
    reader = WebSocketReader(queue, 4 * 1024 * 1024, compress=False, decode_text=True)
    frame = bytes([0x82, len(payload)]) + payload
    read = frame * 4096  # one socket read
    fed = 0
    tracemalloc.start()
    base = tracemalloc.get_traced_memory()[0]
    while fed < FRAMES and not tr.paused:  # a paused transport delivers nothing
        reader.feed_data(read)
        fed += 4096
    grown = tracemalloc.get_traced_memory()[0] - base
    tracemalloc.stop()
    loop.close()
    return fed, len(queue._buffer), grown


def main() -> int:
    fed1, queued1, grown1 = flood(b"x")
    print(f"1-byte messages: transport paused after {fed1} frames, {queued1} queued, +{grown1} bytes")
    fed0, queued0, grown0 = flood(b"")
    print(f"0-byte messages: {fed0} frames accepted, {queued0} queued, +{grown0} bytes, never paused")
    if fed0 >= FRAMES and queued0 == fed0:
        print(
            "VIOLATION: empty messages are never counted by the queue, the transport is never "
            f"paused: {queued0} messages / {grown0} bytes retained from {2 * fed0} wire bytes, unbounded"
        )
        return 1
    print("ok")
    return 0


sys.exit(main())
