"""A protocol violation recorded by the WebSocket reader is erased when the
connection ends before the application has read it.

Peer sends: one valid TEXT message, then a violation (each class below), then
closes its socket.  The handler is a little slow with the first message (it
awaits something between two receive() calls, as every real handler does).

Expected (property C12): the stream ends with an error carrying the close code
of the violation (1002 / 1007 / 1009), independent of when the FIN arrives.
Observed: receive() reports a plain CLOSED (EofStream path), the WebSocketError
and its close code are gone: connection_lost() -> WebSocketReader.feed_eof() ->
WebSocketDataQueue.feed_eof() sets self._exception = None.
"""
import asyncio
import base64
import os
import struct
import sys

import aiohttp
from aiohttp import WSMsgType, web

print("aiohttp from", aiohttp.__file__)


def frame(first_byte: int, payload: bytes, mask: bool = True) -> bytes:
    n = len(payload)
    if n < 126:
        head = bytes([first_byte, (0x80 if mask else 0) | n])
    elif n < 65536:
        head = bytes([first_byte, (0x80 if mask else 0) | 126]) + struct.pack("!H", n)
    else:
        head = bytes([first_byte, (0x80 if mask else 0) | 127]) + struct.pack("!Q", n)
    if not mask:
        return head + payload
    key = os.urandom(4)
    return head + key + bytes(b ^ key[i % 4] for i, b in enumerate(payload))


VIOLATIONS = {
    "reserved bit (RSV2)": (frame(0x81 | 0x20, b"x"), 1002),
    "unknown opcode 3": (frame(0x83, b"x"), 1002),
    "orphan continuation": (frame(0x80, b"x"), 1002),
    "invalid UTF-8 text": (frame(0x81, b"\xff\xfe"), 1007),
    "message above max_msg_size": (frame(0x82, b"a" * 2000), 1009),
    "close with code 1005": (frame(0x88, struct.pack("!H", 1005)), 1002),
}


async def run_case(name: str, bad: bytes, want_code: int, close_first: bool) -> str | None:
    seen: list = []
    done = asyncio.Event()

    async def handler(request: web.Request) -> web.WebSocketResponse:
        ws = web.WebSocketResponse(max_msg_size=1024, autoping=False)
        await ws.prepare(request)
        try:
            while True:
                msg = await ws.receive()
                seen.append((msg.type, getattr(msg.data, "code", msg.data)))
                if msg.type in (WSMsgType.CLOSED, WSMsgType.ERROR, WSMsgType.CLOSE):
                    break
                # some work per message
                await asyncio.sleep(0.05)
            seen.append(("close_code", ws.close_code))
        finally:
            done.set()
        return ws

    app = web.Application()
    app.router.add_get("/", handler)
    runner = web.AppRunner(app)
    await runner.setup()
    site = web.TCPSite(runner, "127.0.0.1", 0)
    await site.start()
    port = site._server.sockets[0].getsockname()[1]

    r, w = await asyncio.open_connection("127.0.0.1", port)
    key = base64.b64encode(os.urandom(16)).decode()
    w.write(
        (
            "GET / HTTP/1.1\r\nHost: x\r\nUpgrade: websocket\r\nConnection: Upgrade\r\n"
            f"Sec-WebSocket-Key: {key}\r\nSec-WebSocket-Version: 13\r\n\r\n"
        ).encode()
    )
    await r.readuntil(b"\r\n\r\n")
    w.write(frame(0x81, b"hello") + bad)
    await w.drain()
    if close_first:
        # the peer goes away right after the bad frame
        w.close()
    await asyncio.wait_for(done.wait(), 5)
    if not close_first:
        w.close()
    await runner.cleanup()

    # What the application must see: hello, then ERROR with the code.
    ok = (
        len(seen) == 3
        and seen[0] == (WSMsgType.TEXT, "hello")
        and seen[1] == (WSMsgType.ERROR, want_code)
    )
    if ok:
        return None
    return f"{name}: peer closes {'right after' if close_first else 'later than'} the bad frame -> {seen}"


async def main() -> int:
    failures = []
    for name, (bad, code) in VIOLATIONS.items():
        # control: the peer keeps the socket open -> error is reported
        res = await run_case(name, bad, code, close_first=False)
        if res:
            print("UNEXPECTED (control failed):", res)
        res = await run_case(name, bad, code, close_first=True)
        if res:
            failures.append(res)
    for f in failures:
        print("VIOLATION:", f)
    if failures:
        print(
            f"{len(failures)} violation classes were reported to the application as a "
            "plain end of stream (CLOSED) instead of ERROR with the close code"
        )
        return 1
    print("ok")
    return 0


sys.exit(asyncio.run(main()))
