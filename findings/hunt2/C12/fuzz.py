import asyncio, os, random, struct, sys, zlib
import aiohttp
from aiohttp._websocket.reader_py import WebSocketReader, WebSocketDataQueue
from aiohttp._websocket.models import WebSocketError
from aiohttp.base_protocol import BaseProtocol
from aiohttp.streams import EofStream

print(aiohttp.__file__)
ALLOWED = {1000,1001,1002,1003,1007,1008,1009,1010,1011,1012,1013,1014}

class Viol(Exception):
    def __init__(self, code, why): self.code=code; self.why=why

def ref_decode(stream, compress, decode_text, max_size, strict_ge=True):
    """whole-stream reference decoder -> (msgs, code|None)"""
    out=[]; pos=0; n=len(stream)
    started=None; parts=b""; comp_msg=False
    inflater = zlib.decompressobj(wbits=-15)
    try:
        while True:
            if n-pos<2: break
            b0,b1=stream[pos],stream[pos+1]
            fin=b0>>7; rsv1=(b0>>6)&1; rsv2=(b0>>5)&1; rsv3=(b0>>4)&1; op=b0&15
            if rsv2 or rsv3 or (rsv1 and not compress): raise Viol(1002,'rsv')
            if op not in (0,1,2,8,9,10): raise Viol(1002,'opcode')
            if op>7 and not fin: raise Viol(1002,'frag ctrl')
            mask=b1>>7; ln=b1&127
            if op>7 and ln>125: raise Viol(1002,'ctrl len')
            if op>7 and rsv1: raise Viol(1002,'rsv ctrl')
            if op<=7:
                if started is None or True:
                    pass
                if op!=0 or started is None:
                    # first frame of message (or orphan continuation)
                    pass
                if started is not None and rsv1: raise Viol(1002,'rsv1 on continuation')
            hp=pos+2
            if ln==126:
                if n-hp<2: break
                ln=struct.unpack('!H',stream[hp:hp+2])[0]; hp+=2
            elif ln==127:
                if n-hp<8: break
                ln=struct.unpack('!Q',stream[hp:hp+8])[0]; hp+=8
                if ln>sys.maxsize: raise Viol(1009,'len64')
            if max_size and op<=7:
                if (ln >= max_size-len(parts)) if strict_ge else (ln > max_size-len(parts)):
                    raise Viol(1009,'too big')
            if mask:
                if n-hp<4: break
                key=stream[hp:hp+4]; hp+=4
            if n-hp<ln: break
            payload=stream[hp:hp+ln]; 
            if mask: payload=bytes(b^key[i%4] for i,b in enumerate(payload))
            pos=hp+ln
            if op<=7:
                if op==0 and started is None: raise Viol(1002,'orphan cont')
                if op!=0 and started is not None: raise Viol(1002,'new msg inside')
                if op!=0:
                    comp_msg=bool(rsv1)
                if not fin:
                    if op!=0: started=op
                    parts+=payload
                    continue
                typ = started if op==0 else op
                started=None
                data=parts+payload; parts=b""
                if comp_msg:
                    if max_size:
                        data2=inflater.decompress(data+b"\x00\x00\xff\xff", max_size+1)
                        if len(data2)>max_size: raise Viol(1009,'inflate too big')
                    else:
                        data2=inflater.decompress(data+b"\x00\x00\xff\xff")
                    data=data2
                if typ==1:
                    if decode_text:
                        try: data=data.decode('utf-8')
                        except UnicodeDecodeError: raise Viol(1007,'utf8')
                    out.append(('T',data))
                else: out.append(('B',data))
            elif op==8:
                if len(payload)==1: raise Viol(1002,'close len 1')
                if len(payload)>=2:
                    code=struct.unpack('!H',payload[:2])[0]
                    if code>4999 or (code<3000 and code not in ALLOWED): raise Viol(1002,'close code')
                    try: reason=payload[2:].decode('utf-8')
                    except UnicodeDecodeError: raise Viol(1007,'close utf8')
                    out.append(('C',code,reason))
                else: out.append(('C',0,''))
            elif op==9: out.append(('PI',payload))
            else: out.append(('PO',payload))
    except Viol as v:
        return out, v.code
    except zlib.error:
        return out, 'zlib'
    return out, None

class P(BaseProtocol):
    def __init__(self, loop):
        super().__init__(loop); self._upgraded=True
        class T:
            def pause_reading(s): pass
            def resume_reading(s): pass
        self.transport=T()

def run_aio(loop, stream, cuts, compress, decode_text, max_size):
    proto=P(loop)
    q=WebSocketDataQueue(proto, 65536, loop=loop)
    r=WebSocketReader(q, max_size, compress=compress, decode_text=decode_text)
    prev=0
    for c in list(cuts)+[len(stream)]:
        if c>prev:
            r.feed_data(stream[prev:c]); prev=c
    r.feed_eof()
    out=[]; code=None
    while True:
        try:
            m=q._read_from_buffer()
        except EofStream: break
        except WebSocketError as e: code=e.code; break
        except zlib.error: code='zlib'; break
        t=m.type.name
        if t=='TEXT': out.append(('T',m.data))
        elif t=='BINARY': out.append(('B',m.data))
        elif t=='CLOSE': out.append(('C',m.data,m.extra))
        elif t=='PING': out.append(('PI',m.data))
        elif t=='PONG': out.append(('PO',m.data))
        else: out.append((t,))
    # note: feed_eof wipes the exception; take it from reader
    if r._exc is not None:
        code = r._exc.code if isinstance(r._exc, WebSocketError) else ('zlib' if isinstance(r._exc, zlib.error) else repr(r._exc))
    return out, code

def mkframe(rng, fin, rsv, op, payload, mask=None, lenform=None):
    if mask is None: mask=rng.random()<0.5
    b0=(fin<<7)|(rsv<<4)|op
    n=len(payload)
    if lenform is None:
        lenform = 0 if n<126 else (1 if n<65536 else 2)
    if lenform==0: head=bytes([b0,(mask<<7)|n])
    elif lenform==1: head=bytes([b0,(mask<<7)|126])+struct.pack('!H',n)
    else: head=bytes([b0,(mask<<7)|127])+struct.pack('!Q',n)
    if mask:
        key=bytes(rng.randrange(256) for _ in range(4))
        return head+key+bytes(b^key[i%4] for i,b in enumerate(payload))
    return head+payload

def gen_stream(rng, compress, max_size):
    frames=[]
    deflater=zlib.compressobj(wbits=-15)
    nmsg=rng.randrange(1,6)
    def rand_payload(text):
        k=rng.choice([0,0,1,2,5,20,125,126,127,200, max(0,max_size-2) if max_size else 300, max_size-1 if max_size else 70000 if rng.random()<0.05 else 10])
        k=max(0,min(k,3000))
        if text:
            s=''.join(rng.choice('abé€\U0001f600') for _ in range(k))
            return s.encode()[:k] if rng.random()<0.1 else s.encode()
        return bytes(rng.randrange(256) for _ in range(k))
    def ctrl():
        op=rng.choice([8,9,10])
        if op==8:
            r=rng.random()
            if r<0.3: p=b''
            elif r<0.8: p=struct.pack('!H',rng.choice([1000,1001,1002,1003,1004,1005,1006,1007,1011,1012,1013,1014,1015,1016,2999,3000,4999,5000,999,0,65535]))+rng.choice([b'',b'bye','€'.encode(),b'\xff'])
            else: p=b'\x03'
        else: p=bytes(rng.randrange(256) for _ in range(rng.choice([0,1,125])))
        return mkframe(rng,1,0,op,p)
    for _ in range(nmsg):
        r=rng.random()
        if r<0.2:
            frames.append(ctrl()); continue
        text=rng.random()<0.5
        data=rand_payload(text)
        comp = compress and rng.random()<0.6
        if comp:
            mode=rng.random()
            body=deflater.compress(data)+deflater.flush(zlib.Z_SYNC_FLUSH)
            assert body.endswith(b'\x00\x00\xff\xff'); body=body[:-4]
        else: body=data
        op=1 if text else 2
        nfrag=rng.choice([1,1,2,3])
        if nfrag==1:
            frames.append(mkframe(rng,1,4 if comp else 0,op,body))
        else:
            cutp=sorted(rng.randrange(len(body)+1) for _ in range(nfrag-1))
            pieces=[body[a:b] for a,b in zip([0]+cutp,cutp+[len(body)])]
            for i,pc in enumerate(pieces):
                frames.append(mkframe(rng, 1 if i==len(pieces)-1 else 0, (4 if comp else 0) if i==0 else 0, op if i==0 else 0, pc))
                if rng.random()<0.2: frames.append(ctrl())
    # inject a violation sometimes
    if rng.random()<0.7:
        kind=rng.randrange(12)
        pos=rng.randrange(len(frames)+1)
        if kind==0: bad=mkframe(rng,1,rng.choice([1,2,3,4,5,6,7]),rng.choice([0,1,2,8,9,10]),b'x')
        elif kind==1: bad=mkframe(rng,1,0,rng.choice([3,4,5,6,7,11,12,13,14,15]),b'x')
        elif kind==2: bad=mkframe(rng,0,0,rng.choice([8,9,10]),b'')
        elif kind==3: bad=mkframe(rng,1,0,rng.choice([8,9,10]),b'x'*126)
        elif kind==4: bad=mkframe(rng,rng.choice([0,1]),0,0,b'zz')
        elif kind==5: bad=mkframe(rng,1,0,1,b'\xc3\x28')
        elif kind==6: bad=mkframe(rng,1,0,8,struct.pack('!H',1000)+b'\xff')
        elif kind==7: bad=mkframe(rng,1,0,8,struct.pack('!H',rng.choice([0,999,1004,1005,1006,1015,1016,2999,5000])))
        elif kind==8: bad=mkframe(rng,rng.choice([0,1]),0,rng.choice([1,2]),b'q'*(min(max_size or 100, 5000)+rng.choice([-1,0,1])))
        elif kind==9: bad=mkframe(rng,rng.choice([0,1]),0,rng.choice([1,2]),b'new')
        elif kind==10: bad=bytes(rng.randrange(256) for _ in range(rng.randrange(1,12)))
        else: bad=mkframe(rng,1,0,2,b'abc',lenform=rng.choice([1,2]))
        frames.insert(pos,bad)
    if rng.random()<0.2:
        s=b''.join(frames); return s[:rng.randrange(len(s)+1)]
    return b''.join(frames)

def main():
    seed=int(sys.argv[1]) if len(sys.argv)>1 else 1
    iters=int(sys.argv[2]) if len(sys.argv)>2 else 2000
    rng=random.Random(seed)
    loop=asyncio.new_event_loop()
    bad=0
    for it in range(iters):
        compress=rng.random()<0.5
        decode_text=rng.random()<0.7
        max_size=rng.choice([0,1,2,16,130,1000,4*1024*1024])
        stream=gen_stream(rng,compress,max_size)
        ref=ref_decode(stream,compress,decode_text,max_size)
        n=len(stream)
        segs=[[], list(range(1,n))]
        if n<400:
            segs+= [[c] for c in range(1,n)]
        for _ in range(30):
            if n>2: segs.append(sorted(rng.sample(range(1,n),2)))
        for cuts in segs:
            got=run_aio(loop,stream,cuts,compress,decode_text,max_size)
            if got!=ref:
                bad+=1
                print('MISMATCH it',it,'compress',compress,'decode',decode_text,'max',max_size,'cuts',cuts[:6],'len',n)
                print(' stream',stream[:80].hex())
                print(' ref',str(ref)[:300]); print(' got',str(got)[:300])
                break
        if bad>8: break
    print('done bad=',bad)
main()
