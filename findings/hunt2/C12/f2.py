"""Client side: after the WebSocket reader has ended the stream with a protocol
error, every byte the peer sends afterwards is retained without bound and
without backpressure.

ResponseHandler.data_received() drops the payload parser when feed_data()
reports the error (eof=True) and from then on takes the branch that exists for
the short window between the 101 response and set_parser():
    if self._upgraded or self._parser is None:  self._tail += data
The transport is neither paused nor closed, so a peer can make a client that
is not inside receive() at that moment (busy with a message, or a send-only
producer) buffer an arbitrary amount of memory; `bytes +=` also makes the
event loop spend quadratic time copying.

Control: without the violation the same flood is stopped by the queue's
backpressure after ~128 KiB of buffered messages.
"""
import asyncio
import base64
import hashlib
import sys
import tracemalloc

import aiohttp

print("aiohttp from", aiohttp.__file__)

WS_KEY = b"258EAFA5-E914-47DA-95CA-C5AB0DC85B11"
CHUNK = b"\x82\x7e\xff\xf8" + b"z" * 65528  # valid unmasked binary frame
SECONDS = 4.0
BOUND = 4 * 1024 * 1024  # generous: queue limit is 128 KiB, read size 256 KiB


async def scenario(violate: bool) -> tuple[int, int, int, str]:
    sent = 0

    async def serve(r: asyncio.StreamReader, w: asyncio.StreamWriter) -> None:
        nonlocal sent
        head = await r.readuntil(b"\r\n\r\n")
        key = [
            line.split(b":", 1)[1].strip()
            for line in head.split(b"\r\n")
            if line.lower().startswith(b"sec-websocket-key")
        ][0]
        acc = base64.b64encode(hashlib.sha1(key + WS_KEY).digest())
        w.write(
            b"HTTP/1.1 101 Switching Protocols\r\nUpgrade: websocket\r\n"
            b"Connection: Upgrade\r\nSec-WebSocket-Accept: " + acc + b"\r\n\r\n"
        )
        w.write(b"\x81\x02hi")
        if violate:
            w.write(b"\x83\x01x")  # unknown opcode 3: the reader ends the stream (1002)
        try:
            while not w.transport.is_closing():
                w.write(CHUNK)
                await w.drain()
                sent += len(CHUNK)
        except (ConnectionError, asyncio.CancelledError):
            pass

    server = await asyncio.start_server(serve, "127.0.0.1", 0)
    port = server.sockets[0].getsockname()[1]
    async with aiohttp.ClientSession() as session:
        ws = await session.ws_connect(f"http://127.0.0.1:{port}/", autoclose=False)
        msg = await ws.receive()
        assert msg.data == "hi", msg
        tracemalloc.start()
        base = tracemalloc.get_traced_memory()[0]
        # The application is busy with that message / only sends.
        await asyncio.sleep(SECONDS)
        grown = tracemalloc.get_traced_memory()[0] - base
        pushed = sent
        tracemalloc.stop()
        proto = ws._response.connection.protocol
        tail = len(proto._tail)
        nxt = await ws.receive()
        await ws.close()
    server.close()
    return pushed, grown, tail, nxt.type.name


async def main() -> int:
    sent, grown, tail, nxt = await scenario(violate=False)
    print(
        f"control : peer pushed {sent} bytes in {SECONDS}s, client memory grew by {grown} "
        f"(protocol._tail={tail}); next receive() -> {nxt}"
    )
    sent, grown, tail, nxt = await scenario(violate=True)
    print(
        f"violated: peer pushed {sent} bytes in {SECONDS}s, client memory grew by {grown} "
        f"(protocol._tail={tail}); next receive() -> {nxt}"
    )
    if grown > BOUND and tail > BOUND:
        print(
            "VIOLATION: the stream was ended with a protocol error, yet the client went on "
            f"reading and retained {tail} bytes sent after the violation "
            "(transport not paused, not closed; grows for as long as the peer sends)"
        )
        return 1
    print("ok")
    return 0


sys.exit(asyncio.run(main()))
