import asyncio, os, sys, tempfile, pathlib, itertools
import aiohttp
from aiohttp import web
sys.path.insert(0, os.path.dirname(__file__))
from common import request, serve
from email.utils import formatdate

async def main():
    root = pathlib.Path(tempfile.mkdtemp())
    f = root / "f"; B = b"ABCDE"; f.write_bytes(B)
    T = 1_700_000_000
    os.utime(f, ns=(T*10**9 + 500_000_000, T*10**9 + 500_000_000))
    L = T + 1
    app = web.Application(); app.router.add_static("/st", root)
    runner, port = await serve(app)
    r, w = await asyncio.open_connection("127.0.0.1", port)
    st, hd, _ = await request(r, w, "/st/f")
    E = hd["etag"]; print(E, hd["last-modified"], formatdate(L, usegmt=True))
    d = lambda t: formatdate(t, usegmt=True)
    etags = {None: None, "match": E, "weak": "W/" + E, "other": '"zzz"', "star": "*", "list": '"a", ' + E, "garbage": "xyz"}
    dates = {None: None, "eq": d(L), "older": d(L - 10), "newer": d(L + 10), "bad": "yesterday"}
    ifr = {None: None, "etag": E, "weak": "W/" + E, "other": '"zzz"', "eq": d(L), "older": d(L-10), "newer": d(L+10), "bad": "zz"}
    rng = {None: None, "ok": "bytes=1-2"}
    bad = 0
    for im, inm, ims, ius, ir, rg in itertools.product(etags, etags, dates, dates, ifr, rng):
        h = []
        if im: h.append(("If-Match", etags[im]))
        if inm: h.append(("If-None-Match", etags[inm]))
        if ims: h.append(("If-Modified-Since", dates[ims]))
        if ius: h.append(("If-Unmodified-Since", dates[ius]))
        if ir: h.append(("If-Range", ifr[ir]))
        if rg: h.append(("Range", rng[rg]))
        st, hd, body = await request(r, w, "/st/f", h)
        # model
        if im and im not in ("match", "star", "list"): exp = 412
        elif not im and ius in ("older",): exp = 412
        elif inm in ("match", "weak", "star", "list"): exp = 304
        elif not inm and ims in ("eq", "newer"): exp = 304
        elif rg and (ir in (None, "etag", "eq")): exp = 206
        else: exp = 200
        ok = st == exp and (st != 200 or body == B) and (st != 206 or (body == B[1:3] and hd["content-range"] == "bytes 1-2/5"))
        if not ok:
            bad += 1
            if "13:31 GMT'), ('Range" not in str(h): print("BAD", h, "exp", exp, "got", st, body)
    print("bad", bad)
    await runner.cleanup()
asyncio.run(main())
