import asyncio, os, sys, tempfile, pathlib, re, html
import aiohttp
from aiohttp import web
print(aiohttp.__file__)
sys.path.insert(0, os.path.dirname(__file__))
from exp2 import req

async def main():
    tmp = pathlib.Path(tempfile.mkdtemp())
    root = tmp / "static"; root.mkdir()
    names = ["a b", "a%2Fb", "a?b", "a#b", "a%b", "a+b", "a;b", "a&b", 'a"b', "a<b>", "ü", "%2e%2e", "a\\b", "...", ".hidden", "a\nb", "a%25b", "a%2fb", "%", "%2", "a%zz", "a:b", "C:", "~", "a'b", "a\tb", "a\x7fb", "%25", "a=b", "a@b", "a,b", "a|b", "a^b", "a`b", "a{b}", "a[b]", " ", "a%00b"]
    names_b = [b"bad\xff"]
    for nm in names:
        (root / nm).write_bytes(nm.encode())
    sub = root / "d i%r"; sub.mkdir(); (sub / "x y").write_bytes(b"x y")
    app = web.Application()
    app.router.add_static("/st", root, show_index=True)
    runner = web.AppRunner(app); await runner.setup()
    site = web.TCPSite(runner, "127.0.0.1", 0); await site.start()
    port = site._server.sockets[0].getsockname()[1]
    r, w = await asyncio.open_connection("127.0.0.1", port)
    st, hd, body = await req(r, w, "/st/")
    print(st)
    links = re.findall(r'<li><a href="([^"]*)">(.*?)</a></li>', body.decode(), re.S)
    print(len(links), len(names) + 1)
    for href, text in links:
        st, hd, b = await req(r, w, href)
        nm = html.unescape(text)
        if nm.endswith("/"):
            print("dir", href, st); 
            for h2, t2 in re.findall(r'<li><a href="([^"]*)">(.*?)</a></li>', b.decode(), re.S):
                s2, _, b2 = await req(r, w, h2); print("   ", h2, s2, b2)
            continue
        if st != 200 or b != nm.encode():
            print("BAD", repr(nm), href, st, b[:40])
    await runner.cleanup()
if __name__ == "__main__":
    asyncio.run(main())
