import asyncio, os, sys, tempfile, pathlib, re, html, zlib, time
import aiohttp
from aiohttp import web
sys.path.insert(0, os.path.dirname(__file__))
from exp2 import req

@web.middleware
async def mw(request, handler):
    resp = await handler(request)
    resp.enable_compression()
    return resp

async def main():
    tmp = pathlib.Path(tempfile.mkdtemp())
    root = tmp / "static"; root.mkdir()
    B = bytes(range(256)) * 4
    (root / "f.bin").write_bytes(B)
    app = web.Application(middlewares=[mw])
    app.router.add_static("/st", root, show_index=True)
    runner = web.AppRunner(app); await runner.setup()
    site = web.TCPSite(runner, "127.0.0.1", 0); await site.start()
    port = site._server.sockets[0].getsockname()[1]
    r, w = await asyncio.open_connection("127.0.0.1", port)
    for h in ([("Range", "bytes=10-19"), ("Accept-Encoding", "gzip")], [("Range", "bytes=10-19"), ("Accept-Encoding", "deflate")], [("Range", "bytes=10-19")], [("Accept-Encoding", "gzip")]):
        st, hd, body = await req(r, w, "/st/f.bin", h)
        print(st, hd, len(body), body[:40])
    await runner.cleanup()
asyncio.run(main())
