"""show_index: one entry whose name is not valid UTF-8 turns the whole listing into a 500.

File names on POSIX are bytes; Python hands undecodable ones over with
surrogate escapes.  StaticResource._directory_as_html() puts the names into
the page and Response(text=...) encodes it strictly, so
UnicodeEncodeError escapes from the handler: the directory (listing enabled,
everything inside the root) cannot be listed at all, the client gets
"500 Internal Server Error" and the connection is closed.  Sibling of F47/F48
(other listing/lookup paths that ended in a 500).
"""
import asyncio
import os
import pathlib
import sys
import tempfile

import aiohttp
from aiohttp import web

sys.path.insert(0, str(pathlib.Path(__file__).parent))
from common import request, serve  # noqa: E402


async def main() -> int:
    print("aiohttp from", aiohttp.__file__)
    root = pathlib.Path(tempfile.mkdtemp())
    (root / "ok.txt").write_bytes(b"ok")
    (root / "sub").mkdir()
    (root / "sub" / "fine.txt").write_bytes(b"fine")
    # e.g. a Latin-1 name unpacked from an old archive
    with open(os.path.join(os.fsencode(root / "sub"), b"caf\xe9.txt"), "wb") as f:
        f.write(b"coffee")

    failures = []
    for sandbox_broken in (False, True):
        app = web.Application()
        app.router.add_static(
            "/st", root, show_index=True, break_symlink_sandbox=sandbox_broken
        )
        runner, port = await serve(app)
        try:
            r, w = await asyncio.open_connection("127.0.0.1", port)
            st, hd, body = await request(r, w, "/st/")
            print("listing of the root:", st)
            r, w = await asyncio.open_connection("127.0.0.1", port)
            st, hd, body = await request(r, w, "/st/sub/")
            print(
                f"break_symlink_sandbox={sandbox_broken}: listing of /st/sub/ ->",
                st,
                body[:60],
            )
            if st != 200 or b"fine.txt" not in body:
                failures.append(
                    f"break_symlink_sandbox={sandbox_broken}: GET /st/sub/ -> {st} "
                    "instead of the enabled directory listing"
                )
        finally:
            await runner.cleanup()

    for x in failures:
        print("FAIL:", x)
    return 1 if failures else 0


sys.exit(asyncio.run(main()))
