"""Range x on-the-fly compression on a static file.

A middleware (the usual way to switch compression on for a whole application)
calls response.enable_compression() on whatever the handler returned.  For a
static file requested with a Range header, FileResponse first cuts the slice
(status 206, Content-Range: bytes 10-19/1024) and then deflates/gzips *the
slice*: the body on the wire is not bytes 10-19 of anything the server ever
serves under that ETag, its length is not the 10 bytes Content-Range announces,
and the strong ETag is the one the identity and the full gzip representation
carry too.  A client that resumes a `Accept-Encoding: gzip` download with
Range/If-Range appends these bytes to its partial gzip stream and ends up with
garbage.
"""
import asyncio
import gzip
import pathlib
import sys
import tempfile

import aiohttp
from aiohttp import web

sys.path.insert(0, str(pathlib.Path(__file__).parent))
from common import request, serve  # noqa: E402


async def compress_mw(request, handler):
    resp = await handler(request)
    resp.enable_compression()
    return resp


async def main() -> int:
    print("aiohttp from", aiohttp.__file__)
    root = pathlib.Path(tempfile.mkdtemp())
    data = bytes(range(256)) * 4
    (root / "f.bin").write_bytes(data)

    app = web.Application(middlewares=[compress_mw])
    app.router.add_static("/st", root)
    runner, port = await serve(app)
    failures = []
    try:
        r, w = await asyncio.open_connection("127.0.0.1", port)

        # 1. what a client that accepts gzip gets for the whole file
        st, hd, full = await request(
            r, w, "/st/f.bin", [("Accept-Encoding", "gzip")]
        )
        assert st == 200 and hd.get("content-encoding") == "gzip", (st, hd)
        etag = hd["etag"]
        assert gzip.decompress(full) == data
        print(f"full: 200, Content-Encoding gzip, {len(full)} encoded bytes, ETag {etag}")

        # 2. the same client resumes after the first 100 encoded bytes
        st, hd, part = await request(
            r,
            w,
            "/st/f.bin",
            [("Accept-Encoding", "gzip"), ("Range", "bytes=100-"), ("If-Range", etag)],
        )
        print(
            f"resume: {st}, Content-Range {hd.get('content-range')!r}, "
            f"Content-Encoding {hd.get('content-encoding')!r}, "
            f"Content-Length {hd.get('content-length')!r}, ETag {hd.get('etag')}, "
            f"{len(part)} body bytes"
        )
        if st == 206:
            m = hd.get("content-range", "")
            first, last = map(int, m.split()[1].split("/")[0].split("-"))
            announced = last - first + 1
            if hd.get("content-encoding"):
                # Content-Range speaks about the encoded representation
                if len(part) != announced:
                    failures.append(
                        f"206 announces {announced} bytes ({m}) but carries {len(part)}"
                    )
                if full[:100] + part != full:
                    failures.append(
                        "first 100 bytes of the 200 response + the 206 body is not "
                        "the representation the ETag names"
                    )
            elif part != data[first : last + 1]:
                failures.append("identity 206 with the wrong slice")
        elif st == 200:
            pass  # ignoring Range when the body is compressed is fine
        else:
            failures.append(f"unexpected status {st}")

        # 3. small explicit slice: the enumeration the property talks about
        st, hd, body = await request(
            r, w, "/st/f.bin", [("Accept-Encoding", "deflate"), ("Range", "bytes=10-19")]
        )
        print(
            f"slice: {st}, Content-Range {hd.get('content-range')!r}, "
            f"Content-Encoding {hd.get('content-encoding')!r}, body {body!r}"
        )
        if st == 206 and body != data[10:20] and len(body) != 10:
            failures.append(
                f"Range: bytes=10-19 -> 206 {hd.get('content-range')} with a "
                f"{len(body)}-byte body that is not data[10:20]"
            )
    finally:
        await runner.cleanup()

    for f in failures:
        print("FAIL:", f)
    return 1 if failures else 0


sys.exit(asyncio.run(main()))
