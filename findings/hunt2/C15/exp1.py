import asyncio, os, sys, tempfile, pathlib
import aiohttp
from aiohttp import web
print(aiohttp.__file__)

async def raw(port, target, headers="", method="GET"):
    r, w = await asyncio.open_connection("127.0.0.1", port)
    w.write(f"{method} {target} HTTP/1.1\r\nHost: x\r\nConnection: close\r\n{headers}\r\n".encode("latin-1"))
    data = await r.read()
    w.close()
    return data

async def main():
    tmp = pathlib.Path(tempfile.mkdtemp())
    root = tmp / "static"; root.mkdir()
    (root / "file.txt").write_bytes(b"INSIDE")
    (root / "c").mkdir(); (root / "c" / "file.txt").write_bytes(b"OTHER")
    (tmp / "secret.txt").write_bytes(b"SECRET")
    os.symlink(tmp / "secret.txt", root / "link.txt")
    os.symlink(tmp, root / "uplink")
    for fs in (False, True):
      for si in (False, True):
        app = web.Application()
        app.router.add_static("/static", root, break_symlink_sandbox=fs, show_index=si)
        runner = web.AppRunner(app); await runner.setup()
        site = web.TCPSite(runner, "127.0.0.1", 0); await site.start()
        port = site._server.sockets[0].getsockname()[1]
        print("=== follow", fs, "index", si)
        for t in sys.argv[1:] or ["/static/file.txt", "/./static/file.txt", "/static/%ED%A0%80", "/static/%ff", "/static/a%00b", "/static/link.txt", "/static/uplink/secret.txt", "/static/uplink/", "/static/", "/static", "/static/%2e%2e/secret.txt", "/static/..%2Fsecret.txt", "/static/uplink/..", "/static/c/..", "/static/uplink/../file.txt"]:
            d = await raw(port, t)
            head, _, body = d.partition(b"\r\n\r\n")
            print(t, "->", head.split(b"\r\n")[0], body[:80])
        await runner.cleanup()
asyncio.run(main())
