import asyncio, os, sys, tempfile, pathlib
import aiohttp
from aiohttp import web
sys.path.insert(0, os.path.dirname(__file__))
from common import request, serve

async def main():
    root = pathlib.Path(tempfile.mkdtemp())
    B = os.urandom(3_000_000)
    (root / "f").write_bytes(B)
    (root / "e").write_bytes(b"")
    app = web.Application(); app.router.add_static("/st", root)
    runner, port = await serve(app)
    r, w = await asyncio.open_connection("127.0.0.1", port)
    reqs = [("f", "bytes=0-9"), ("f", None), ("e", None), ("f", "bytes=-5"), ("nope", None), ("f", "bytes=9-1"), ("e", "bytes=0-"), ("f", "bytes=2999999-")]
    data = b""
    for n, rg in reqs:
        data += f"GET /st/{n} HTTP/1.1\r\nHost: x\r\n".encode() + (f"Range: {rg}\r\n".encode() if rg else b"") + b"\r\n"
    w.write(data)
    for n, rg in reqs:
        head = await asyncio.wait_for(r.readuntil(b"\r\n\r\n"), 5)
        lines = head.decode().split("\r\n"); hd = {l.split(":")[0].lower(): l.split(":",1)[1].strip() for l in lines[1:] if l}
        if "content-length" in hd: body = await r.readexactly(int(hd["content-length"]))
        else:
            body = b""
            while True:
                sz = int((await r.readline()).strip(), 16); c = await r.readexactly(sz+2)
                if not sz: break
                body += c[:-2]
        print(n, rg, lines[0], hd.get("content-range"), len(body), body == B if len(body) > 100 else body)
    await runner.cleanup()
asyncio.run(main())
