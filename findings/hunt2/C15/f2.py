"""If-Range with an HTTP-date is compared with `<=` instead of for equality.

RFC 9110 13.1.5: the If-Range condition is true only if the date *exactly
matches* the Last-Modified of the selected representation.  FileResponse uses
`file_mtime <= ifrange.timestamp()`.  So when the file on disk is replaced by
one with an OLDER mtime (rollback of a deploy, `cp -p` / `rsync -t` / tar
extraction of a previous build), a client that resumes its download with
`Range: bytes=N-` + `If-Range: <Last-Modified it saw>` is given 206 with the
tail of the other file, and silently stitches two different files together.
The sibling case (entity-tag in If-Range, F45) was repaired; the date form
still answers 206 for a representation the client does not have.
"""
import asyncio
import os
import pathlib
import sys
import tempfile

import aiohttp
from aiohttp import web

sys.path.insert(0, str(pathlib.Path(__file__).parent))
from common import request, serve  # noqa: E402


async def main() -> int:
    print("aiohttp from", aiohttp.__file__)
    root = pathlib.Path(tempfile.mkdtemp())
    f = root / "app.bin"
    new = b"N" * 64
    old = b"o" * 64
    t_new = 1_700_000_000
    t_old = t_new - 86400

    app = web.Application()
    app.router.add_static("/st", root)
    runner, port = await serve(app)
    failures = []
    try:
        r, w = await asyncio.open_connection("127.0.0.1", port)

        f.write_bytes(new)
        os.utime(f, (t_new, t_new))
        st, hd, body = await request(r, w, "/st/app.bin")
        assert st == 200 and body == new
        last_modified = hd["last-modified"]
        print("client downloads; Last-Modified:", last_modified)
        have = body[:32]  # the transfer broke here

        # the previous release is rolled back, times preserved
        f.write_bytes(old)
        os.utime(f, (t_old, t_old))

        for method in ("GET", "HEAD"):
            st, hd, body = await request(
                r,
                w,
                "/st/app.bin",
                [("Range", "bytes=32-"), ("If-Range", last_modified)],
                method,
            )
            print(
                f"{method} resume: {st} Last-Modified {hd.get('last-modified')!r} "
                f"Content-Range {hd.get('content-range')!r} body {body!r}"
            )
            if st == 206 and hd.get("last-modified") != last_modified:
                failures.append(
                    f"{method}: If-Range {last_modified!r} does not match the current "
                    f"Last-Modified {hd.get('last-modified')!r}, but the answer is 206"
                )
            if method == "GET" and st == 206 and have + body not in (new, old):
                failures.append(
                    f"client ends up with {have + body!r}: neither version of the file"
                )

        # control: a date that is not any Last-Modified the server ever sent
        st, hd, body = await request(
            r,
            w,
            "/st/app.bin",
            [("Range", "bytes=0-0"), ("If-Range", "Fri, 01 Jan 2100 00:00:00 GMT")],
        )
        print("If-Range in the year 2100:", st, hd.get("content-range"))
        if st == 206:
            failures.append("If-Range with an arbitrary future date answered with 206")
    finally:
        await runner.cleanup()

    for x in failures:
        print("FAIL:", x)
    return 1 if failures else 0


sys.exit(asyncio.run(main()))
