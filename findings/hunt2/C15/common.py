"""Helpers shared by the hunt scripts: a tiny raw HTTP/1.1 client over a kept-alive socket."""
import asyncio


async def request(r, w, target, headers=(), method="GET", timeout=5):
    h = "".join(f"{k}: {v}\r\n" for k, v in headers)
    w.write(f"{method} {target} HTTP/1.1\r\nHost: x\r\n{h}\r\n".encode("latin-1"))
    head = await asyncio.wait_for(r.readuntil(b"\r\n\r\n"), timeout)
    lines = head.decode("latin-1").split("\r\n")
    status = int(lines[0].split()[1])
    hd = {}
    for line in lines[1:]:
        if line:
            k, _, v = line.partition(":")
            hd[k.strip().lower()] = v.strip()
    body = b""
    if method != "HEAD" and status not in (304, 204):
        if "content-length" in hd:
            body = await asyncio.wait_for(
                r.readexactly(int(hd["content-length"])), timeout
            )
        elif hd.get("transfer-encoding") == "chunked":
            while True:
                sz = int((await r.readline()).strip(), 16)
                chunk = await r.readexactly(sz + 2)
                if sz == 0:
                    break
                body += chunk[:-2]
        else:
            body = await asyncio.wait_for(r.read(), timeout)
    return status, hd, body


async def serve(app):
    from aiohttp import web

    runner = web.AppRunner(app)
    await runner.setup()
    site = web.TCPSite(runner, "127.0.0.1", 0)
    await site.start()
    port = site._server.sockets[0].getsockname()[1]
    return runner, port
