import asyncio, os, sys, tempfile, pathlib, re, html
import aiohttp
from aiohttp import web
sys.path.insert(0, os.path.dirname(__file__))
from exp2 import req

async def main():
    tmp = pathlib.Path(tempfile.mkdtemp())
    root = tmp / "static"; root.mkdir()
    (root / "ok.txt").write_bytes(b"ok")
    open(os.path.join(os.fsencode(root), b"bad\xff.txt"), "wb").write(b"bad")
    app = web.Application()
    app.router.add_static("/st", root, show_index=True)
    runner = web.AppRunner(app); await runner.setup()
    site = web.TCPSite(runner, "127.0.0.1", 0); await site.start()
    port = site._server.sockets[0].getsockname()[1]
    r, w = await asyncio.open_connection("127.0.0.1", port)
    st, hd, body = await req(r, w, "/st/")
    print(st, body[:300])
    st, hd, body = await req(r, w, "/st/bad%FF.txt")
    print(st, body[:300])
    await runner.cleanup()
asyncio.run(main())
