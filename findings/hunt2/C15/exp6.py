import asyncio, os, sys, tempfile, pathlib, re, random
import aiohttp
from aiohttp import web
sys.path.insert(0, os.path.dirname(__file__))
from exp2 import req

async def main():
    tmp = pathlib.Path(tempfile.mkdtemp())
    root = tmp / "static"; root.mkdir()
    (root / "file.txt").write_bytes(b"INSIDE")
    (root / "c").mkdir(); (root / "c" / "file.txt").write_bytes(b"INSIDE2")
    (tmp / "secret.txt").write_bytes(b"SECRET")
    (tmp / "out").mkdir(); (tmp / "out" / "secret.txt").write_bytes(b"SECRET")
    (tmp / "out" / "secret.txt.gz").write_bytes(b"SECRETGZ")
    (tmp / "static2").mkdir(); (tmp / "static2" / "secret.txt").write_bytes(b"SECRET")
    os.symlink(tmp / "secret.txt", root / "link.txt")
    os.symlink(tmp / "out", root / "uplink")
    os.symlink(tmp / "out" / "secret.txt.gz", root / "file.txt.gz")
    os.symlink(root / "c", root / "inlink")
    os.symlink("..", root / "c" / "up")
    os.mkfifo(root / "fifo")
    toks = ["..", ".", "%2e%2e", "%2E.", ".%2e", "/", "//", "%2f", "%2F", "\\", "%5c", "static", "static2", "c", "file.txt", "secret.txt", "link.txt", "uplink", "inlink", "up", "out", "%00", "%252e", "%25", ";", "?", "C:", str(tmp).lstrip("/"), "%c0%af", "..%2f", "..;", "fifo", "%", "%%32e", "%%32F", " ", "%20"]
    rnd = random.Random(1)
    for fs in (False, True):
      for si in (False, True):
        app = web.Application()
        app.router.add_static("/static", root, break_symlink_sandbox=fs, show_index=si)
        runner = web.AppRunner(app); await runner.setup()
        site = web.TCPSite(runner, "127.0.0.1", 0); await site.start()
        port = site._server.sockets[0].getsockname()[1]
        r, w = await asyncio.open_connection("127.0.0.1", port)
        stats = {}
        for i in range(6000):
            n = rnd.randint(1, 7)
            t = "/static" + rnd.choice(["/", "", "/../static/", "//"]) + rnd.choice(["/", ""]).join(rnd.choice(toks) for _ in range(n))
            t = t.replace(" ", "%20") if rnd.random() < .5 else t.replace(" ", "x")
            hdrs = [("Accept-Encoding", "gzip")] if rnd.random() < .5 else []
            try:
                st, hd, body = await req(r, w, t, hdrs)
            except Exception as e:
                print("EXC", t, repr(e)); r, w = await asyncio.open_connection("127.0.0.1", port); continue
            stats[st] = stats.get(st, 0) + 1
            if hd.get("connection") == "close":
                r, w = await asyncio.open_connection("127.0.0.1", port)
            if st >= 500: print("5xx", fs, si, t, st)
            if b"SECRET" in body and not fs: print("LEAK", fs, si, t, body)
            if b"<html>" in body and not si: print("INDEX", fs, si, t)
            if b"Index of" in body and b"secret" in body and not fs: print("INDEXLEAK", fs, si, t)
        print(fs, si, stats)
        await runner.cleanup()
asyncio.run(main())
