import asyncio, os, sys, tempfile, pathlib
from aiohttp import web
sys.path.insert(0, os.path.dirname(__file__))
from common import request, serve
async def main():
    root = pathlib.Path(tempfile.mkdtemp())
    open(os.path.join(os.fsencode(root), b"caf\xe9.txt"), "wb").write(b"coffee")
    app = web.Application(); app.router.add_static("/st", root)
    runner, port = await serve(app)
    for t in ["/st/caf%E9.txt", "/st/caf%e9.txt", "/st/caf\xe9.txt", "/st/caf%25E9.txt", "/st/caf%ED%B3%A9.txt"]:
        r, w = await asyncio.open_connection("127.0.0.1", port)
        try:
            print(t, (await request(r, w, t))[::2])
        except Exception as e: print(t, repr(e))
    await runner.cleanup()
asyncio.run(main())
