import sys; sys.set_int_max_str_digits(0)
import asyncio, os, tempfile, pathlib, itertools, re
import aiohttp
from aiohttp import web
print(aiohttp.__file__)

async def req(r, w, target, headers=(), method="GET"):
    h = "".join(f"{k}: {v}\r\n" for k, v in headers)
    w.write(f"{method} {target} HTTP/1.1\r\nHost: x\r\n{h}\r\n".encode("latin-1"))
    head = await asyncio.wait_for(r.readuntil(b"\r\n\r\n"), 5)
    lines = head.decode("latin-1").split("\r\n")
    status = int(lines[0].split()[1])
    hd = {}
    for l in lines[1:]:
        if l:
            k, _, v = l.partition(":"); hd[k.strip().lower()] = v.strip()
    body = b""
    if method != "HEAD" and status not in (304, 204):
        if "content-length" in hd:
            body = await asyncio.wait_for(r.readexactly(int(hd["content-length"])), 5)
        elif hd.get("transfer-encoding") == "chunked":
            while True:
                sz = int((await r.readline()).strip(), 16)
                chunk = await r.readexactly(sz + 2)
                if sz == 0: break
                body += chunk[:-2]
        else:
            raise RuntimeError("no framing " + repr(hd))
    return status, hd, body

async def main():
    tmp = pathlib.Path(tempfile.mkdtemp())
    root = tmp / "static"; root.mkdir()
    sizes = [0, 1, 2, 5]
    for n in sizes:
        (root / f"f{n}").write_bytes(bytes(range(65, 65 + n)))
    app = web.Application()
    app.router.add_static("/static", root)
    runner = web.AppRunner(app); await runner.setup()
    site = web.TCPSite(runner, "127.0.0.1", 0); await site.start()
    port = site._server.sockets[0].getsockname()[1]
    r, w = await asyncio.open_connection("127.0.0.1", port)
    bad = 0
    vals = ["", "0", "1", "2", "4", "5", "6", "9"]
    specs = [f"bytes={a}-{b}" for a in vals for b in vals] + ["bytes=1-2,3-4", "bytes=a-b", "bytes", "bytes=--1", "bytes=-1-", "bytes= 0-1", "Bytes=0-1", "items=0-1", "bytes=0-1 ", "bytes=0-"+"9"*5000, "bytes=0-1\xb2", "bytes=\xb2-"]
    for n in sizes:
        B = bytes(range(65, 65 + n))
        for method in ("GET", "HEAD"):
            for spec in specs:
                st, hd, body = await req(r, w, f"/static/f{n}", [("Range", spec)], method)
                m = re.fullmatch(r"bytes=(\d*)-(\d*)", spec, re.ASCII)
                exp = None
                if m and (m.group(1) or m.group(2)):
                    a, b = m.groups()
                    if a:
                        a = int(a); b2 = int(b) if b else None
                        if b2 is not None and b2 < a: exp = ("invalid",)
                        elif a >= n: exp = (416,)
                        else:
                            e = n - 1 if b2 is None else min(b2, n - 1)
                            exp = (206, a, e)
                    else:
                        k = int(b)
                        if k == 0 or n == 0: exp = (416,)
                        else:
                            exp = (206, max(0, n - k), n - 1)
                else:
                    exp = ("invalid",)
                ok = True
                if exp[0] == "invalid":
                    ok = st in (416,) or (st == 200 and (method == "HEAD" or body == B))
                elif exp[0] == 416:
                    ok = st == 416 and hd.get("content-range") == f"bytes */{n}"
                else:
                    _, s, e = exp
                    ok = st == 206 and hd.get("content-range") == f"bytes {s}-{e}/{n}" and hd.get("content-length") == str(e - s + 1) and (method == "HEAD" or body == B[s:e+1])
                if not ok:
                    bad += 1
                    print("BAD", n, method, spec[:40], exp, st, hd.get("content-range"), hd.get("content-length"), body)
    print("bad", bad)
    await runner.cleanup()
if __name__ == "__main__":
    asyncio.run(main())
