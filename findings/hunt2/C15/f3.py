"""A file that shrinks while it is being sent desynchronises the keep-alive connection.

FileResponse announces Content-Length from fstat() and then hands the file to
loop.sendfile() (or to the read()/write() fallback).  Both stop silently at the
new end of file: loop.sendfile() returns the number of bytes it really sent and
FileResponse throws that number away, the fallback loop just ends on an empty
read.  The response is then "finished" although fewer bytes than announced are
on the wire, the connection stays in keep-alive, and the next response on that
connection is written right behind: the client takes its status line, headers
and body for the missing part of the file.

Shown here with a log-like file that is truncated (as logrotate's copytruncate
or an in-place rewrite does) while a slow client downloads it, and a second,
pipelined request for another file.
"""
import asyncio
import os
import pathlib
import socket
import sys
import tempfile

import aiohttp
from aiohttp import web

sys.path.insert(0, str(pathlib.Path(__file__).parent))
from common import serve  # noqa: E402

SIZE = 64 * 1024 * 1024


async def main() -> int:
    print("aiohttp from", aiohttp.__file__)
    root = pathlib.Path(tempfile.mkdtemp())
    big = root / "app.log"
    with big.open("wb") as f:
        f.truncate(SIZE)  # sparse, all zero bytes
    (root / "other.txt").write_bytes(b"OTHER-FILE")

    app = web.Application()
    app.router.add_static("/st", root)
    runner, port = await serve(app)
    rc = 0
    try:
        sock = socket.socket()
        sock.setsockopt(socket.SOL_SOCKET, socket.SO_RCVBUF, 65536)
        sock.setblocking(False)
        loop = asyncio.get_running_loop()
        await loop.sock_connect(sock, ("127.0.0.1", port))
        r, w = await asyncio.open_connection(sock=sock, limit=2**16)
        w.write(
            b"GET /st/app.log HTTP/1.1\r\nHost: x\r\n\r\n"
            b"GET /st/other.txt HTTP/1.1\r\nHost: x\r\n\r\n"
        )
        head = await asyncio.wait_for(r.readuntil(b"\r\n\r\n"), 5)
        status = head.split(b"\r\n")[0]
        length = int(
            [l for l in head.split(b"\r\n") if l.lower().startswith(b"content-length")][
                0
            ].split(b":")[1]
        )
        print(status.decode(), "Content-Length", length)
        assert length == SIZE
        # the client is slow: the server is now parked inside sendfile()
        await asyncio.sleep(0.5)
        os.truncate(big, 0)  # copytruncate / rewrite in place
        print("file truncated while the response is in flight")

        got = 0
        tail = b""
        try:
            while got < length:
                chunk = await asyncio.wait_for(r.read(1 << 20), 3)
                if not chunk:
                    print(f"connection closed after {got} of {length} body bytes")
                    break
                got += len(chunk)
                tail = (tail + chunk)[-400:]
        except asyncio.TimeoutError:
            print(
                f"client still waits for the body: {got} of {length} bytes arrived, "
                "connection open, server considers the response complete"
            )
            rc = 1
        if b"HTTP/1.1 " in tail:
            i = tail.index(b"HTTP/1.1 ")
            print(
                "FAIL: the NEXT response was delivered inside the body of the first:",
                tail[i : i + 200],
            )
            rc = 1
        elif rc:
            print("FAIL: short body on a connection that is kept alive")
        w.close()
    finally:
        await runner.cleanup()
    return rc


sys.exit(asyncio.run(main()))
