"""C13 / f2 - client ClientWebSocketResponse: abnormal closure (1006) releases the
connection with a graceful transport.close().

With a server that has stopped reading (write buffer not empty) the graceful
close never completes:

  A. close() gives up after ws_close and reports 1006 - the socket stays open,
     even after ClientSession.close() returned (the connector has already
     forgotten the connection, nothing will ever close it);
  B. the heartbeat gets no PONG and closes the session with 1006 - a sender
     blocked in drain stays blocked for ever and the socket stays open.

Exit status 1 = defect present.
"""

import asyncio
import base64
import hashlib
import socket
import sys

import aiohttp

print("aiohttp from", aiohttp.__file__)

WS_KEY = b"258EAFA5-E914-47DA-95CA-C5AB0DC85B11"
GRACE = 3.0


class SilentServer:
    """Answers the handshake with 101 and never reads again."""

    async def start(self):
        loop = asyncio.get_running_loop()
        self.ls = socket.socket()
        self.ls.setsockopt(socket.SOL_SOCKET, socket.SO_RCVBUF, 4096)
        self.ls.bind(("127.0.0.1", 0))
        self.ls.listen(5)
        self.ls.setblocking(False)
        self.port = self.ls.getsockname()[1]
        self.conns = []
        self.task = loop.create_task(self.serve())

    async def serve(self):
        loop = asyncio.get_running_loop()
        while True:
            c, _ = await loop.sock_accept(self.ls)
            c.setblocking(False)
            self.conns.append(c)
            data = b""
            while b"\r\n\r\n" not in data:
                data += await loop.sock_recv(c, 4096)
            key = [
                line.split(b":", 1)[1].strip()
                for line in data.split(b"\r\n")
                if line.lower().startswith(b"sec-websocket-key")
            ][0]
            acc = base64.b64encode(hashlib.sha1(key + WS_KEY).digest())
            await loop.sock_sendall(
                c,
                b"HTTP/1.1 101 Switching Protocols\r\nUpgrade: websocket\r\n"
                b"Connection: upgrade\r\nSec-WebSocket-Accept: " + acc + b"\r\n\r\n",
            )

    def stop(self):
        self.task.cancel()
        for c in self.conns:
            c.close()
        self.ls.close()


async def scenario_a():
    loop = asyncio.get_running_loop()
    srv = SilentServer()
    await srv.start()
    bad = []
    async with aiohttp.ClientSession() as sess:
        ws = await sess.ws_connect(
            f"http://127.0.0.1:{srv.port}/",
            timeout=aiohttp.ClientWSTimeout(ws_close=0.5),
        )
        tr = ws._writer.transport
        sock = tr.get_extra_info("socket")
        try:
            await asyncio.wait_for(ws.send_bytes(b"x" * (8 * 1024 * 1024)), 1)
        except asyncio.TimeoutError:
            pass
        t0 = loop.time()
        res = await ws.close()
        print(
            f"A: close() -> {res} after {loop.time() - t0:.2f}s, closed={ws.closed}, "
            f"close_code={ws.close_code}"
        )
        await asyncio.sleep(GRACE)
        if sock.fileno() != -1:
            bad.append(
                f"A: {GRACE}s after close() (1006) the socket is still open: {tr!r}"
            )
    await asyncio.sleep(0.5)
    if sock.fileno() != -1:
        bad.append(f"A: still open after ClientSession.close(): {tr!r}")
    srv.stop()
    await asyncio.sleep(0.2)
    return bad


async def scenario_b():
    loop = asyncio.get_running_loop()
    srv = SilentServer()
    await srv.start()
    bad = []
    async with aiohttp.ClientSession() as sess:
        ws = await sess.ws_connect(f"http://127.0.0.1:{srv.port}/", heartbeat=0.4)
        tr = ws._writer.transport
        sock = tr.get_extra_info("socket")
        result = {}

        async def sender():
            try:
                await ws.send_bytes(b"y" * (8 * 1024 * 1024))
                result["send"] = "returned"
            except Exception as exc:
                result["send"] = repr(exc)

        task = loop.create_task(sender())
        for _ in range(100):
            if ws.closed:
                break
            await asyncio.sleep(0.05)
        print(
            f"B: heartbeat verdict: closed={ws.closed} close_code={ws.close_code} "
            f"exception={ws.exception()!r}"
        )
        if not ws.closed:
            bad.append("B: the heartbeat did not close the session at all")
        done, pending = await asyncio.wait([task], timeout=GRACE)
        if pending:
            bad.append(
                f"B: {GRACE}s after the heartbeat closed the session (1006) the "
                "sender is still blocked in send_bytes()"
            )
        else:
            print("B: blocked sender finished:", result["send"])
        if sock.fileno() != -1:
            bad.append(
                f"B: the socket is still open after the heartbeat closed the session: {tr!r}"
            )
        task.cancel()
    srv.stop()
    await asyncio.sleep(0.2)
    return bad


async def main():
    return await scenario_a() + await scenario_b()


def quiet(loop, ctx):  # "Future exception was never retrieved" noise at teardown
    pass


loop = asyncio.new_event_loop()
loop.set_exception_handler(quiet)
problems = loop.run_until_complete(main())
loop.close()
if problems:
    print("\nVIOLATION:")
    for p in problems:
        print(" -", p)
    sys.exit(1)
print("ok")
