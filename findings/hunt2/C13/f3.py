"""C13 / f3 - client close(): sending the Close frame is outside the ws_close timeout.

ClientWebSocketResponse.close() awaits self._writer.close() before it enters the
`async with timeout(ws_close)` block (the server sibling was repaired as F75).
WebSocketWriter.send_frame() waits in the drain helper - without any bound -
when the frame takes the writer's byte counter over its limit (256 KiB) while
the transport is paused.  With a server that has stopped reading, a close()
whose Close frame is the one that crosses the limit never returns.

The counter only has to be within the size of the Close frame (8..131 bytes) of
the limit, so this needs a particular amount of data sent before; the script
sends exactly that amount.  (The same unbounded wait hits the PONG that
receive() sends for autoping.)

Exit status 1 = defect present.
"""

import asyncio
import base64
import hashlib
import socket
import sys

import aiohttp

print("aiohttp from", aiohttp.__file__)

WS_KEY = b"258EAFA5-E914-47DA-95CA-C5AB0DC85B11"
WS_CLOSE = 0.5


async def main():
    loop = asyncio.get_running_loop()
    ls = socket.socket()
    ls.setsockopt(socket.SOL_SOCKET, socket.SO_RCVBUF, 4096)
    ls.bind(("127.0.0.1", 0))
    ls.listen(5)
    ls.setblocking(False)
    port = ls.getsockname()[1]
    conns = []

    async def serve():
        c, _ = await loop.sock_accept(ls)
        c.setblocking(False)
        conns.append(c)
        data = b""
        while b"\r\n\r\n" not in data:
            data += await loop.sock_recv(c, 4096)
        key = [
            line.split(b":", 1)[1].strip()
            for line in data.split(b"\r\n")
            if line.lower().startswith(b"sec-websocket-key")
        ][0]
        acc = base64.b64encode(hashlib.sha1(key + WS_KEY).digest())
        await loop.sock_sendall(
            c,
            b"HTTP/1.1 101 Switching Protocols\r\nUpgrade: websocket\r\n"
            b"Connection: upgrade\r\nSec-WebSocket-Accept: " + acc + b"\r\n\r\n",
        )
        # ... and never reads again

    server = loop.create_task(serve())
    bad = []
    async with aiohttp.ClientSession() as sess:
        ws = await sess.ws_connect(
            f"http://127.0.0.1:{port}/",
            timeout=aiohttp.ClientWSTimeout(ws_close=WS_CLOSE),
        )
        # 1. the server does not read: a large message blocks in drain; give up on it
        try:
            await asyncio.wait_for(ws.send_bytes(b"x" * (8 * 1024 * 1024)), 1)
        except asyncio.TimeoutError:
            pass
        # 2. 256 KiB more (frame = 10 header + 4 mask + payload): returns at once,
        #    the writer only waits when its counter goes *over* the limit
        await asyncio.wait_for(ws.send_bytes(b"y" * (256 * 1024 - 14)), 1)
        # 3. close(): must return within ws_close
        t0 = loop.time()
        task = loop.create_task(ws.close())
        done, pending = await asyncio.wait([task], timeout=WS_CLOSE + 4)
        if pending:
            bad.append(
                f"close() has not returned {loop.time() - t0:.1f}s after the call "
                f"(ws_close={WS_CLOSE}); closed={ws.closed} close_code={ws.close_code}; "
                f"stack: {task.get_stack(limit=1)}"
            )
            task.cancel()
            await asyncio.wait([task])
        else:
            print(f"close() -> {task.result()} after {loop.time() - t0:.2f}s", ws.close_code)
    server.cancel()
    for c in conns:
        c.close()
    ls.close()
    return bad


def quiet(loop, ctx):
    pass


loop = asyncio.new_event_loop()
loop.set_exception_handler(quiet)
problems = loop.run_until_complete(main())
loop.close()
if problems:
    print("\nVIOLATION:")
    for p in problems:
        print(" -", p)
    sys.exit(1)
print("ok")
