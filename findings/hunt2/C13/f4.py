"""C13 / f4 (adjacent: root cause is in the connector) - ClientSession.close()
never returns while a WebSocket to a peer that has stopped reading is still open.

BaseConnector._close_immediately() closes every acquired connection gracefully
(proto.close() -> transport.close()) and close() then awaits proto.closed.  With
data still buffered for a peer that does not read, the graceful close never
completes, so `await session.close()` / leaving `async with ClientSession()`
(e.g. because an exception propagates while the websocket is in use) blocks for
ever and the websocket's transport is never closed.

Exit status 1 = defect present.
"""

import asyncio
import base64
import hashlib
import socket
import sys

import aiohttp

print("aiohttp from", aiohttp.__file__)

WS_KEY = b"258EAFA5-E914-47DA-95CA-C5AB0DC85B11"


async def main():
    loop = asyncio.get_running_loop()
    ls = socket.socket()
    ls.setsockopt(socket.SOL_SOCKET, socket.SO_RCVBUF, 4096)
    ls.bind(("127.0.0.1", 0))
    ls.listen(5)
    ls.setblocking(False)
    port = ls.getsockname()[1]
    conns = []

    async def serve():
        c, _ = await loop.sock_accept(ls)
        c.setblocking(False)
        conns.append(c)
        data = b""
        while b"\r\n\r\n" not in data:
            data += await loop.sock_recv(c, 4096)
        key = [
            line.split(b":", 1)[1].strip()
            for line in data.split(b"\r\n")
            if line.lower().startswith(b"sec-websocket-key")
        ][0]
        acc = base64.b64encode(hashlib.sha1(key + WS_KEY).digest())
        await loop.sock_sendall(
            c,
            b"HTTP/1.1 101 Switching Protocols\r\nUpgrade: websocket\r\n"
            b"Connection: upgrade\r\nSec-WebSocket-Accept: " + acc + b"\r\n\r\n",
        )
        # ... and never reads again

    server = loop.create_task(serve())
    bad = []
    sess = aiohttp.ClientSession()
    ws = await sess.ws_connect(f"http://127.0.0.1:{port}/")
    tr = ws._writer.transport
    sock = tr.get_extra_info("socket")
    try:
        await asyncio.wait_for(ws.send_bytes(b"x" * (8 * 1024 * 1024)), 1)
    except asyncio.TimeoutError:
        pass  # the application gives up on the stalled peer ...
    t0 = loop.time()
    task = loop.create_task(sess.close())  # ... and shuts its session down
    done, pending = await asyncio.wait([task], timeout=5)
    if pending:
        bad.append(
            f"ClientSession.close() has not returned after {loop.time() - t0:.1f}s; "
            f"transport: {tr!r}"
        )
    else:
        print(f"session.close() returned after {loop.time() - t0:.2f}s")
    if sock.fileno() != -1:
        bad.append("the websocket's socket is still open")
    for c in conns:
        c.close()
    ls.close()
    server.cancel()
    await asyncio.wait([task], timeout=2)
    return bad


def quiet(loop, ctx):
    pass


loop = asyncio.new_event_loop()
loop.set_exception_handler(quiet)
problems = loop.run_until_complete(main())
loop.close()
if problems:
    print("\nVIOLATION:")
    for p in problems:
        print(" -", p)
    sys.exit(1)
print("ok")
