"""Random interleavings over loopback, both ends aiohttp. Looks for hangs / unexpected exceptions."""
import asyncio, random, sys, traceback
import aiohttp
from aiohttp import web, WSMsgType
print(aiohttp.__file__)

async def actor(ws, rnd, name, log, n=6):
    for _ in range(n):
        a = rnd.choice(['send', 'recv', 'recv_t', 'close', 'sleep', 'ping', 'yield', 'recv', 'send_big'])
        try:
            if a == 'send':
                await ws.send_str('x' * rnd.choice([1, 100, 5000]))
            elif a == 'send_big':
                await ws.send_bytes(b'x' * rnd.choice([20000, 70000]))
            elif a == 'recv':
                m = await ws.receive()
                log.append((name, 'recv', m.type))
                if m.type in (WSMsgType.CLOSED,):
                    return
            elif a == 'recv_t':
                try:
                    m = await ws.receive(timeout=rnd.choice([0.001, 0.01, 0.05]))
                    log.append((name, 'recv', m.type))
                except asyncio.TimeoutError:
                    pass
            elif a == 'close':
                r = await ws.close(code=rnd.choice([1000, 1001, 4000]))
                log.append((name, 'close', r, ws.close_code))
            elif a == 'sleep':
                await asyncio.sleep(rnd.choice([0.001, 0.01, 0.03]))
            elif a == 'ping':
                await ws.ping()
            else:
                await asyncio.sleep(0)
        except RuntimeError as e:
            if 'Concurrent call' in str(e) or 'closed' in str(e):
                continue
            raise
        except (ConnectionError, aiohttp.ClientError):
            pass

async def run_side(ws, rnd, side, log, problems):
    tasks = [asyncio.create_task(actor(ws, rnd, f'{side}{i}', log)) for i in range(rnd.choice([1, 2, 2, 3]))]
    # random canceller
    async def canceller():
        await asyncio.sleep(rnd.choice([0, 0.001, 0.01, 0.05]))
        if rnd.random() < 0.4:
            rnd.choice(tasks).cancel()
    c = asyncio.create_task(canceller())
    done, pending = await asyncio.wait(tasks, timeout=0.6)
    await c
    try:
        await asyncio.wait_for(ws.close(), 3)
    except Exception as e:
        problems.append((side, 'final close', repr(e)))
    if pending:
        done2, pending2 = await asyncio.wait(pending, timeout=2)
        for t in pending2:
            problems.append((side, 'HANG after close', t.get_stack()))
            t.cancel()
        done = done | done2
    for t in done:
        if not t.cancelled() and t.exception():
            problems.append((side, 'EXC', ''.join(traceback.format_exception(t.exception()))))

async def one(seed, port_holder, sess):
    rnd = random.Random(seed)
    log = []; problems = []
    opts = dict(heartbeat=rnd.choice([None, None, 0.02, 0.1]), autoclose=rnd.random() < 0.7, autoping=rnd.random() < 0.8)
    copts = dict(heartbeat=rnd.choice([None, None, 0.02, 0.1]), autoclose=rnd.random() < 0.7, autoping=rnd.random() < 0.8,
                 compress=rnd.choice([0, 0, 15]))
    port_holder['cfg'] = (rnd.randrange(1 << 30), opts, log, problems)
    port_holder['done'] = asyncio.get_running_loop().create_future()
    ws = await sess.ws_connect(f"http://127.0.0.1:{port_holder['port']}/", timeout=aiohttp.ClientWSTimeout(ws_close=0.2), **copts)
    crnd = random.Random(seed + 1)
    fault = None
    if rnd.random() < 0.3:
        async def f():
            await asyncio.sleep(rnd.choice([0.001, 0.01, 0.04]))
            tr = ws._conn.transport if ws._conn else None
            if tr: tr.abort()
        fault = asyncio.create_task(f())
    await run_side(ws, crnd, 'C', log, problems)
    if fault: await fault
    try:
        sws = await asyncio.wait_for(port_holder['done'], 5)
    except asyncio.TimeoutError:
        problems.append(('S', 'handler HANG'))
        sws = None
    # invariants
    if not ws.closed: problems.append(('C', 'not closed'))
    tr = ws._writer.transport
    if not tr.is_closing(): problems.append(('C', 'transport open', ws.close_code))
    if sws is not None:
        if not sws.closed: problems.append(('S', 'not closed'))
        if sws.close_code is None: problems.append(('S', 'code None'))
    if ws.close_code is None: problems.append(('C', 'code None'))
    return problems, log, opts, copts

async def main():
    holder = {}
    async def handler(request):
        seed, opts, log, problems = holder['cfg']
        fut = holder['done']
        ws = web.WebSocketResponse(timeout=0.2, **opts)
        try:
            await ws.prepare(request)
            await run_side(ws, random.Random(seed), 'S', log, problems)
        finally:
            if not fut.done(): fut.set_result(ws)
        return ws
    app = web.Application(); app.router.add_get('/', handler)
    runner = web.AppRunner(app); await runner.setup()
    site = web.TCPSite(runner, '127.0.0.1', 0); await site.start()
    holder['port'] = site._server.sockets[0].getsockname()[1]
    start = int(sys.argv[1]) if len(sys.argv) > 1 else 0
    n = int(sys.argv[2]) if len(sys.argv) > 2 else 200
    async with aiohttp.ClientSession() as sess:
        for seed in range(start, start + n):
            try:
                problems, log, opts, copts = await one(seed, holder, sess)
            except Exception as e:
                print('seed', seed, 'outer exc', repr(e)); traceback.print_exc(); continue
            if problems:
                print('=== seed', seed, opts, copts)
                for p in problems: print('  ', p)
                print('  log', log[-12:])
    await runner.cleanup()
asyncio.run(main())
