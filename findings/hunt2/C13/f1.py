"""C13 / f1 - server WebSocketResponse: abnormal closure (1006) only *asks* the
transport to close gracefully.

With a peer that has stopped reading (write buffer not empty) transport.close()
never completes, so after the session is "closed with 1006":

  A. close() from a second task times out and returns (F75 repair) - but the
     handler's pending receive() is never woken and the socket stays open;
  B. the heartbeat detects the dead peer (no PONG) and marks the session closed
     with 1006 - but a sender blocked in drain stays blocked and the socket
     stays open.

Both last for as long as the peer keeps the TCP connection (for ever with a
zero-window peer), although the property promises that receive() does not block
for ever and that the transport is closed once the session is closed.

Exit status 1 = defect present.
"""

import asyncio
import base64
import os
import socket
import sys

import aiohttp
from aiohttp import web

print("aiohttp from", aiohttp.__file__)

GRACE = 3.0  # seconds we give the library after the session was closed


async def start_server(handler):
    app = web.Application()
    app.router.add_get("/", handler)
    runner = web.AppRunner(app)
    await runner.setup()
    site = web.TCPSite(runner, "127.0.0.1", 0)
    await site.start()
    port = site._server.sockets[0].getsockname()[1]
    return runner, port


async def silent_peer(port):
    """Do the handshake, read the 101 head and never read again."""
    loop = asyncio.get_running_loop()
    s = socket.socket()
    s.setsockopt(socket.SOL_SOCKET, socket.SO_RCVBUF, 4096)
    s.setblocking(False)
    await loop.sock_connect(s, ("127.0.0.1", port))
    key = base64.b64encode(os.urandom(16)).decode()
    await loop.sock_sendall(
        s,
        (
            "GET / HTTP/1.1\r\nHost: x\r\nUpgrade: websocket\r\n"
            "Connection: Upgrade\r\nSec-WebSocket-Version: 13\r\n"
            f"Sec-WebSocket-Key: {key}\r\n\r\n"
        ).encode(),
    )
    data = b""
    while b"\r\n\r\n" not in data:
        data += await loop.sock_recv(s, 1)
    return s


async def fill(ws):
    """Send until the transport is paused by back-pressure."""
    try:
        await asyncio.wait_for(ws.send_bytes(b"x" * (8 * 1024 * 1024)), 1)
    except asyncio.TimeoutError:
        pass


async def scenario_a():
    loop = asyncio.get_running_loop()
    st = {}

    async def handler(request):
        ws = web.WebSocketResponse(timeout=0.5)
        await ws.prepare(request)
        st["ws"] = ws
        st["sock"] = request.transport.get_extra_info("socket")
        st["tr"] = request.transport

        async def closer():
            await fill(ws)
            st["paused"] = request.protocol.writing_paused
            t0 = loop.time()
            st["close_result"] = await ws.close()
            st["close_took"] = loop.time() - t0
            st["closed_evt"].set()

        st["closer"] = asyncio.create_task(closer())
        msg = await ws.receive()  # no other task will ever call receive()
        st["recv"] = msg.type
        st["recv_evt"].set()
        return ws

    st["closed_evt"] = asyncio.Event()
    st["recv_evt"] = asyncio.Event()
    runner, port = await start_server(handler)
    peer = await silent_peer(port)
    await asyncio.wait_for(st["closed_evt"].wait(), 10)
    ws = st["ws"]
    print(
        f"A: writing paused={st['paused']}; close() -> {st['close_result']} after "
        f"{st['close_took']:.2f}s, closed={ws.closed}, close_code={ws.close_code}"
    )
    bad = []
    try:
        await asyncio.wait_for(st["recv_evt"].wait(), GRACE)
        print("A: receive() returned", st["recv"])
    except asyncio.TimeoutError:
        bad.append(
            f"A: {GRACE}s after close() returned (session closed, code 1006) the "
            "handler is still blocked in receive()"
        )
    if st["sock"].fileno() != -1:
        bad.append(
            "A: the socket is still open after the session was closed: "
            f"{st['tr']!r}"
        )
    peer.close()
    await asyncio.sleep(0.3)
    if "recv" in st:
        print("A: (after the peer went away) receive() ->", st["recv"], ws.close_code)
    if ws.close_code != 1006:
        bad.append(
            "A: close() reported the abnormal end as 1006, the late EOF in "
            f"receive() rewrote close_code to {ws.close_code} "
            f"(exception()={ws.exception()!r})"
        )
    await runner.cleanup()
    return bad


async def scenario_b():
    loop = asyncio.get_running_loop()
    st = {"done": asyncio.Event(), "ready": asyncio.Event()}

    async def handler(request):
        ws = web.WebSocketResponse(heartbeat=0.4)  # ping after .4s, pong due .2s later
        await ws.prepare(request)
        st["ws"] = ws
        st["sock"] = request.transport.get_extra_info("socket")
        st["tr"] = request.transport
        st["ready"].set()
        try:
            # an application streaming data to its client: blocks in drain
            # because the client does not read
            await ws.send_bytes(b"y" * (8 * 1024 * 1024))
            st["send"] = "returned"
        except Exception as exc:
            st["send"] = repr(exc)
        st["done"].set()
        return ws

    runner, port = await start_server(handler)
    peer = await silent_peer(port)
    await asyncio.wait_for(st["ready"].wait(), 10)
    ws = st["ws"]
    for _ in range(100):
        if ws.closed:
            break
        await asyncio.sleep(0.05)
    print(
        f"B: heartbeat verdict: closed={ws.closed} close_code={ws.close_code} "
        f"exception={ws.exception()!r}"
    )
    bad = []
    if not ws.closed:
        bad.append("B: the heartbeat did not close the session at all")
    try:
        await asyncio.wait_for(st["done"].wait(), GRACE)
        print("B: blocked sender finished:", st["send"])
    except asyncio.TimeoutError:
        bad.append(
            f"B: {GRACE}s after the heartbeat closed the session (1006) the "
            "sender is still blocked in send_bytes()"
        )
    if st["sock"].fileno() != -1:
        bad.append(
            "B: the socket is still open after the heartbeat closed the "
            f"session: {st['tr']!r}"
        )
    peer.close()
    await asyncio.sleep(0.3)
    await runner.cleanup()
    return bad


async def main():
    bad = await scenario_a()
    bad += await scenario_b()
    return bad


def quiet(loop, ctx):  # "Future exception was never retrieved" noise at teardown
    pass


loop = asyncio.new_event_loop()
loop.set_exception_handler(quiet)
problems = loop.run_until_complete(main())
loop.close()
if problems:
    print("\nVIOLATION:")
    for p in problems:
        print(" -", p)
    sys.exit(1)
print("ok")
