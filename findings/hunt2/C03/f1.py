"""C03: after a Content-Encoding decode error the parser loses the message boundary.

HttpParser.feed_data() treats ContentEncodingError as "the message boundary is intact":
it drops the payload parser, throws away the rest of the CURRENT read and goes back to
parsing heads.  So what happens to the not yet consumed part of the body (and to the
pipelined message behind it) depends on where the read boundaries fall:

  * everything in one read        -> the rest of the body AND the next pipelined request
                                     are silently discarded (1 message)
  * a cut inside the body         -> the remaining body bytes are parsed as a new request:
                                     a request that is not in the stream is produced
                                     ("GET /admin" below lives inside the POST body)

Same for responses on the client.
"""
import asyncio
import sys

import aiohttp
from aiohttp.base_protocol import BaseProtocol
from aiohttp.http_parser import HttpRequestParser, HttpResponseParser

print(aiohttp.__file__)

INNER = b"GET /admin HTTP/1.1\r\nHost: a\r\n\r\n"
BODY = b"not-gzip" + INNER  # declared gzip, is not
NEXT = b"GET /next HTTP/1.1\r\nHost: a\r\n\r\n"
REQ = (
    b"POST /upload HTTP/1.1\r\nHost: a\r\nContent-Encoding: gzip\r\n"
    b"Content-Length: %d\r\n\r\n" % len(BODY)
) + BODY + NEXT

RINNER = b"HTTP/1.1 200 OK\r\nContent-Length: 6\r\n\r\nFORGED"
RBODY = b"not-gzip" + RINNER
RESP = (
    b"HTTP/1.1 200 OK\r\nContent-Encoding: gzip\r\nContent-Length: %d\r\n\r\n" % len(RBODY)
) + RBODY + b"HTTP/1.1 204 No Content\r\n\r\n"


def parse(cls, segments, **kw):
    loop = asyncio.new_event_loop()
    try:
        parser = cls(BaseProtocol(loop), loop, 2**16, **kw)
        got, rejected = [], None
        try:
            for seg in segments:
                msgs, _upgraded, _tail = parser.feed_data(seg)
                got += msgs
        except Exception as e:
            rejected = type(e).__name__
        out = [
            (
                getattr(m, "method", None) or m.code,
                getattr(m, "path", ""),
                type(payload.exception()).__name__ if payload.exception() else "body ok",
            )
            for m, payload in got
        ]
        if rejected:
            out.append(("then REJECTED", rejected))
        return out
    finally:
        loop.close()


def segmentations(stream):
    yield "whole", [stream]
    for i in range(1, len(stream)):
        yield f"cut@{i}", [stream[:i], stream[i:]]
    yield "bytewise", [stream[i : i + 1] for i in range(len(stream))]


failed = False
for title, cls, stream, kw in (
    ("request parser (server)", HttpRequestParser, REQ, {}),
    ("response parser (client)", HttpResponseParser, RESP, {"read_until_eof": True}),
):
    outcomes = {}
    for name, segs in segmentations(stream):
        outcomes.setdefault(repr(parse(cls, segs, **kw)), []).append(name)
    print(f"== {title}: {len(outcomes)} different outcomes for one byte stream")
    for o, names in outcomes.items():
        print(f"   {len(names):4d} segmentations (e.g. {names[0]:>8}) -> {o}")
    if len(outcomes) > 1:
        failed = True

if failed:
    print("VIOLATION: the messages produced depend on how the stream is cut into reads")
    sys.exit(1)
print("no violation")
