"""C03: lax (default client) chunked parsing skips a stray CR only if it arrives in the same read.

The same response bytes are accepted or rejected by ClientSession depending on where the
TCP segments are cut:
  A) ...5\r\nhello\r\r\n0\r\n\r\n     one write -> ClientPayloadError ; cut between the two CRs -> body b"hello"
  B) ...0\r\n\rX-T: 1\r\n\r\n          one write -> accepted           ; cut after "0\r\n"       -> rejected
"""
import asyncio
import socket
import sys

import aiohttp
from aiohttp.http_parser import HttpResponseParser
from aiohttp.base_protocol import BaseProtocol

print(aiohttp.__file__)

HEAD = b"HTTP/1.1 200 OK\r\nTransfer-Encoding: chunked\r\n\r\n"
STREAM_A = HEAD + b"5\r\nhello\r\r\n0\r\n\r\n"
CUT_A = STREAM_A.index(b"\r\r\n") + 1
STREAM_B = HEAD + b"5\r\nhello\r\n0\r\n\rX-T: 1\r\n\r\n"
CUT_B = STREAM_B.index(b"\rX-T")


async def fetch(segments):
    """Serve `segments` as separate TCP writes and fetch them with ClientSession."""

    async def handle(reader, writer):
        sock = writer.get_extra_info("socket")
        sock.setsockopt(socket.IPPROTO_TCP, socket.TCP_NODELAY, 1)
        await reader.readuntil(b"\r\n\r\n")
        for seg in segments:
            writer.write(seg)
            await writer.drain()
            await asyncio.sleep(0.1)
        await asyncio.sleep(0.1)
        writer.close()

    server = await asyncio.start_server(handle, "127.0.0.1", 0)
    port = server.sockets[0].getsockname()[1]
    try:
        async with aiohttp.ClientSession() as s:
            try:
                async with s.get(f"http://127.0.0.1:{port}/") as r:
                    return ("ok", await r.read())
            except aiohttp.ClientError as e:
                return ("error", type(e).__name__, str(e)[:80])
    finally:
        server.close()
        await server.wait_closed()


def parse(segments):
    """Same thing with the parser alone (no sockets): deterministic."""
    loop = asyncio.new_event_loop()
    try:
        proto = BaseProtocol(loop)
        p = HttpResponseParser(proto, loop, 2**16, read_until_eof=True)
        out = []
        try:
            for seg in segments:
                msgs, _, _ = p.feed_data(seg)
                out += msgs
        except Exception as e:
            return ("error", type(e).__name__)
        return ("ok", [(m.code, pl.read_nowait() if pl._buffer else b"", pl.is_eof()) for m, pl in out])
    finally:
        loop.close()


async def main():
    failed = False
    for name, stream, cut in (("A", STREAM_A, CUT_A), ("B", STREAM_B, CUT_B)):
        whole_p = parse([stream])
        cut_p = parse([stream[:cut], stream[cut:]])
        whole_c = await fetch([stream])
        cut_c = await fetch([stream[:cut], stream[cut:]])
        print(f"stream {name}: {stream[len(HEAD):]!r}, cut at {cut}")
        print("   parser  whole:", whole_p)
        print("   parser  cut  :", cut_p)
        print("   client  whole:", whole_c)
        print("   client  cut  :", cut_c)
        if whole_p[0] != cut_p[0] or whole_c[0] != cut_c[0]:
            print("   VIOLATION: acceptance depends on the segmentation")
            failed = True
    return failed


if asyncio.run(main()):
    sys.exit(1)
print("no violation")
