"""C03: lax (default client) parsing - a line ended by CR CR LF is measured differently
depending on whether a read boundary falls between the CRs and the LF.

A complete line is stripped of ALL trailing CRs before it is compared with
max_field_size / max_line_size (`line.rstrip(b"\\r")`), a partial line only gets ONE
trailing CR discounted (`len(self._tail) - self._tail.endswith(b"\\r")`).
A header line of exactly max_field_size bytes ended by "\\r\\r\\n" is accepted when it arrives
in one read and rejected with LineTooLong when the read ends after the two CRs.
(The repaired F1 handled a single trailing CR only.)
"""
import asyncio
import socket
import sys

import aiohttp
from aiohttp.base_protocol import BaseProtocol
from aiohttp.http_parser import HttpResponseParser

print(aiohttp.__file__)

LIMIT = 64
LINE = b"X-Pad: " + b"y" * (LIMIT - 7)  # exactly LIMIT bytes
assert len(LINE) == LIMIT
STREAM = b"HTTP/1.1 200 OK\r\n" + LINE + b"\r\r\nContent-Length: 2\r\n\r\nok"
CUT = STREAM.index(b"\r\r\n") + 2  # read ends after CR CR, before LF


def parse(segments):
    loop = asyncio.new_event_loop()
    try:
        p = HttpResponseParser(
            BaseProtocol(loop), loop, 2**16, max_field_size=LIMIT, max_line_size=LIMIT
        )
        got = []
        try:
            for seg in segments:
                got += p.feed_data(seg)[0]
        except Exception as e:
            return ("rejected", type(e).__name__)
        return ("accepted", [(m.code, len(m.headers["X-Pad"])) for m, _ in got])
    finally:
        loop.close()


async def fetch(segments):
    async def handle(reader, writer):
        writer.get_extra_info("socket").setsockopt(socket.IPPROTO_TCP, socket.TCP_NODELAY, 1)
        await reader.readuntil(b"\r\n\r\n")
        for seg in segments:
            writer.write(seg)
            await writer.drain()
            await asyncio.sleep(0.1)
        writer.close()

    server = await asyncio.start_server(handle, "127.0.0.1", 0)
    port = server.sockets[0].getsockname()[1]
    try:
        async with aiohttp.ClientSession() as s:
            try:
                async with s.get(
                    f"http://127.0.0.1:{port}/", max_field_size=LIMIT, max_line_size=LIMIT
                ) as r:
                    return ("accepted", r.status, await r.read())
            except aiohttp.ClientError as e:
                return ("rejected", type(e).__name__, str(e)[:60])
    finally:
        server.close()
        await server.wait_closed()


async def main():
    res = {
        "parser whole": parse([STREAM]),
        "parser cut  ": parse([STREAM[:CUT], STREAM[CUT:]]),
        "client whole": await fetch([STREAM]),
        "client cut  ": await fetch([STREAM[:CUT], STREAM[CUT:]]),
    }
    for k, v in res.items():
        print(k, "->", v)
    return (
        res["parser whole"][0] != res["parser cut  "][0]
        or res["client whole"][0] != res["client cut  "][0]
    )


if asyncio.run(main()):
    print(f"VIOLATION: a {LIMIT}-byte header line (limit {LIMIT}) is accepted or rejected "
          "depending on the segmentation")
    sys.exit(1)
print("no violation")
