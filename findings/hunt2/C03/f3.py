"""C03: a parse error discards the messages already parsed from the same read.

HttpParser.feed_data() collects the parsed messages in a local list and lets a parse
error propagate: whatever was parsed earlier in the SAME call is lost.  web_protocol then
answers a single 400.  Two valid pipelined requests followed by a bad one are therefore
executed (200, 200, 400) or not executed at all (400) depending only on whether the bad
bytes arrive in the same read as the valid requests.

The trigger used here is the parser's own "Data after `Connection: close`" check: request
/b is the last one (Connection: close) and is followed by stray bytes.
"""
import asyncio
import socket
import sys

import logging

import aiohttp
from aiohttp import web

logging.disable(logging.CRITICAL)

print(aiohttp.__file__)

A = b"POST /a HTTP/1.1\r\nHost: x\r\nContent-Length: 2\r\n\r\nhi"
B = b"GET /b HTTP/1.1\r\nHost: x\r\nConnection: close\r\n\r\n"
JUNK = b"stray bytes\r\n"
STREAM = A + B + JUNK


async def run(segments):
    calls = []

    async def handler(request):
        calls.append((request.method, request.path, await request.read()))
        return web.Response(text="done " + request.path)

    app = web.Application()
    app.router.add_route("*", "/{tail:.*}", handler)
    runner = web.AppRunner(app, access_log=None)
    await runner.setup()
    site = web.TCPSite(runner, "127.0.0.1", 0)
    await site.start()
    port = site._server.sockets[0].getsockname()[1]
    try:
        reader, writer = await asyncio.open_connection("127.0.0.1", port)
        writer.get_extra_info("socket").setsockopt(socket.IPPROTO_TCP, socket.TCP_NODELAY, 1)
        for seg in segments:
            writer.write(seg)
            await writer.drain()
            await asyncio.sleep(0.15)
        out = await asyncio.wait_for(reader.read(), 5)
        writer.close()
    finally:
        await runner.cleanup()
    import re

    statuses = [m.decode() for m in re.findall(rb"HTTP/1\.[01] (\d{3}) ", out)]
    return calls, statuses


async def main():
    whole = await run([STREAM])
    cut = await run([A + B, JUNK])
    print("one read           : handlers run:", whole[0], " responses:", whole[1])
    print("junk in a 2nd read : handlers run:", cut[0], " responses:", cut[1])
    return whole != cut


if asyncio.run(main()):
    print("VIOLATION: which requests are delivered (and executed) depends on the segmentation")
    sys.exit(1)
print("no violation")
