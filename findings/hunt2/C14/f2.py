"""Sub-application prefix that needs quoting: the resources inside the sub-app get the
prefix text as typed (PrefixedSubAppResource._add_prefix_to_resources passes the
un-requoted prefix to Resource.add_prefix), while the PrefixedSubAppResource itself
requotes it.

 * add_subapp('/my docs', sub): requests are routed, but url_for() of every resource of
   the sub-app returns a URL that is not percent-encoded ('/my docs/1'); the same template
   registered directly ('/my docs/{x}') yields '/my%20docs/1'.  Sent as is, the URL is a
   malformed request line (400).
 * add_subapp('/my%20docs', sub) (the encoded form, accepted by add_static / add_route):
   the sub-app is entered but none of its resources can match (regex / plain path contain
   '%20', the request is matched in URL.path_safe form) -> everything below it is 404,
   including the URLs url_for() returns.
"""
import asyncio
import sys

import aiohttp
from aiohttp import web
from aiohttp.test_utils import TestClient, TestServer

print(aiohttp.__file__)


def make_sub():
    async def item(request):
        return web.Response(text="item " + request.match_info["x"])

    async def index(request):
        return web.Response(text="index")

    sub = web.Application()
    sub.router.add_get("/{x}", item, name="item")
    sub.router.add_get("/", index, name="index")
    return sub


async def main() -> int:
    failures = []

    async def direct(request):
        return web.Response(text="direct")

    # --- decoded prefix -------------------------------------------------
    app = web.Application()
    sub = make_sub()
    app.add_subapp("/my docs", sub)
    app.router.add_get("/your docs/{x}", direct, name="direct")
    async with TestClient(TestServer(app)) as client:
        u_sub = sub.router["item"].url_for(x="1")
        u_direct = app.router["direct"].url_for(x="1")
        print("decoded prefix: url_for in sub-app", repr(u_sub.raw_path), "| direct", repr(u_direct.raw_path))
        r = await client.get("/my%20docs/1")
        print("GET /my%20docs/1 ->", r.status)
        r2 = await client.get(u_sub)
        print("GET url_for() ->", r2.status)
        if r.status == 200 and (" " in u_sub.raw_path or r2.status != 200):
            failures.append(
                "add_subapp('/my docs'): url_for() inside the sub-app returns %r (not "
                "percent-encoded, answered with %d); a directly registered template gives %r"
                % (u_sub.raw_path, r2.status, u_direct.raw_path)
            )

    # --- encoded prefix -------------------------------------------------
    app = web.Application()
    sub = make_sub()
    app.add_subapp("/my%20docs", sub)
    app.router.add_get("/your%20docs/{x}", direct, name="direct")
    async with TestClient(TestServer(app)) as client:
        u_item = sub.router["item"].url_for(x="1")
        u_index = sub.router["index"].url_for()
        r_direct = await client.get(app.router["direct"].url_for(x="1"))
        r_item = await client.get(u_item)
        r_index = await client.get(u_index)
        print("encoded prefix: GET", u_item, "->", r_item.status, "| GET", u_index, "->", r_index.status,
              "| directly registered '/your%20docs/{x}' ->", r_direct.status)
        if r_direct.status == 200 and (r_item.status != 200 or r_index.status != 200):
            failures.append(
                "add_subapp('/my%%20docs'): %s -> %d and %s -> %d although these are the URLs "
                "url_for() returns; the same form registered directly resolves (200)"
                % (u_item, r_item.status, u_index, r_index.status)
            )
    for f in failures:
        print("FAIL:", f)
    return 1 if failures else 0


sys.exit(asyncio.run(main()))
