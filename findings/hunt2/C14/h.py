import asyncio, sys
import aiohttp
from aiohttp import web
from aiohttp.test_utils import make_mocked_request
print(aiohttp.__file__)

def mk(name):
    async def h(request):
        return web.Response(text=name)
    h.__name__ = name
    return h

async def res(app, method, path, headers=None):
    req = make_mocked_request(method, path, headers=headers or {})
    mi = await app.router.resolve(req)
    if mi.http_exception is not None:
        e = mi.http_exception
        return (e.status, sorted(getattr(e, 'allowed_methods', []) or []))
    return (mi.handler.__name__, dict(mi))
