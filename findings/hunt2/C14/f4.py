"""Domain rule normalises the configured domain but not the Host header it is compared with.

Domain.validation() strips a trailing '.' and drops an explicit ':80' from the configured
value; Domain.match_domain() compares the raw (lower-cased) Host header with the result.
So a Host header that is byte-for-byte the value passed to add_domain() does not select the
domain sub-application, and equivalent spellings of the same authority (RFC 9110 4.2.3:
explicit default port; absolute FQDN with trailing dot) are dispatched to a different
application (the parent) than the canonical spelling.
"""
import asyncio
import sys

import aiohttp
from aiohttp import web
from aiohttp.test_utils import make_mocked_request

print(aiohttp.__file__)


async def main() -> int:
    async def in_domain_app(request):
        return web.Response(text="domain app")

    async def in_parent(request):
        return web.Response(text="parent")

    failures = []
    for configured, hosts in [
        ("example.com:80", ["example.com", "example.com:80", "EXAMPLE.COM:80"]),
        ("example.com.", ["example.com", "example.com."]),
        ("*.example.com:80", ["a.example.com", "a.example.com:80"]),
    ]:
        app = web.Application()
        sub = web.Application()
        sub.router.add_get("/", in_domain_app)
        app.add_domain(configured, sub)
        app.router.add_get("/", in_parent)
        app.freeze()
        for host in hosts:
            req = make_mocked_request("GET", "/", headers={"Host": host})
            mi = await app.router.resolve(req)
            chosen = mi.handler.__name__
            print("add_domain(%r)  Host: %-18s -> %s" % (configured, host, chosen))
            if chosen != "in_domain_app":
                failures.append(
                    "add_domain(%r): request with 'Host: %s' is dispatched to %s"
                    % (configured, host, chosen)
                )
    for f in failures:
        print("FAIL:", f)
    return 1 if failures else 0


sys.exit(asyncio.run(main()))
