import random, itertools
from h import *
from aiohttp.web_urldispatcher import Resource, DynamicResource, PlainResource

SEGS = ["a", "b", "", "{x}", "{y}", "a{x}", "{x}b", "{x:.*}", "{y:[ab]+}", "{x:a/b}", "a%2Fb", "%61", "a b", "é", "{x:.+}", "a{x:/?}"]
METHS = ["GET", "POST", "PUT"]
REQSEGS = ["a", "b", "", "ab", "a%2Fb", "%61", "a%20b", "%C3%A9", "%2F", "aa", "%7B", "."]

def rand_template(rng):
    n = rng.randint(1, 3)
    segs = []
    used = set()
    for _ in range(n):
        s = rng.choice(SEGS)
        # avoid duplicate var names
        for v in ("x", "y"):
            if "{"+v in s:
                if v in used:
                    s = "a"
                used.add(v)
        segs.append(s)
    return "/" + "/".join(segs)

async def main(seed, iters):
    rng = random.Random(seed)
    bad = 0
    for it in range(iters):
        app = web.Application()
        regs = []
        for i in range(rng.randint(1, 5)):
            t = rand_template(rng)
            m = rng.choice(METHS)
            name = f"h{i}"
            try:
                route = app.router.add_route(m, t, mk(name))
            except (ValueError, RuntimeError) as e:
                continue
            regs.append((route.resource, m, name, t))
        app.freeze()
        router = app.router
        for _ in range(30):
            p = "/" + "/".join(rng.choice(REQSEGS) for _ in range(rng.randint(1, 4)))
            m = rng.choice(METHS + ["DELETE"])
            req = make_mocked_request(m, p)
            ps = req.rel_url.path_safe
            # reference
            seen = []
            matches = []
            for resrc in router.resources():
                md = resrc._match(ps)
                if md is not None:
                    key = router._get_resource_index_key(resrc)
                    matches.append((-len(key) if key != "/" else 0, len(matches), resrc, md))
            matches.sort(key=lambda t: (t[0], t[1]))
            exp = None
            allowed = set()
            for _, _, resrc, md in matches:
                r = resrc._routes.get(m, resrc._any_route)
                if r is not None:
                    exp = (r.handler.__name__, md); break
                allowed |= resrc._allowed_methods
            if exp is None:
                exp = (405, sorted(allowed)) if matches else (404, [])
            got = await res(app, m, p)
            if got != exp:
                bad += 1
                print("MISMATCH", [(t, mm) for _, mm, _, t in regs], m, p, "exp", exp, "got", got)
                if bad > 10: return bad
    return bad
import sys
b = asyncio.run(main(int(sys.argv[1]) if len(sys.argv) > 1 else 1, 3000))
print("bad", b)
