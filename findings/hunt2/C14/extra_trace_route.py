"""web.route('TRACE', ...) / web.route('CONNECT', ...) (and RouteTableDef.route) cannot be
registered: RouteDef.register() looks up router.add_<method>() for every method in
hdrs.METH_ALL, but UrlDispatcher has no add_trace / add_connect.  add_routes() dies with
AttributeError, whereas router.add_route('TRACE', ...) and web.route('PROPFIND', ...) work.
"""
import asyncio
import sys

import aiohttp
from aiohttp import hdrs, web
from aiohttp.test_utils import make_mocked_request

print(aiohttp.__file__)


async def handler(request):
    return web.Response(text="ok")


async def main() -> int:
    failures = []
    for method in sorted(hdrs.METH_ALL | {"PROPFIND"}):
        # the low-level API accepts every method
        app0 = web.Application()
        app0.router.add_route(method, "/x", handler)
        mi = await app0.router.resolve(make_mocked_request(method, "/x"))
        assert mi.http_exception is None, method

        app = web.Application()
        try:
            app.add_routes([web.route(method, "/x", handler)])
        except Exception as exc:
            print(method, "-> add_routes raised", repr(exc))
            failures.append("web.route(%r, ...) cannot be registered: %r" % (method, exc))
            continue
        mi = await app.router.resolve(make_mocked_request(method, "/x"))
        print(method, "-> registered, resolves:", mi.http_exception is None)
        if mi.http_exception is not None:
            failures.append("%s not dispatched" % method)
    for f in failures:
        print("FAIL:", f)
    return 1 if failures else 0


sys.exit(asyncio.run(main()))
