"""PlainResource does not bring its path to the form the request path is matched in.

DynamicResource and PrefixResource (static, sub-app) requote their literal text and
match the URL.path_safe form of it; PlainResource keeps the text as given and compares
it with URL.path_safe of the request.  So

 * a plain route registered in percent-encoded form ('/caf%C3%A9', '/my%20docs' - the form
   docs/web_advanced.rst says everything is converted to) can never be matched, not even
   by the URL its own url_for() returns, while '/my%20docs/{x}' and add_static('/my%20docs')
   registered in the very same form do match;
 * a plain route registered in decoded form ('/my docs') matches, but url_for() returns a URL
   whose raw_path is not percent-encoded ('/my docs'); sent as is it is a malformed request line.
"""
import asyncio
import sys

import aiohttp
from aiohttp import web
from aiohttp.test_utils import TestClient, TestServer

print(aiohttp.__file__)


async def main() -> int:
    async def plain(request):
        return web.Response(text="plain")

    async def dyn(request):
        return web.Response(text="dyn " + request.match_info["x"])

    app = web.Application()
    app.router.add_get("/my%20docs", plain, name="enc_plain")
    app.router.add_get("/my%20docs/{x}", dyn, name="enc_dyn")
    app.router.add_get("/other docs", plain, name="raw_plain")
    app.router.add_get("/other docs/{x}", dyn, name="raw_dyn")

    failures = []
    async with TestClient(TestServer(app)) as client:
        # 1. same literal, two sibling resource classes
        r_dyn = await client.get(app.router["enc_dyn"].url_for(x="1"))
        r_plain = await client.get(app.router["enc_plain"].url_for())
        print("GET", app.router["enc_dyn"].url_for(x="1"), "->", r_dyn.status)
        print("GET", app.router["enc_plain"].url_for(), "->", r_plain.status)
        if r_dyn.status == 200 and r_plain.status != 200:
            failures.append(
                "plain resource '/my%%20docs' answers %d to the URL returned by its own "
                "url_for(); the dynamic sibling '/my%%20docs/{x}' answers 200"
                % r_plain.status
            )

        # 2. url_for() of a plain resource is not percent-encoded
        u_plain = app.router["raw_plain"].url_for()
        u_dyn = app.router["raw_dyn"].url_for(x="1")
        print("url_for raw_plain:", repr(u_plain.raw_path), " raw_dyn:", repr(u_dyn.raw_path))
        if " " in u_plain.raw_path and " " not in u_dyn.raw_path:
            r = await client.get(u_plain)
            print("GET", repr(str(u_plain)), "->", r.status)
            if r.status != 200:
                failures.append(
                    "url_for() of plain resource '/other docs' is %r (raw space); requesting "
                    "it gives %d, the dynamic sibling yields %r"
                    % (u_plain.raw_path, r.status, u_dyn.raw_path)
                )
    for f in failures:
        print("FAIL:", f)
    return 1 if failures else 0


sys.exit(asyncio.run(main()))
