"""A prefixed sub-application's 404 / 405 is final and discards what the parent found.

UrlDispatcher.resolve() accumulates allowed methods over the candidates and is written to
merge the methods a sub-app reports (PrefixedSubAppResource.resolve returns them), but the
sub-app resource always returns a non-None match_info (a MatchInfoError), so the dispatcher
returns it at once:

 * the methods collected from parent resources indexed under a longer key are dropped:
   the Allow header of the 405 is incomplete (lists POST only although GET/HEAD are served),
 * a path for which a parent resource matched (other method) is answered 404 instead of 405,
 * a parent resource that matches path AND method but sits at a shorter index key / later in
   the same key ('/api/{name}' registered after add_subapp('/api')) is never consulted: 404.
"""
import asyncio
import sys

import aiohttp
from aiohttp import web
from aiohttp.test_utils import TestClient, TestServer

print(aiohttp.__file__)


async def main() -> int:
    def mk(name):
        async def h(request):
            return web.Response(text=name)
        return h

    app = web.Application()
    app.router.add_get("/api/x", mk("parent GET /api/x"))          # GET + HEAD
    app.router.add_get("/api/only-parent", mk("parent GET /api/only-parent"))
    sub = web.Application()
    sub.router.add_post("/x", mk("sub POST /api/x"))
    app.add_subapp("/api", sub)
    app.router.add_get("/api/{name}", mk("parent GET /api/{name}"))

    failures = []
    async with TestClient(TestServer(app)) as client:
        for m in ("GET", "POST"):
            r = await client.request(m, "/api/x")
            print(m, "/api/x ->", r.status, await r.text())
            assert r.status == 200

        r = await client.put("/api/x")
        allow = sorted(a.strip() for a in r.headers.get("Allow", "").split(",") if a.strip())
        print("PUT /api/x ->", r.status, "Allow:", allow)
        if r.status != 405 or allow != ["GET", "HEAD", "POST"]:
            failures.append(
                "PUT /api/x: %d Allow=%s; GET, HEAD (parent) and POST (sub-app) are all served "
                "on this path, the complete set is GET,HEAD,POST" % (r.status, allow)
            )

        r = await client.post("/api/only-parent")
        print("POST /api/only-parent ->", r.status, "Allow:", r.headers.get("Allow"))
        if r.status != 405:
            failures.append(
                "POST /api/only-parent: %d; the path is served for GET/HEAD by the parent, "
                "expected 405 Allow: GET,HEAD" % r.status
            )

        r = await client.get("/api/foo")
        print("GET /api/foo ->", r.status)
        if r.status != 200:
            failures.append(
                "GET /api/foo: %d although resource '/api/{name}' matches path and method"
                % r.status
            )
    for f in failures:
        print("FAIL:", f)
    return 1 if failures else 0


sys.exit(asyncio.run(main()))
