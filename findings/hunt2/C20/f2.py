"""Cleanup contexts of an application with sub-applications are NOT exited in
reverse order of startup on the normal path: the parent's contexts (entered
first) are exited first, and sibling sub-applications are exited in startup
order.  The startup-failure path (Application._exit_started_contexts) does use
the reverse order, so the two paths of the same library disagree.

Consequence shown below: a sub-application context that still needs a resource
owned by a parent context during its teardown finds it already closed.
"""
import asyncio
import sys

import aiohttp
from aiohttp import web

print("aiohttp from", aiohttp.__file__)


def make(log, fail_startup):
    db = web.AppKey("db", dict)

    def ctx(name):
        async def c(app):
            log.append(("up", name))
            yield
            log.append(("down", name))

        return c

    parent = web.Application()

    async def parent_db(app):
        app[db] = {"open": True}
        log.append(("up", "parent.db"))
        yield
        app[db]["open"] = False
        log.append(("down", "parent.db"))

    parent.cleanup_ctx.append(parent_db)
    parent.cleanup_ctx.append(ctx("parent.c1"))

    sub1 = web.Application()

    async def sub1_worker(app):
        log.append(("up", "sub1.worker"))
        yield
        # flush pending work to the parent's database
        log.append(("down", "sub1.worker"))
        if not parent[db]["open"]:
            log.append(("ERROR", "sub1.worker: parent db already closed"))

    sub1.cleanup_ctx.append(sub1_worker)
    sub2 = web.Application()
    sub2.cleanup_ctx.append(ctx("sub2.c0"))
    parent.add_subapp("/s1", sub1)
    parent.add_subapp("/s2", sub2)
    if fail_startup:

        async def boom(app):
            raise RuntimeError("last startup step fails")

        parent.on_startup.append(boom)
    return parent


async def run(fail_startup):
    log = []
    runner = web.AppRunner(make(log, fail_startup))
    try:
        await runner.setup()
    except RuntimeError:
        pass
    await runner.cleanup()
    return log


async def main():
    bad = False
    for fail_startup in (False, True):
        log = await run(fail_startup)
        ups = [n for k, n in log if k == "up"]
        downs = [n for k, n in log if k == "down"]
        errs = [n for k, n in log if k == "ERROR"]
        print("startup fails at the end:" if fail_startup else "normal run:")
        print("   startup order :", ups)
        print("   cleanup order :", downs)
        print("   reverse(start):", ups[::-1])
        if downs != ups[::-1]:
            print("   VIOLATION: cleanup is not the reverse of startup", errs)
            bad = True
    return bad


sys.exit(1 if asyncio.run(main()) else 0)
