"""An idle keep-alive connection whose last (complete) response is still partly
in the transport's write buffer - the client is slow / stopped reading - is
neither 'closed at once' when shutdown begins nor closed when cleanup()
returns: pre_shutdown()/force_close() only call transport.close(), which waits
for the buffer to flush; the abort added for F31 only covers a handler that is
still in progress.  The server socket survives runner.cleanup() indefinitely.
"""
import asyncio
import socket
import sys

import aiohttp
from aiohttp import web

print("aiohttp from", aiohttp.__file__)

BODY = b"x" * 30000  # below the 64 KiB high-water mark: write_eof() never blocks
state = {"transport": None, "handled": 0}


async def handler(request):
    state["transport"] = request.transport
    state["handled"] += 1
    return web.Response(body=BODY)


async def main():
    loop = asyncio.get_running_loop()
    app = web.Application()
    app.router.add_get("/", handler)
    runner = web.AppRunner(app, shutdown_timeout=1.0)
    await runner.setup()
    lsock = socket.socket()
    lsock.setsockopt(socket.SOL_SOCKET, socket.SO_SNDBUF, 4096)
    lsock.bind(("127.0.0.1", 0))
    site = web.SockSite(runner, lsock)
    await site.start()

    c = socket.socket()
    c.setsockopt(socket.SOL_SOCKET, socket.SO_RCVBUF, 4096)
    c.connect(lsock.getsockname())
    c.setblocking(False)
    # The client sends requests one at a time and never reads the responses.
    for i in range(200):
        await loop.sock_sendall(c, b"GET / HTTP/1.1\r\nHost: x\r\n\r\n")
        while state["handled"] <= i:
            await asyncio.sleep(0.005)
        await asyncio.sleep(0.02)
        tr = state["transport"]
        if tr.get_write_buffer_size() > 0:
            break
    tr = state["transport"]
    conn = runner.server.connections[0]
    print("requests handled:", state["handled"],
          "| bytes still buffered:", tr.get_write_buffer_size(),
          "| handler in progress:", conn._request_in_progress)
    assert tr.get_write_buffer_size() > 0 and not conn._request_in_progress
    srv_sock = tr.get_extra_info("socket")

    t0 = loop.time()
    await runner.cleanup()
    print("cleanup() returned after %.2fs" % (loop.time() - t0))
    await asyncio.sleep(1.5)
    fd = srv_sock.fileno()
    print("1.5s after cleanup(): server-side socket fileno =", fd,
          "| bytes still buffered:", tr.get_write_buffer_size())
    bad = fd != -1
    if bad:
        print("VIOLATION: the connection was idle (no request being handled) yet it is "
              "still open after cleanup() returned; it stays open until the peer reads")
    c.close()
    lsock.close()
    return bad


sys.exit(1 if asyncio.run(main()) else 0)
