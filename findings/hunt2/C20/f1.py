"""TLS connection whose handshake is still in flight when shutdown begins.

The TCP connection is accepted before the sites are stopped, but aiohttp's
RequestHandler.connection_made() only runs when the TLS handshake completes.
If that happens after Server.pre_shutdown() the connection is unknown to the
shutdown sequence:

  A) handshake completes while Server.shutdown() waits for a running handler:
     the new connection is not in the gather(), `_connections.clear()` forgets
     it; a request on it is ACCEPTED during shutdown, and the connection is
     still open and still served after runner.cleanup() has returned (cleanup
     contexts already exited).
  B) handshake completes while an on_shutdown handler runs: the idle
     connection is not closed at once; RequestHandler.shutdown() waits the full
     shutdown_timeout for its idle start() task.
"""
import asyncio
import os
import socket
import ssl
import subprocess
import sys
import tempfile

import aiohttp
from aiohttp import web

print("aiohttp from", aiohttp.__file__)

TIMEOUT = 2.0
events = []


def make_certs():
    d = tempfile.mkdtemp()
    key, crt = os.path.join(d, "k.pem"), os.path.join(d, "c.pem")
    subprocess.run(
        ["openssl", "req", "-x509", "-newkey", "rsa:2048", "-nodes", "-keyout", key,
         "-out", crt, "-days", "2", "-subj", "/CN=localhost"],
        check=True, capture_output=True,
    )
    sctx = ssl.SSLContext(ssl.PROTOCOL_TLS_SERVER)
    sctx.load_cert_chain(crt, key)
    cctx = ssl.SSLContext(ssl.PROTOCOL_TLS_CLIENT)
    cctx.check_hostname = False
    cctx.verify_mode = ssl.CERT_NONE
    return sctx, cctx


async def ctx(app):
    events.append("ctx up")
    yield
    events.append("ctx down")


async def slow(request):
    events.append("slow handler started")
    await asyncio.sleep(0.4)
    events.append("slow handler done")
    return web.Response(text="slow")


async def hello(request):
    events.append("hello handler ran")
    return web.Response(text="hello")


class Collect(asyncio.Protocol):
    def __init__(self):
        self.data = b""
        self.closed = asyncio.get_running_loop().create_future()

    def data_received(self, data):
        self.data += data

    def connection_lost(self, exc):
        if not self.closed.done():
            self.closed.set_result(exc)


async def scenario(sctx, cctx, variant):
    events.clear()
    loop = asyncio.get_running_loop()
    app = web.Application()
    app.cleanup_ctx.append(ctx)
    app.router.add_get("/slow", slow)
    app.router.add_get("/", hello)
    if variant == "B":

        async def on_shutdown(app):
            events.append("on_shutdown begins")
            await asyncio.sleep(0.4)
            events.append("on_shutdown ends")

        app.on_shutdown.append(on_shutdown)
    runner = web.AppRunner(app, shutdown_timeout=TIMEOUT)
    await runner.setup()
    site = web.TCPSite(runner, "127.0.0.1", 0, ssl_context=sctx)
    await site.start()
    port = site.port

    session = aiohttp.ClientSession()
    slow_req = None
    if variant == "A":
        slow_req = asyncio.ensure_future(
            session.get(f"https://127.0.0.1:{port}/slow", ssl=cctx)
        )
        while "slow handler started" not in events:
            await asyncio.sleep(0.01)

    # Client: TCP connection established, TLS handshake not begun yet.
    c = socket.socket()
    c.connect(("127.0.0.1", port))
    c.setblocking(False)
    await asyncio.sleep(0.05)  # the server has accepted it, awaits ClientHello

    t0 = loop.time()
    cleanup = asyncio.ensure_future(runner.cleanup())
    await asyncio.sleep(0.1)  # sites stopped, pre_shutdown() done
    events.append("client handshake")
    tr, proto = await loop.create_connection(
        Collect, sock=c, ssl=cctx, server_hostname="localhost"
    )
    events.append("handshake complete")
    during = b""
    if variant == "A":
        # a NEW request, sent while the server is shutting down
        tr.write(b"GET / HTTP/1.1\r\nHost: x\r\n\r\n")
        await asyncio.sleep(0.1)
        during = proto.data
        proto.data = b""
    await cleanup
    took = loop.time() - t0
    events.append("cleanup returned after %.2fs" % took)
    # After cleanup() has returned:
    open_after = not proto.closed.done()
    after = b""
    if open_after:
        tr.write(b"GET / HTTP/1.1\r\nHost: x\r\n\r\n")
        await asyncio.sleep(0.2)
        after = proto.data
    tr.abort()
    if slow_req is not None:
        (await slow_req).release()
    await session.close()
    return took, during, open_after, after


async def main():
    sctx, cctx = make_certs()
    bad = False

    took, during, open_after, after = await scenario(sctx, cctx, "A")
    print("A) handshake completes while shutdown waits for a running handler")
    print("   events:", events)
    print("   reply to the request sent during shutdown:", during[:15])
    print("   connection open after cleanup():", open_after, "| reply after cleanup():", after[:15])
    if during.startswith(b"HTTP/1.1 200"):
        print("   VIOLATION: a new request was accepted and handled during shutdown")
        bad = True
    if open_after:
        print("   VIOLATION: the connection is still open after cleanup() returned")
        bad = True
    if after.startswith(b"HTTP/1.1 200"):
        print("   VIOLATION: a request was served after cleanup() returned "
              "(cleanup contexts already exited)")
        bad = True

    took, during, open_after, after = await scenario(sctx, cctx, "B")
    print("B) handshake completes while an on_shutdown handler runs")
    print("   events:", events)
    print("   connection open after cleanup():", open_after)
    if took > 0.4 + TIMEOUT * 0.9:
        print("   VIOLATION: the idle connection was not closed at once: cleanup "
              "took %.2fs = on_shutdown 0.4s + the whole shutdown_timeout %.1fs "
              "although no request was being handled" % (took, TIMEOUT))
        bad = True
    return bad


bad = asyncio.run(main())
sys.exit(1 if bad else 0)
