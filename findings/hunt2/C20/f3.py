"""Entry point aiohttp.test_utils (TestServer / TestClient / AioHTTPTestCase):
start_server() awaits runner.setup() with nothing that cleans up when a later
startup step fails.  `async with TestClient(TestServer(app))` therefore leaves
the cleanup contexts entered before the failing step un-exited (and
AioHTTPTestCase.asyncSetUp likewise, since tearDown is skipped when setUp
fails).  Same defect that was repaired for run_app and GunicornWebWorker.
"""
import asyncio
import sys

import aiohttp
from aiohttp import web
from aiohttp.test_utils import TestClient, TestServer

print("aiohttp from", aiohttp.__file__)


def make(log):
    app = web.Application()

    async def first(app):
        log.append("up first")
        yield
        log.append("down first")

    async def second(app):
        raise RuntimeError("second context fails in startup")
        yield

    app.cleanup_ctx.append(first)
    app.cleanup_ctx.append(second)
    return app


async def main():
    bad = False
    for label, factory in (
        ("async with TestServer(app)", lambda app: TestServer(app)),
        ("async with TestClient(TestServer(app))", lambda app: TestClient(TestServer(app))),
    ):
        log = []
        obj = factory(make(log))
        try:
            async with obj:
                pass
        except RuntimeError as exc:
            log.append(f"raised: {exc}")
        print(label, "->", log)
        if "up first" in log and "down first" not in log:
            print("   VIOLATION: context 'first' completed its startup but was never cleaned up")
            bad = True
        if isinstance(obj, TestClient):
            await obj._session.close()
    return bad


sys.exit(1 if asyncio.run(main()) else 0)
