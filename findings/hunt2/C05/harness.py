import asyncio, sys
import aiohttp
from aiohttp import web

class FakeTransport(asyncio.Transport):
    def __init__(self):
        super().__init__()
        self.out = bytearray()
        self.closed = False
        self.paused = False
        self.proto = None
        self.events = []
        self.aborted = False
    def write(self, data):
        self.out += bytes(data)
    def writelines(self, chunks):
        for c in chunks:
            self.out += bytes(c)
    def is_closing(self):
        return self.closed
    def close(self):
        if not self.closed:
            self.closed = True
            self.events.append("close")
            asyncio.get_event_loop().call_soon(self._lost)
    def abort(self):
        self.aborted = True
        self.close()
    def _lost(self):
        if self.proto is not None:
            p, self.proto = self.proto, None
            p.connection_lost(None)
    def pause_reading(self):
        self.paused = True
        self.events.append("pause")
    def resume_reading(self):
        self.paused = False
        self.events.append("resume")
    def is_reading(self):
        return not self.paused
    def get_extra_info(self, name, default=None):
        if name == "peername":
            return ("127.0.0.1", 1234)
        return default
    def get_write_buffer_size(self):
        return 0

async def make(app_or_handler, **kw):
    if isinstance(app_or_handler, web.Application):
        runner = web.AppRunner(app_or_handler, **kw)
    else:
        runner = web.ServerRunner(web.Server(app_or_handler, **kw))
    await runner.setup()
    proto = runner.server()
    tr = FakeTransport()
    tr.proto = proto
    proto.connection_made(tr)
    return runner, proto, tr

async def settle(n=20):
    for _ in range(n):
        await asyncio.sleep(0)

def banner():
    print("aiohttp from", aiohttp.__file__)
