"""A different response RETURNED after a streamed response was started.

The repair for "HTTPException raised after the response was started" only
guards the two raising paths (_handle_request's HTTPException branch and
handle_error()).  The returning path - finish_response() - has no such check:
an error-handling middleware that turns an exception of a streaming handler
into a JSON response makes the server write a second status line and header
block into the unfinished chunked body of the first response and keep the
connection alive; the response to the next request follows in the same stream.
"""
import asyncio
import sys

from common import banner, exchange, serve, web


async def error_middleware(request, handler):
    try:
        return await handler(request)
    except web.HTTPException:
        raise
    except Exception as exc:
        return web.json_response({"error": str(exc)}, status=500)


async def export(request: web.Request) -> web.StreamResponse:
    resp = web.StreamResponse()
    await resp.prepare(request)
    await resp.write(b"row1\n")
    raise RuntimeError("database went away")


async def ok(request: web.Request) -> web.Response:
    return web.Response(text="second response")


async def main() -> int:
    banner()
    app = web.Application(middlewares=[error_middleware])
    app.router.add_get("/export", export)
    app.router.add_get("/ok", ok)
    runner, port = await serve(app)
    try:
        out, closed = await exchange(
            port,
            b"GET /export HTTP/1.1\r\nHost: x\r\n\r\nGET /ok HTTP/1.1\r\nHost: x\r\n\r\n",
        )
        heads = [l for l in out.split(b"\r\n") if l.startswith(b"HTTP/1.1 ")]
        print("status lines on the wire:", heads, " closed by server:", closed)
        head, _, body = out.partition(b"\r\n\r\n")
        print("body of the first (chunked) response as sent:")
        print("   ", body[:140], b"...")
        if len(heads) == 3 and not closed:
            print("VIOLATION: 3 response heads for 2 requests; the 2nd head sits inside "
                  "the chunked body of the 1st response and the connection is kept alive")
            return 1
        return 0
    finally:
        await runner.cleanup()


sys.exit(asyncio.run(main()))
