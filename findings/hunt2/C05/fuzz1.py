import asyncio, sys, random, zlib, logging, io
from harness import *

logging.getLogger("aiohttp.server").setLevel(logging.CRITICAL)
logging.getLogger("aiohttp.access").setLevel(logging.CRITICAL)

async def h_ok(request):
    b = await request.read()
    return web.Response(text="len=%d" % len(b))
async def h_ignore(request):
    return web.Response(text="ignored")
async def h_raise(request):
    raise RuntimeError("x")
async def h_404(request):
    raise web.HTTPNotFound()
async def h_stream(request):
    r = web.StreamResponse()
    await r.prepare(request)
    await r.write(b"abc")
    await asyncio.sleep(0)
    await r.write(b"defg")
    return r
async def h_sleep(request):
    for _ in range(random.randint(1, 6)):
        await asyncio.sleep(0)
    b = await request.read()
    return web.Response(text="slept len=%d" % len(b))
async def h_partial(request):
    try:
        await request.content.readany()
    except Exception:
        pass
    return web.Response(text="partial")
async def h_ws(request):
    ws = web.WebSocketResponse()
    if not ws.can_prepare(request):
        return web.Response(text="nows")
    return web.Response(text="declined")

PATHS = ["/ok", "/ignore", "/raise", "/404", "/stream", "/sleep", "/partial", "/ws"]
def mkapp():
    app = web.Application(client_max_size=10**8)
    for p, h in zip(PATHS, [h_ok, h_ignore, h_raise, h_404, h_stream, h_sleep, h_partial, h_ws]):
        app.router.add_route("*", p, h)
    return app

def gen_request(rng, last):
    p = rng.choice(PATHS)
    kind = rng.choice(["get", "cl", "chunked", "gz", "expect", "upgrade", "upgrade_body", "head", "gzchunked", "trailers"])
    hdrs = ["Host: x"]
    body = b""
    method = "POST"
    if kind == "get":
        method = "GET"
    elif kind == "head":
        method = "HEAD"
    elif kind == "cl":
        n = rng.choice([0, 1, 10, 1000, 70000, 300000])
        payload = bytes(rng.getrandbits(8) for _ in range(min(n, 50))) * (n // 50 + 1)
        payload = payload[:n]
        hdrs.append("Content-Length: %d" % n)
        body = payload
    elif kind == "chunked":
        hdrs.append("Transfer-Encoding: chunked")
        for _ in range(rng.randint(0, 5)):
            n = rng.choice([1, 5, 100, 5000])
            body += b"%x\r\n" % n + b"z" * n + b"\r\n"
        body += b"0\r\n\r\n"
    elif kind == "gz":
        n = rng.choice([10, 100000, 3000000])
        raw = b"a" * n
        c = zlib.compressobj(wbits=31)
        payload = c.compress(raw) + c.flush()
        hdrs.append("Content-Encoding: gzip")
        hdrs.append("Content-Length: %d" % len(payload))
        body = payload
    elif kind == "gzchunked":
        n = rng.choice([10, 100000, 1000000])
        raw = b"a" * n
        c = zlib.compressobj(wbits=31)
        payload = c.compress(raw) + c.flush()
        hdrs.append("Content-Encoding: gzip")
        hdrs.append("Transfer-Encoding: chunked")
        step = rng.choice([1, 7, 100, 10000])
        for i in range(0, len(payload), step):
            piece = payload[i:i+step]
            body += b"%x\r\n" % len(piece) + piece + b"\r\n"
        body += b"0\r\n\r\n"
    elif kind == "trailers":
        hdrs.append("Transfer-Encoding: chunked")
        body = b"3;ext=1\r\nzzz\r\n0\r\nX-T: 1\r\nY-T: 2\r\n\r\n"
    elif kind == "expect":
        hdrs.append("Expect: 100-continue")
        hdrs.append("Content-Length: 5")
        body = b"hello"
    elif kind == "upgrade":
        method = "GET"
        hdrs.append("Connection: upgrade")
        hdrs.append("Upgrade: websocket")
    elif kind == "upgrade_body":
        hdrs.append("Connection: upgrade")
        hdrs.append("Upgrade: websocket")
        hdrs.append("Content-Length: 7")
        body = b"1234567"
    if last and rng.random() < 0.3 and "upgrade" not in kind:
        hdrs.append("Connection: close")
    head = ("%s %s HTTP/1.1\r\n" % (method, p) + "\r\n".join(hdrs) + "\r\n\r\n").encode()
    explen = {"cl": len(body), "expect": 5, "upgrade_body": 7}.get(kind, 0)
    if kind in ("chunked", "trailers"):
        explen = body.count(b"z")
    if kind in ("gz", "gzchunked"):
        explen = n
    return method, p, kind, head + body, explen

def parse_responses(out, methods):
    """return list of (status, headers, body) ; raise on malformed"""
    res = []
    pos = 0
    i = 0
    while pos < len(out):
        end = out.find(b"\r\n\r\n", pos)
        if end < 0:
            raise ValueError("incomplete head at %d: %r" % (pos, out[pos:pos+80]))
        head = out[pos:end].decode("latin1").split("\r\n")
        sl = head[0]
        if not sl.startswith(("HTTP/1.1 ", "HTTP/1.0 ")):
            raise ValueError("bad status line %r" % sl)
        status = int(sl.split()[1])
        h = {}
        for l in head[1:]:
            k, _, v = l.partition(":")
            h[k.strip().lower()] = v.strip()
        pos = end + 4
        if status == 100:
            continue
        if i >= len(methods):
            raise ValueError("more responses than requests: %r" % sl)
        m = methods[i]
        i += 1
        body = b""
        if m == "HEAD" or status in (204, 304):
            pass
        elif h.get("transfer-encoding") == "chunked":
            while True:
                e = out.find(b"\r\n", pos)
                if e < 0: raise ValueError("incomplete chunk size")
                n = int(out[pos:e], 16)
                pos = e + 2
                if n == 0:
                    if out[pos:pos+2] != b"\r\n": raise ValueError("bad chunk end")
                    pos += 2
                    break
                body += out[pos:pos+n]
                if out[pos+n:pos+n+2] != b"\r\n": raise ValueError("bad chunk crlf")
                pos += n + 2
        elif "content-length" in h:
            n = int(h["content-length"])
            if pos + n > len(out): raise ValueError("short body")
            body = out[pos:pos+n]
            pos += n
        else:
            raise ValueError("no framing in %r" % head)
        res.append((status, h, body))
        if status == 400:
            raise ValueError("got 400: %r" % body)
    return res

async def run_one(seed):
    rng = random.Random(seed)
    nreq = rng.randint(1, 6) if rng.random() < 0.8 else rng.randint(30, 80)
    reqs = [gen_request(rng, i == nreq - 1) for i in range(nreq)]
    stream = b"".join(r[3] for r in reqs)
    # segmentation
    cuts = sorted(set(rng.randint(0, len(stream)) for _ in range(rng.randint(0, 6))))
    segs = []
    prev = 0
    for c in cuts + [len(stream)]:
        if c > prev:
            segs.append(stream[prev:c]); prev = c
    errors = []
    loop = asyncio.get_running_loop()
    loop.set_exception_handler(lambda l, ctx: errors.append(ctx))
    rb = rng.choice([16, 1024, 65536])
    lt = rng.choice([0, 0.05])
    runner, proto, tr = await make(mkapp(), lingering_time=lt, read_bufsize=rb)
    pending = list(segs)
    # feed respecting pause
    for _ in range(2000):
        if tr.closed:
            break
        if pending and not tr.paused:
            try:
                proto.data_received(pending.pop(0))
            except Exception as e:
                return "data_received raised %r" % e
        await asyncio.sleep(0)
        if rng.random() < 0.5:
            await asyncio.sleep(0)
        if not pending:
            break
    # settle
    for _ in range(400):
        await asyncio.sleep(0)
    await asyncio.sleep(0.12)
    for _ in range(50):
        await asyncio.sleep(0)
    out = bytes(tr.out)
    methods = [r[0] for r in reqs]
    desc = [(r[0], r[1], r[2]) for r in reqs]
    if errors:
        return "loop errors %r %r" % (errors, desc)
    try:
        res = parse_responses(out, methods)
    except Exception as e:
        return "malformed output: %s reqs=%r" % (e, desc)
    for (st, h, body), r in zip(res, reqs):
        if r[1] in ("/ok", "/sleep") and st == 200 and r[0] != "HEAD":
            if not body.endswith(b"len=%d" % r[4]):
                return "wrong body %r expected len %d reqs=%r" % (body, r[4], desc)
        exp = {"/raise": 500, "/404": 404}.get(r[1], 200)
        if st != exp:
            return "status %d expected %d for %r; reqs=%r" % (st, exp, r[:3], desc)
    if not tr.closed:
        if pending:
            return "stuck with pending input paused=%s reqs=%r nres=%d" % (tr.paused, desc, len(res))
        if len(res) != len(reqs):
            return "open with %d/%d answered reqs=%r" % (len(res), len(reqs), desc)
    await runner.cleanup()
    return None

async def main():
    banner()
    start = int(sys.argv[1]) if len(sys.argv) > 1 else 0
    n = int(sys.argv[2]) if len(sys.argv) > 2 else 300
    bad = 0
    for seed in range(start, start + n):
        r = await run_one(seed)
        if r:
            bad += 1
            print(seed, r[:600])
            if bad > 8: break
    print("done bad=", bad)
asyncio.run(main())
