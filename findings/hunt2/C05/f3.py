"""A response object returned for a second request: request unanswered, connection left open.

Handler behaviour: return a module-level (cached) web.Response.  The first
request is answered.  For every later request prepare() and write_eof() return
early because the object has _eof_sent set, finish_response() reports success,
start() keeps the connection alive: no byte is written, no handler is running,
the connection stays open (until the keep-alive timeout, 3630 s by default for
AppRunner / 75 s for run_app).
"""
import asyncio
import sys

from common import banner, exchange, serve, web

CACHED = web.Response(text="pong")


async def ping(request: web.Request) -> web.Response:
    return CACHED


async def main() -> int:
    banner()
    app = web.Application()
    app.router.add_get("/ping", ping)
    runner, port = await serve(app)
    req = b"GET /ping HTTP/1.1\r\nHost: x\r\n\r\n"
    try:
        out1, closed1 = await exchange(port, req, 0.3)
        out2, closed2 = await exchange(port, req, 1.0)
        print("1st connection:", out1.split(b"\r\n")[0], "closed by server:", closed1)
        print("2nd connection: received", out2, "closed by server:", closed2)
        conns = runner.server.connections
        idle = [c for c in conns if not c._request_in_progress]
        print("handlers running on the server:", len(conns) - len(idle))
        if not out2 and not closed2:
            print("VIOLATION: request neither answered nor connection closed, no handler running")
            return 1
        return 0
    finally:
        await runner.cleanup()


sys.exit(asyncio.run(main()))
