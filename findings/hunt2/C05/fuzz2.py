import asyncio, sys, random, logging
from harness import *

class Cap(logging.Handler):
    def __init__(self): super().__init__(); self.recs = []
    def emit(self, r): self.recs.append(r)
cap = Cap()
lg = logging.getLogger("aiohttp.server"); lg.addHandler(cap); lg.propagate = False
logging.getLogger("aiohttp.access").propagate = False

async def h(request):
    b = await request.read()
    _ = request.url, request.host, request.query, request.cookies, request.content_type, request.if_modified_since
    return web.Response(text="ok")

BASES = [
 b"GET /a/b?x=1 HTTP/1.1\r\nHost: example.com\r\nCookie: a=b\r\nIf-Modified-Since: Wed, 21 Oct 2015 07:28:00 GMT\r\n\r\n",
 b"POST /p HTTP/1.1\r\nHost: example.com\r\nContent-Length: 5\r\nContent-Type: text/plain; charset=utf-8\r\n\r\nhello",
 b"POST /p HTTP/1.1\r\nHost: example.com\r\nTransfer-Encoding: chunked\r\n\r\n3\r\nabc\r\n0\r\nX: y\r\n\r\n",
 b"GET http://example.com:80/x HTTP/1.1\r\nHost: example.com\r\nConnection: upgrade\r\nUpgrade: websocket\r\n\r\n",
 b"OPTIONS * HTTP/1.1\r\nHost: x\r\nExpect: 100-continue\r\nContent-Length: 0\r\n\r\n",
 b"POST /p HTTP/1.1\r\nHost: example.com\r\nContent-Encoding: gzip\r\nContent-Length: 5\r\n\r\nhello",
]
INTERESTING = [b"\x00", b"\xff", b"\r", b"\n", b" ", b"\t", b":", b"%", b"[", b"]", b"@", b"#", b"?", b"//", b"\\", b"%zz", b"%00", b"\x80", b"99999999999", b"-1", b";", b",", b"\x7f", b"*"]

def mutate(rng, b):
    b = bytearray(b)
    for _ in range(rng.randint(1, 3)):
        op = rng.randint(0, 3)
        pos = rng.randint(0, len(b))
        if op == 0:
            b[pos:pos] = rng.choice(INTERESTING)
        elif op == 1 and pos < len(b):
            b[pos] = rng.randint(0, 255)
        elif op == 2 and pos < len(b):
            del b[pos:pos + rng.randint(1, 4)]
        else:
            b[pos:pos] = rng.choice(INTERESTING) * rng.randint(1, 3)
    return bytes(b)

async def main():
    banner()
    start = int(sys.argv[1]); n = int(sys.argv[2])
    seen = set()
    for seed in range(start, start + n):
        rng = random.Random(seed); print("seed", seed, flush=True) if "-v" in sys.argv else None
        data = mutate(rng, rng.choice(BASES))
        cap.recs.clear()
        errs = []
        asyncio.get_running_loop().set_exception_handler(lambda l, ctx: errs.append(ctx))
        app = web.Application(); app.router.add_route("*", "/{tail:.*}", h)
        runner, proto, tr = await make(app, lingering_time=0)
        cut = rng.randint(0, len(data))
        try:
            proto.data_received(data[:cut]); 
            await settle(5)
            if not tr.closed: proto.data_received(data[cut:])
        except Exception as e:
            print(seed, "RAISED", repr(e), data); continue
        await settle(40)
        out = bytes(tr.out)
        msgs = [r.getMessage() for r in cap.recs if r.levelno >= logging.ERROR]
        key = None
        if errs: key = "looperr " + str(errs[0].get("message"))
        elif any("Unhandled" in m for m in msgs):
            r = [r for r in cap.recs if "Unhandled" in r.getMessage()][0]
            key = "unhandled " + repr(r.exc_info[1])[:80]
        elif any("Error handling request" in m for m in msgs):
            r = [r for r in cap.recs if "Error handling" in r.getMessage()][0]
            key = "500 " + (repr(r.exc_info[1])[:60] if r.exc_info else "")
        if key and key not in seen:
            seen.add(key)
            print(seed, key, data[:120], "OUT", out[:40], "closed", tr.closed)
        tr.close(); await settle(5); await runner.cleanup()
    print("done")
asyncio.run(main())
