"""Undecodable request bytes echoed in an error text: no 4xx is sent at all.

Header values and the chunk-size line are decoded with "surrogateescape".
Two error texts embed such a string verbatim (the others use repr()):
  * TransferEncodingError(<bad chunk-size line>)  (http_parser.py, PARSE_CHUNKED_SIZE)
  * HTTPExpectationFailed("Unknown Expect: <value>") (web_urldispatcher.py)
_handle_request() turns the HTTPException into Response(text=exc.text); encoding
the lone surrogate raises UnicodeEncodeError inside the except clause, it leaves
_handle_request(), start() logs "Unhandled exception" (ERROR, with traceback) and
drops the connection without any response.  The same requests with an ASCII
byte instead of \\xff are answered 400 / 417.
"""
import asyncio
import logging
import sys

from common import banner, exchange, serve, web


class Capture(logging.Handler):
    def __init__(self):
        super().__init__()
        self.records = []

    def emit(self, record):
        self.records.append(record)


async def ok(request: web.Request) -> web.Response:
    await request.read()
    return web.Response(text="ok")


CASES = [
    ("bad chunk size, ASCII",
     b"POST / HTTP/1.1\r\nHost: x\r\nTransfer-Encoding: chunked\r\n\r\nzz\r\n", b"400"),
    ("bad chunk size, \\xff",
     b"POST / HTTP/1.1\r\nHost: x\r\nTransfer-Encoding: chunked\r\n\r\n\xff\r\n", b"400"),
    ("unknown Expect, ASCII",
     b"POST / HTTP/1.1\r\nHost: x\r\nExpect: 100-continuX\r\nContent-Length: 0\r\n\r\n", b"417"),
    ("unknown Expect, \\xff",
     b"POST / HTTP/1.1\r\nHost: x\r\nExpect: 100-continu\xff\r\nContent-Length: 0\r\n\r\n", b"417"),
]


async def main() -> int:
    banner()
    cap = Capture()
    logger = logging.getLogger("aiohttp.server")
    logger.addHandler(cap)
    logger.setLevel(logging.ERROR)
    logger.propagate = False
    app = web.Application()
    app.router.add_route("*", "/", ok)
    runner, port = await serve(app)
    bad = 0
    try:
        for name, data, expected in CASES:
            cap.records.clear()
            out, closed = await exchange(port, data, 0.5)
            status = out.split(b"\r\n")[0]
            unhandled = [
                repr(r.exc_info[1])[:70]
                for r in cap.records
                if "Unhandled exception" in r.getMessage() and r.exc_info
            ]
            print("%-24s -> %r closed=%s %s" % (name, status, closed, unhandled))
            if expected not in status:
                bad = 1
        if bad:
            print("VIOLATION: hostile input is not answered with a 4xx; an internal "
                  "UnicodeEncodeError is logged as 'Unhandled exception' instead")
        return bad
    finally:
        await runner.cleanup()


sys.exit(asyncio.run(main()))
