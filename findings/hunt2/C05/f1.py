"""Framing state of a response whose prepare() failed leaks into the error response.

StreamResponse.prepare() configures the connection's StreamWriter in
_prepare_headers() (enable_chunking(), enable_compression(), length) and only
then serialises the headers.  If that last step - or an on_response_prepare
signal handler - raises (here: the header-injection guard refusing a LF in a
header value), nothing was sent (output_size == 0), so the server builds an
error response on the SAME writer, which is still in chunked mode:

  case A  default 500: "Content-Length: 55" followed by a chunk-framed body
  case B  handler turns the ValueError into web.HTTPBadRequest (keep-alive):
          the surplus framing bytes stay in the stream and the response to the
          next pipelined request is mis-framed for the client.
"""
import asyncio
import sys

from common import banner, exchange, serve, web


async def download(request: web.Request) -> web.StreamResponse:
    name = request.query.get("name", "x")
    resp = web.StreamResponse(
        headers={"Content-Disposition": 'attachment; filename="%s"' % name}
    )
    if "compress" in request.query:
        resp.enable_compression(web.ContentCoding.deflate)
    await resp.prepare(request)  # ValueError for a name with CR/LF
    await resp.write(b"data")
    return resp


async def download_checked(request: web.Request) -> web.StreamResponse:
    try:
        return await download(request)
    except ValueError:
        raise web.HTTPBadRequest(text="bad file name")


async def ok(request: web.Request) -> web.Response:
    return web.Response(text="second response")


def split_by_content_length(out: bytes):
    """What a client sees: head, then exactly Content-Length bytes of body."""
    msgs = []
    while out:
        head, sep, rest = out.partition(b"\r\n\r\n")
        if not sep:
            msgs.append((head, None))
            break
        n = None
        for line in head.split(b"\r\n")[1:]:
            k, _, v = line.partition(b":")
            if k.lower() == b"content-length":
                n = int(v)
        if n is None:
            msgs.append((head, rest))
            break
        msgs.append((head, rest[:n]))
        out = rest[n:]
    return msgs


async def main() -> int:
    banner()
    app = web.Application()
    app.router.add_get("/dl", download)
    app.router.add_get("/dl2", download_checked)
    app.router.add_get("/ok", ok)
    runner, port = await serve(app)
    bad = 0
    try:
        # case A
        out, closed = await exchange(
            port, b"GET /dl?name=a%0Ab HTTP/1.1\r\nHost: x\r\n\r\n"
        )
        (head, body), *more = split_by_content_length(out)
        print("A status :", head.split(b"\r\n")[0])
        print("A body   :", body)
        print("A surplus:", more)
        if not body.startswith(b"500 Internal Server Error"):
            print("VIOLATION A: Content-Length response with a chunk-framed body")
            bad = 1
        # case A': compression state leaks as well
        out, closed = await exchange(
            port, b"GET /dl?compress=1&name=a%0Ab HTTP/1.1\r\nHost: x\r\n\r\n"
        )
        head, _, body = out.partition(b"\r\n\r\n")
        print("A' head has Content-Encoding:", b"content-encoding" in head.lower(),
              " body:", body[:40])
        if not body.startswith(b"500 Internal Server Error"):
            print("VIOLATION A': error body deflated without Content-Encoding")
            bad = 1
        # case B: keep-alive, second request pipelined
        out, closed = await exchange(
            port,
            b"GET /dl2?name=a%0Ab HTTP/1.1\r\nHost: x\r\n\r\n"
            b"GET /ok HTTP/1.1\r\nHost: x\r\n\r\n",
        )
        msgs = split_by_content_length(out)
        for i, (head, body) in enumerate(msgs):
            print("B message %d: %r body %r" % (i, head.split(b"\r\n")[0], body))
        if (
            len(msgs) != 2
            or msgs[0][1] != b"bad file name"
            or msgs[1][1] != b"second response"
        ):
            print("VIOLATION B: responses mis-framed on a keep-alive connection")
            bad = 1
        return bad
    finally:
        await runner.cleanup()


sys.exit(asyncio.run(main()))
