"""Helpers shared by the f*.py scripts: a real loopback server and a raw client."""
import asyncio
import logging

import aiohttp
from aiohttp import web

logging.getLogger("aiohttp.server").setLevel(logging.CRITICAL)
logging.getLogger("aiohttp.access").setLevel(logging.CRITICAL)


def banner() -> None:
    print("aiohttp imported from", aiohttp.__file__)


async def serve(app: web.Application):
    runner = web.AppRunner(app, shutdown_timeout=0.1)
    await runner.setup()
    site = web.TCPSite(runner, "127.0.0.1", 0)
    await site.start()
    port = site._server.sockets[0].getsockname()[1]
    return runner, port


async def exchange(port: int, data: bytes, wait: float = 0.5):
    """Send data, collect everything the server sends for `wait` seconds.

    Returns (bytes received, True if the server closed the connection).
    """
    reader, writer = await asyncio.open_connection("127.0.0.1", port)
    writer.write(data)
    await writer.drain()
    out = b""
    closed = False
    loop = asyncio.get_running_loop()
    end = loop.time() + wait
    while True:
        left = end - loop.time()
        if left <= 0:
            break
        try:
            chunk = await asyncio.wait_for(reader.read(65536), left)
        except asyncio.TimeoutError:
            break
        if not chunk:
            closed = True
            break
        out += chunk
    writer.close()
    return out, closed
