import asyncio, sys
import aiohttp
from aiohttp import web

print("aiohttp from", aiohttp.__file__)

async def start_server(handler_or_app, **runner_kw):
    if isinstance(handler_or_app, web.Application):
        app = handler_or_app
    else:
        app = web.Application()
        app.router.add_route("*", "/{tail:.*}", handler_or_app)
    runner = web.AppRunner(app, **runner_kw)
    await runner.setup()
    site = web.TCPSite(runner, "127.0.0.1", 0)
    await site.start()
    port = site._server.sockets[0].getsockname()[1]
    return runner, port

async def raw_exchange(port, data, timeout=2.0, close_write=False):
    r, w = await asyncio.open_connection("127.0.0.1", port)
    w.write(data)
    await w.drain()
    if close_write:
        w.write_eof()
    buf = b""
    try:
        while True:
            chunk = await asyncio.wait_for(r.read(65536), timeout)
            if not chunk:
                buf += b"<EOF>"
                break
            buf += chunk
    except asyncio.TimeoutError:
        buf += b"<TIMEOUT>"
    w.close()
    return buf
