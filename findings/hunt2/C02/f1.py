"""F1: writer state set by an aborted StreamResponse.prepare() leaks into the error response.

StreamResponse._prepare_headers() switches the per-request StreamWriter to chunked
framing (and/or installs a compressor, a length limit) BEFORE the prepare hooks run and
BEFORE the header block is serialised.  If prepare() then fails without having written
anything (on_response_prepare handler raises, or the header-injection guard in
_serialize_headers rejects a CR/LF in a header value, or chunked is refused for
HTTP/1.0 after compression was already installed), the server answers with an error
response (500 / the raised HTTPException) through the SAME writer.  That response
declares Content-Length: N but its body is written chunk-framed (and possibly
deflated without Content-Encoding).
"""
import asyncio
import logging
import sys

import aiohttp
from aiohttp import web

print("aiohttp from", aiohttp.__file__)
logging.getLogger("aiohttp.server").setLevel(logging.CRITICAL)


async def raw(port, data, timeout=0.5):
    r, w = await asyncio.open_connection("127.0.0.1", port)
    w.write(data)
    buf = b""
    try:
        while True:
            chunk = await asyncio.wait_for(r.read(65536), timeout)
            if not chunk:
                break
            buf += chunk
    except asyncio.TimeoutError:
        pass
    w.close()
    return buf


def check_framing(label, wire):
    head, _, rest = wire.partition(b"\r\n\r\n")
    lines = head.split(b"\r\n")
    hdrs = {k.strip().lower(): v.strip() for k, v in (l.split(b":", 1) for l in lines[1:])}
    cl = int(hdrs[b"content-length"])
    print(f"[{label}] status line: {lines[0]!r}")
    print(f"[{label}] Content-Length: {cl}, Transfer-Encoding: {hdrs.get(b'transfer-encoding')}, "
          f"Content-Encoding: {hdrs.get(b'content-encoding')}")
    print(f"[{label}] bytes after the header block ({len(rest)}): {rest!r}")
    if len(rest) != cl:
        print(f"[{label}] VIOLATION: {len(rest)} body bytes on the wire, Content-Length says {cl}")
        return False
    return True


async def main():
    # --- case A: the header-injection guard fires inside prepare() -------------
    async def echo_handler(request):
        resp = web.StreamResponse(headers={"X-Echo": request.query["v"]})
        await resp.prepare(request)  # ValueError: forbidden control character
        await resp.write(b"hello")
        return resp

    # --- case B: an on_response_prepare handler vetoes the response -------------
    async def stream_handler(request):
        resp = web.StreamResponse()
        await resp.prepare(request)
        await resp.write(b"hello")
        return resp

    async def veto(request, response):
        # veto the streamed response only (not the 403 that replaces it)
        if request.path == "/stream" and not isinstance(response, web.Response):
            raise web.HTTPForbidden()

    app = web.Application()
    app.router.add_get("/echo", echo_handler)
    app.router.add_get("/stream", stream_handler)
    app.on_response_prepare.append(veto)
    runner = web.AppRunner(app)
    await runner.setup()
    site = web.TCPSite(runner, "127.0.0.1", 0)
    await site.start()
    port = site._server.sockets[0].getsockname()[1]

    ok = True
    wire = await raw(port, b"GET /echo?v=a%0d%0aSet-Cookie:x=1 HTTP/1.1\r\nHost: x\r\n\r\n")
    ok &= check_framing("A raw", wire)
    wire = await raw(port, b"GET /stream HTTP/1.1\r\nHost: x\r\n\r\n")
    ok &= check_framing("B raw", wire)

    # the same through aiohttp's own client
    async with aiohttp.ClientSession() as s:
        for label, path, params, status, text in (
            ("A client", "/echo", {"v": "a\r\nb"}, 500, "500 Internal Server Error"),
            ("B client", "/stream", None, 403, "403: Forbidden"),
        ):
            try:
                async with s.get(f"http://127.0.0.1:{port}{path}", params=params) as r:
                    body = await r.text()
                    print(f"[{label}] status={r.status} body={body!r}")
                    if r.status != status or not body.startswith(text):
                        print(f"[{label}] VIOLATION: the client did not get the error response the server produced")
                        ok = False
            except Exception as exc:
                print(f"[{label}] VIOLATION: client failed: {exc!r}"[:300])
                ok = False
    await runner.cleanup()
    return ok


sys.exit(0 if asyncio.run(main()) else 1)
