"""F3: the client waits for "100 Continue" without bound -> deadlock with aiohttp's own server.

ClientRequest._write_bytes() awaits the `_continue` future before sending the body and
nothing ever resolves it except an interim response.  aiohttp's server does not send one
 (a) for an HTTP/1.0 request (RFC 9110 10.1.1: the expectation MUST be ignored there), and
 (b) at all when the low-level web.Server is used (no expect handler).
So `session.post(url, data=..., expect100=True)` with version=HttpVersion10, or against a
web.Server, hangs: the client waits for 100 Continue, the handler waits for the body.
RFC 9110 10.1.1: a client "SHOULD NOT wait for an indefinite period before sending the content".
Only ClientTimeout.total (5 min by default) ends it, and the request is lost.
"""
import asyncio
import logging
import sys

import aiohttp
from aiohttp import web

print("aiohttp from", aiohttp.__file__)
logging.getLogger("aiohttp.server").setLevel(logging.CRITICAL)

WAIT = 5.0


async def echo(request):
    body = await request.read()
    return web.Response(body=body)


async def attempt(label, port, **session_kw):
    async with aiohttp.ClientSession(**session_kw) as s:
        try:
            async with asyncio.timeout(WAIT):
                async with s.post(f"http://127.0.0.1:{port}/", data=b"payload", expect100=True) as r:
                    body = await r.read()
                    print(f"[{label}] {r.status} {body!r}")
                    return r.status == 200 and body == b"payload"
        except TimeoutError:
            print(f"[{label}] VIOLATION: no response after {WAIT}s - client still waits for "
                  f"'100 Continue', handler still waits for the body")
            return False


async def main():
    ok = True
    # Application server
    app = web.Application()
    app.router.add_post("/", echo)
    runner = web.AppRunner(app)
    await runner.setup()
    site = web.TCPSite(runner, "127.0.0.1", 0)
    await site.start()
    port = site._server.sockets[0].getsockname()[1]
    ok &= await attempt("app, HTTP/1.1 (control)", port)
    ok &= await attempt("app, HTTP/1.0", port, version=aiohttp.HttpVersion10)
    await runner.cleanup()

    # low-level server
    runner2 = web.ServerRunner(web.Server(echo))
    await runner2.setup()
    site2 = web.TCPSite(runner2, "127.0.0.1", 0)
    await site2.start()
    port2 = site2._server.sockets[0].getsockname()[1]
    ok &= await attempt("web.Server, HTTP/1.1", port2)
    await runner2.cleanup()
    return ok


sys.exit(0 if asyncio.run(main()) else 1)
