"""F5 (additional): HEAD answered without Content-Length - the two ends disagree on keep-alive.

For a HEAD request, web.Response() / web.StreamResponse() are sent with neither
Content-Length nor Transfer-Encoding (Response._start() skips "Content-Length: 0" for HEAD,
_prepare_headers() drops Transfer-Encoding).  The server keeps the connection open
(resp.keep_alive is True).  HttpResponseParser.parse_message() does not know the response
answers a HEAD (the method is never passed to the parser) and applies "no length on
HTTP/1.1 -> body delimited by close", so the client marks the connection should_close and
drops it.  Every such HEAD costs a new connection although both ends speak keep-alive.
(tests/test_client_functional.py::test_keepalive_after_head_requests_success shows reuse
after HEAD is intended; it only passes because its handler returns a non-empty body.)
"""
import asyncio
import sys

import aiohttp
from aiohttp import web

print("aiohttp from", aiohttp.__file__)


async def main():
    server_side = []

    async def handler(request):
        resp = web.Response()
        server_side.append((request.method, request.transport.get_extra_info("peername")[1], resp))
        return resp

    app = web.Application()
    app.router.add_route("*", "/", handler)
    runner = web.AppRunner(app)
    await runner.setup()
    site = web.TCPSite(runner, "127.0.0.1", 0)
    await site.start()
    port = site._server.sockets[0].getsockname()[1]

    ok = True
    async with aiohttp.ClientSession() as s:
        for method in ("GET", "HEAD", "HEAD"):
            async with s.request(method, f"http://127.0.0.1:{port}/") as r:
                await r.read()
            await asyncio.sleep(0)
            pooled = sum(len(v) for v in s.connector._conns.values())
            _, peer_port, resp = server_side[-1]
            print(f"{method}: server keep_alive={resp.keep_alive}  client pooled connections={pooled}  "
                  f"(client port {peer_port})  response headers={dict(r.headers)}")
            if bool(resp.keep_alive) != bool(pooled):
                print("VIOLATION: server decided keep-alive, client decided close")
                ok = False
    await runner.cleanup()
    return ok


sys.exit(0 if asyncio.run(main()) else 1)
