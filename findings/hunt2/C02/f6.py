"""F6 (additional): caller-supplied "Transfer-Encoding: chunked" header on a body-less request -> hang.

ClientRequest honours a caller-supplied Transfer-Encoding: chunked header when there is a
body (chunk-frames it).  But __init__ only calls _update_transfer_encoding() when there is
data / chunked=True / a non-GET method, and the 301/302/303 branch of ClientSession._request()
drops the body, `chunked` and Content-Length but keeps the Transfer-Encoding header.  The
follow-up GET therefore announces a chunked body and never writes the terminating
"0\\r\\n\\r\\n": the server handler waits for the body for ever (sibling of the repaired
chunked=True-then-redirect defect).
"""
import asyncio
import logging
import sys

import aiohttp
from aiohttp import web

print("aiohttp from", aiohttp.__file__)
logging.getLogger("aiohttp.server").setLevel(logging.CRITICAL)


async def main():
    seen = []

    async def handler(request):
        seen.append((request.method, request.path, request.headers.get("Transfer-Encoding")))
        body = await request.read()
        if request.path == "/start":
            raise web.HTTPSeeOther("/target")
        return web.Response(text=f"{request.method} {len(body)}")

    app = web.Application()
    app.router.add_route("*", "/{tail:.*}", handler)
    runner = web.AppRunner(app)
    await runner.setup()
    site = web.TCPSite(runner, "127.0.0.1", 0)
    await site.start()
    port = site._server.sockets[0].getsockname()[1]

    ok = True
    async with aiohttp.ClientSession() as s:
        for label, kw in (
            ("chunked=True (control)", {"chunked": True}),
            ("Transfer-Encoding header", {"headers": {"Transfer-Encoding": "chunked"}}),
        ):
            seen.clear()
            try:
                async with asyncio.timeout(4):
                    async with s.post(f"http://127.0.0.1:{port}/start", data=b"abc", **kw) as r:
                        print(f"[{label}] {r.status} {await r.text()!r}  server saw {seen}")
            except TimeoutError:
                ok = False
                print(f"[{label}] VIOLATION: hang after the 303; server saw {seen} - the GET announces "
                      f"a chunked body that is never terminated")
    await runner.cleanup()
    return ok


sys.exit(0 if asyncio.run(main()) else 1)
