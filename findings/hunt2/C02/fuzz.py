import asyncio, sys, io, os, random, hashlib, json, tempfile, itertools, traceback, zlib
from common import *
from aiohttp import HttpVersion10, HttpVersion11

SIZES = [0, 1, 5, 2047, 2048, 2049, 65535, 65536, 65537, 200000]

def mkbytes(n, seed=0):
    rnd = random.Random(n * 31 + seed)
    # moderately compressible
    return bytes(rnd.choice(b"abcdefgh\r\n0;") for _ in range(n))

TMP = tempfile.mkdtemp(prefix="c02fuzz")
FILES = {}
for n in SIZES:
    p = os.path.join(TMP, f"f{n}.bin")
    with open(p, "wb") as f:
        f.write(mkbytes(n, 7))
    FILES[n] = p

class Splitter:
    """TCP relay cutting both directions into small pieces."""
    def __init__(self, port, mode):
        self.port = port; self.mode = mode
    async def start(self):
        self.srv = await asyncio.start_server(self.handle, "127.0.0.1", 0)
        return self.srv.sockets[0].getsockname()[1]
    async def pump(self, r, w, rnd):
        try:
            while True:
                data = await r.read(65536)
                if not data:
                    break
                if self.mode == "pass":
                    w.write(data); await w.drain(); continue
                pos = 0
                while pos < len(data):
                    if self.mode == "byte" and len(data) < 4000:
                        n = 1
                    else:
                        n = rnd.choice([1, 2, 3, 7, 50, 1000, 5000])
                    w.write(data[pos:pos+n]); pos += n
                    await w.drain()
                    await asyncio.sleep(0)
                    if n < 50: await asyncio.sleep(0.0002)
        except (ConnectionError, OSError):
            pass
        finally:
            try:
                if w.can_write_eof(): w.write_eof()
            except Exception: pass
    async def handle(self, cr, cw):
        try:
            ur, uw = await asyncio.open_connection("127.0.0.1", self.port)
        except Exception:
            cw.close(); return
        for w in (cw, uw):
            s = w.get_extra_info("socket")
            import socket
            s.setsockopt(socket.IPPROTO_TCP, socket.TCP_NODELAY, 1)
        rnd = random.Random(1)
        await asyncio.gather(self.pump(cr, uw, rnd), self.pump(ur, cw, rnd))
        cw.close(); uw.close()

RESP_LOG = {}

def build_response_spec(rnd):
    return {
        "kind": rnd.choice(["resp_none", "resp_bytes", "resp_text", "stream", "stream_cl", "stream_chunked", "payload_bytesio", "payload_agen", "file", "json", "resp_bytes_chunked"]),
        "status": rnd.choice([200, 200, 200, 201, 204, 304, 404, 205, 500]),
        "size": rnd.choice(SIZES),
        "compress": rnd.choice([None, None, "auto", "gzip", "deflate"]),
        "force_close": rnd.choice([False, False, False, True]),
        "read_body": rnd.choice([True, True, True, False]),
        "writes": rnd.choice([1, 2, 5]),
    }

async def handler(request):
    spec = json.loads(request.headers["X-Spec"])
    rid = request.headers["X-Rid"]
    info = {"method": request.method, "raw_path": request.raw_path, "version": list(request.version),
            "headers": [(k, v) for k, v in request.headers.items()]}
    if spec["read_body"]:
        body = await request.read()
        info["body_sha"] = hashlib.sha1(body).hexdigest(); info["body_len"] = len(body)
    kind = spec["kind"]; size = spec["size"]; status = spec["status"]
    data = mkbytes(size, 3)
    if kind == "resp_none":
        resp = web.Response(status=status); expect = b""
    elif kind == "resp_bytes":
        resp = web.Response(status=status, body=data); expect = data
    elif kind == "resp_bytes_chunked":
        resp = web.Response(status=status, body=data); expect = data
        if request.version == HttpVersion11:
            resp.enable_chunked_encoding()
    elif kind == "resp_text":
        resp = web.Response(status=status, text=data.decode()); expect = data
    elif kind == "json":
        resp = web.json_response({"d": data.decode()}, status=status); expect = json.dumps({"d": data.decode()}).encode()
    elif kind == "payload_bytesio":
        resp = web.Response(status=status, body=io.BytesIO(data)); expect = data
    elif kind == "payload_agen":
        async def gen():
            n = spec["writes"]; step = max(1, len(data)//n)
            for i in range(0, len(data), step):
                yield data[i:i+step]
        resp = web.Response(status=status, body=gen()); expect = data
    elif kind == "file":
        resp = web.FileResponse(FILES[size], status=status); expect = mkbytes(size, 7)
    else:
        resp = web.StreamResponse(status=status); expect = data
        if kind == "stream_cl":
            resp.content_length = len(data)
        elif kind == "stream_chunked" and request.version == HttpVersion11:
            resp.enable_chunked_encoding()
    if kind == "resp_none":
        pass  # known: finding A
    elif spec["compress"] == "auto":
        resp.enable_compression()
    elif spec["compress"]:
        resp.enable_compression(web.ContentCoding(spec["compress"]))
    if spec["force_close"]:
        resp.force_close()
    resp.headers["X-Info"] = json.dumps(info)
    RESP_LOG[rid] = (resp, expect)
    if kind.startswith("stream"):
        await resp.prepare(request)
        n = spec["writes"]; step = max(1, len(data)//n)
        for i in range(0, len(data), step):
            await resp.write(data[i:i+step])
        await resp.write_eof()
    return resp

def build_request(rnd):
    method = rnd.choice(["GET", "POST", "POST", "PUT", "DELETE", "HEAD", "OPTIONS", "PATCH"])
    bkind = rnd.choice(["none", "none", "bytes", "bytes", "str", "bytesio", "agen", "form", "multipart", "file", "json", "bytearray"])
    size = rnd.choice(SIZES)
    req = {"method": method, "bkind": bkind, "size": size,
           "chunked": rnd.choice([None, None, True]),
           "compress": rnd.choice([None, None, "deflate", "gzip"]),
           "expect100": rnd.choice([False, False, False, True]),
           "version": rnd.choice(["1.1", "1.1", "1.0"]),
           "conn": rnd.choice([None, None, None, "close", "keep-alive"]),
           "query": rnd.choice(["", "?a=1&b=%20x"]),
           }
    if req["version"] == "1.0":
        req["expect100"] = False  # known: finding C
    return req

def make_body(req):
    size = req["size"]; data = mkbytes(size, 5); k = req["bkind"]
    if k == "none": return {}, b""
    if k == "bytes": return {"data": data}, data
    if k == "bytearray": return {"data": bytearray(data)}, data
    if k == "str": return {"data": data.decode()}, data
    if k == "bytesio": return {"data": io.BytesIO(data)}, data
    if k == "file": return {"data": open(FILES[size], "rb")}, mkbytes(size, 7)
    if k == "agen":
        async def gen():
            step = max(1, size // 3)
            for i in range(0, size, step):
                yield data[i:i+step]
        return {"data": gen()}, data
    if k == "json":
        return {"json": {"d": data.decode()}}, json.dumps({"d": data.decode()}).encode()
    if k == "form":
        return {"data": {"f": data.decode()}}, None
    if k == "multipart":
        fd = aiohttp.FormData(); fd.add_field("f", data, filename="x.bin")
        return {"data": fd}, None
    raise AssertionError

async def one(session, base, req, spec, rid, problems, server_proto_state):
    kw, expect_body = make_body(req)
    headers = {"X-Spec": json.dumps(spec), "X-Rid": rid}
    if req["conn"]:
        headers["Connection"] = req["conn"]
    if kw and req["compress"]:
        kw["compress"] = req["compress"]
    if req["chunked"]:
        kw["chunked"] = True
    if req["expect100"]:
        kw["expect100"] = True
    desc = f"{rid} req={req} spec={spec}"
    try:
        async with asyncio.timeout(8):
            async with session.request(req["method"], base + "/p/a%20th" + req["query"], headers=headers, **kw) as r:
                cproto = r.connection.protocol if r.connection is not None else None
                body = await r.read()
                client_pooled_hint = None
                status = r.status; rh = r.headers
    except ValueError as e:
        # client-side rejected combination
        return "skip:" + str(e)[:40]
    except Exception as e:
        if isinstance(e, TimeoutError) and req["version"] == "1.0" and req["conn"] != "close":
            return "f13"
        problems.append(("EXC", desc, repr(e)))
        return "exc"
    resp_obj, expect = RESP_LOG.pop(rid, (None, None))
    if resp_obj is None:
        problems.append(("NOHANDLER", desc, status)); return "nohandler"
    if status != spec["status"]:
        problems.append(("STATUS", desc, status)); return "bad"
    if req["method"] == "HEAD" or status in (204, 304):
        expect = b""
    if body != expect:
        problems.append(("BODY", desc, f"got {len(body)} expected {len(expect)} hdrs={dict(rh)}")); 
    info = json.loads(rh["X-Info"])
    if info["method"] != req["method"] or info["raw_path"] != "/p/a%20th" + req["query"]:
        problems.append(("REQLINE", desc, info))
    if spec["read_body"] and expect_body is not None:
        if info["body_len"] != len(expect_body) or info["body_sha"] != hashlib.sha1(expect_body).hexdigest():
            problems.append(("REQBODY", desc, f"got {info['body_len']} expected {len(expect_body)}"))
    await asyncio.sleep(0)
    pooled = any(cproto is p for lst in session.connector._conns.values() for (p, _t) in lst) if cproto is not None else None
    server_keep = bool(resp_obj.keep_alive)
    if cproto is not None and pooled != server_keep and not req["expect100"] and (spec["read_body"] or req["bkind"] == "none"):
        if not (req["method"] == "HEAD" and "Content-Length" not in rh):
            problems.append(("KEEPALIVE", desc, f"client pooled={pooled} server keep_alive={server_keep} hdrs={dict(rh)}"))
    return "ok"

async def main():
    seed = int(sys.argv[1]) if len(sys.argv) > 1 else 0
    n = int(sys.argv[2]) if len(sys.argv) > 2 else 300
    mode = sys.argv[3] if len(sys.argv) > 3 else "pass"
    rnd = random.Random(seed)
    app = web.Application()
    app.router.add_route("*", "/{tail:.*}", handler)
    runner, port = await start_server(app)
    sp = Splitter(port, mode); pport = await sp.start()
    problems = []
    stats = {}
    import logging
    logging.getLogger("aiohttp.server").setLevel(logging.CRITICAL)
    for i in range(n):
        req = build_request(rnd); spec = build_response_spec(rnd)
        ver = HttpVersion10 if req["version"] == "1.0" else HttpVersion11
        async with aiohttp.ClientSession(version=ver, auto_decompress=True) as session:
            # two requests on the same session to exercise reuse
            for j in range(2):
                rid = f"{seed}-{i}-{j}"
                res = await one(session, f"http://127.0.0.1:{pport}", req, spec, rid, problems, None)
                stats[res.split(":")[0]] = stats.get(res.split(":")[0], 0) + 1
    print(stats)
    seen = set()
    for p in problems:
        print(p[0], p[1], p[2]); 
    print(len(problems), "problems")
    await runner.cleanup()
asyncio.run(main())
