"""F4: a caller-supplied Host header is lost when the client silently retries the request.

ClientRequestBase._update_headers() does `headers.pop(hdrs.HOST, host)` on the header
dict that ClientSession._request() keeps for the whole call.  When the first attempt
fails on a reused keep-alive connection (ServerDisconnectedError / ClientOSError) and the
method is idempotent, _request() builds a second ClientRequest from the same dict - now
without the caller's Host - so the retried request goes out with "Host: <url host:port>".
The handler sees a request with a different Host header (virtual-host routing breaks)
although the caller issued exactly one request with an explicit Host.
"""
import asyncio
import logging
import sys

import aiohttp
from aiohttp import web

print("aiohttp from", aiohttp.__file__)
logging.getLogger("aiohttp.server").setLevel(logging.CRITICAL)


async def main():
    seen = []

    async def handler(request):
        seen.append(request.headers.get("Host"))
        if len(seen) == 2:
            # the keep-alive connection dies while the 2nd request is in flight
            # (same effect as the server's keep-alive timeout racing with a new request)
            request.transport.abort()
            await asyncio.sleep(0.05)
        return web.Response(text=request.headers.get("Host"))

    app = web.Application()
    app.router.add_get("/", handler)
    runner = web.AppRunner(app)
    await runner.setup()
    site = web.TCPSite(runner, "127.0.0.1", 0)
    await site.start()
    port = site._server.sockets[0].getsockname()[1]

    answers = []
    async with aiohttp.ClientSession() as s:
        for i in range(2):
            async with s.get(f"http://127.0.0.1:{port}/", headers={"Host": "virtual.example"}) as r:
                answers.append(await r.text())
    await runner.cleanup()

    print("Host header seen by the handler, per attempt:", seen)
    print("Host header each caller-level request was answered for:", answers)
    if any(h != "virtual.example" for h in seen):
        print("VIOLATION: the retried request carried a different Host header than the caller supplied")
        return False
    return True


sys.exit(0 if asyncio.run(main()) else 1)
