"""F2: web.Response() without a body + enable_compression() -> no response at all.

Response._do_start_compression() asserts `self._body is not None`, but the default
body of web.Response() / web.Response(status=201) / HTTPNoContent-like responses IS None.
The AssertionError is raised inside finish_response() (outside the try that turns
handler errors into a 500), start() logs "Unhandled exception" and drops the
connection: the client gets ServerDisconnectedError instead of the 200/201/204 the
handler returned.  Typical trigger: a middleware that calls resp.enable_compression()
on every response.
"""
import asyncio
import logging
import sys

import aiohttp
from aiohttp import web

print("aiohttp from", aiohttp.__file__)
logging.getLogger("aiohttp.server").setLevel(logging.CRITICAL)


async def compress_everything(request, handler):
    resp = await handler(request)
    resp.enable_compression()
    return resp


async def main():
    async def created(request):
        return web.Response(status=201)  # body is None

    async def empty_bytes(request):
        return web.Response(status=201, body=b"")  # control: works

    async def no_content(request):
        return web.Response(status=204)

    app = web.Application(middlewares=[compress_everything])
    app.router.add_get("/created", created)
    app.router.add_get("/empty_bytes", empty_bytes)
    app.router.add_get("/no_content", no_content)
    runner = web.AppRunner(app)
    await runner.setup()
    site = web.TCPSite(runner, "127.0.0.1", 0)
    await site.start()
    port = site._server.sockets[0].getsockname()[1]

    ok = True
    async with aiohttp.ClientSession() as s:
        for path, status in (("/empty_bytes", 201), ("/created", 201), ("/no_content", 204)):
            try:
                async with s.get(f"http://127.0.0.1:{port}{path}") as r:
                    body = await r.read()
                    print(path, "->", r.status, body)
                    if r.status != status or body != b"":
                        ok = False
                        print("VIOLATION: wrong status/body")
            except Exception as exc:
                ok = False
                print(path, f"-> VIOLATION: handler returned {status} with an empty body, client got {exc!r}")
    await runner.cleanup()
    return ok


sys.exit(0 if asyncio.run(main()) else 1)
