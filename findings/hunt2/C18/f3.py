"""C18: StreamReader.wait_eof() (documented in docs/streams.rst) is the only
waiting method of the response body that does not run under the request's total
timeout: every sibling (read, readany, readline, readuntil, readexactly,
readchunk, iter_*) waits inside `with self._timer`, wait_eof() awaits its future
bare.  A server that stalls in the middle of the body therefore blocks
`await resp.content.wait_eof()` for ever although total=0.5 is configured.
"""
import asyncio
import sys

import aiohttp

print(aiohttp.__file__)


async def handle(reader, writer):
    await reader.readuntil(b"\r\n\r\n")
    writer.write(b"HTTP/1.1 200 OK\r\nContent-Length: 100\r\n\r\nabc")  # 3 of 100
    await writer.drain()
    try:
        await reader.read()  # stall until the client goes away
    finally:
        writer.close()


async def probe(url: str, how: str) -> str:
    loop = asyncio.get_running_loop()
    async with aiohttp.ClientSession(timeout=aiohttp.ClientTimeout(total=0.5)) as s:
        t0 = loop.time()
        resp = await s.get(url)
        waiter = getattr(resp.content, how)
        task = asyncio.ensure_future(waiter(100) if how == "readexactly" else waiter())
        done, _ = await asyncio.wait([task], timeout=3)
        if not done:
            task.cancel()
            await asyncio.gather(task, return_exceptions=True)
            resp.close()
            return f"still waiting after {loop.time() - t0:.1f}s (total=0.5)"
        resp.close()
        return f"{task.exception()!r} after {loop.time() - t0:.2f}s"


async def main() -> int:
    srv = await asyncio.start_server(handle, "127.0.0.1", 0)
    url = f"http://127.0.0.1:{srv.sockets[0].getsockname()[1]}/"
    rc = 0
    for how in ("readexactly", "wait_eof"):
        res = await probe(url, how)
        print(f"content.{how}(): {res}")
        if res.startswith("still"):
            rc = 1
    srv.close()
    await asyncio.sleep(0.1)
    if rc:
        print("FAIL: total timeout not enforced while waiting for the end of a stalled body")
    return rc


sys.exit(asyncio.run(main()))
