"""C18: after a sock_read/total timeout the socket stays open when unsent request
bytes sit in the transport buffer and the peer has stopped reading.

The F77 repair aborts the transport only when the *writer task* is cancelled
while it is parked in drain().  If the unsent tail of the body fits under the
transport's high-water mark (64 KiB) the writer task finishes normally, the
request waits for the response head, the timeout fires and the connection is
"closed" with transport.close() - which waits for the buffer to be flushed.
The peer never reads, so the socket is never closed (not even by
session.close()): one leaked fd + selector registration per timed-out request.

Small socket buffers are used only to keep the numbers small; with default
buffers the same happens with a body of kernel-capacity + (0, 64 KiB].
"""
import asyncio
import socket
import sys

import aiohttp

print(aiohttp.__file__)

client_socks = []


def socket_factory(addr_info):
    family, type_, proto, _, _ = addr_info
    s = socket.socket(family=family, type=type_, proto=proto)
    s.setsockopt(socket.SOL_SOCKET, socket.SO_SNDBUF, 4096)
    client_socks.append(s)
    return s


async def main() -> int:
    loop = asyncio.get_running_loop()
    # a peer that accepts the connection and then never reads from it
    lsock = socket.socket()
    lsock.setsockopt(socket.SOL_SOCKET, socket.SO_RCVBUF, 4096)
    lsock.bind(("127.0.0.1", 0))
    lsock.listen(8)
    port = lsock.getsockname()[1]

    conn = aiohttp.TCPConnector(socket_factory=socket_factory)
    tm = aiohttp.ClientTimeout(total=None, sock_read=0.5)

    async with aiohttp.ClientSession(connector=conn, timeout=tm) as session:
        t0 = loop.time()
        try:
            # ~10 KiB are taken by the kernel, ~38 KiB stay in the transport
            # buffer (below the 64 KiB high-water mark: the writer is not paused)
            async with session.post(f"http://127.0.0.1:{port}/", data=b"x" * 48000):
                pass
        except asyncio.TimeoutError as exc:
            print(f"request failed after {loop.time() - t0:.2f}s with {exc!r}")
        else:
            print("unexpected: no timeout")
            return 2

        await asyncio.sleep(1.0)
        (sock,) = client_socks
        print("1s after the timeout: client socket fileno =", sock.fileno())
        leaked = sock.fileno() != -1
    await asyncio.sleep(0.2)
    print("after session.close():  client socket fileno =", sock.fileno())
    still = sock.fileno() != -1
    lsock.close()
    if leaked or still:
        print(
            "FAIL: the connection of the timed-out request is still open: "
            "transport.close() waits for a peer that stopped reading"
        )
        return 1
    print("OK: socket closed")
    return 0


sys.exit(asyncio.run(main()))
