"""C18: the sock_read timer is re-armed by ResponseHandler.resume_reading() although
(a) the response has just been completed and the connection went back to the pool, or
(b) reading was paused again inside the same call (more buffered compressed data).

(a) leaves a timer running on an idle pooled connection: sock_read seconds later
    it stores SocketTimeoutError on the pooled protocol and the NEXT request of the
    session fails at once with "Timeout on reading data from socket" although
    nothing ever stalled (residue of a finished request, session not usable).
(b) fails a response whose bytes were ALL received already, just because the
    caller consumes it slower than sock_read: the timer runs while the transport is
    paused by aiohttp itself.

The server below answers immediately and completely; it never stalls.
"""
import asyncio
import gzip
import sys

import aiohttp

print(aiohttp.__file__)

# 1 MiB that compresses to ~1 KiB: head and body arrive in one read, the parser
# pauses with the rest of the (compressed) body buffered.
PLAIN = b"\0" * (1024 * 1024)
BODY = gzip.compress(PLAIN)


async def handle(reader, writer):
    try:
        while True:
            await reader.readuntil(b"\r\n\r\n")
            writer.write(
                b"HTTP/1.1 200 OK\r\nContent-Encoding: gzip\r\n"
                b"Content-Length: %d\r\n\r\n" % len(BODY) + BODY
            )
            await writer.drain()
    except (asyncio.IncompleteReadError, ConnectionError):
        pass
    finally:
        writer.close()


async def main() -> int:
    srv = await asyncio.start_server(handle, "127.0.0.1", 0)
    port = srv.sockets[0].getsockname()[1]
    url = f"http://127.0.0.1:{port}/"
    tm = aiohttp.ClientTimeout(total=None, sock_read=0.5)
    failures = []

    # (a) finished request poisons the pooled connection
    async with aiohttp.ClientSession(timeout=tm) as s:
        async with s.get(url) as resp:
            data = await resp.read()
        print("(a) first request:", resp.status, len(data), "bytes, ok =", data == PLAIN)
        await asyncio.sleep(1.0)  # idle, well inside keepalive_timeout (15s)
        t0 = asyncio.get_running_loop().time()
        try:
            async with s.get(url) as resp:
                data = await resp.read()
            print("(a) second request:", resp.status, len(data), "bytes")
        except Exception as exc:
            dt = asyncio.get_running_loop().time() - t0
            print(f"(a) second request FAILED after {dt:.3f}s: {exc!r}")
            failures.append("a")

    # (b) slow consumer of a completely received response
    async with aiohttp.ClientSession(timeout=tm) as s:
        async with s.get(url) as resp:
            n = 0
            try:
                async for chunk in resp.content.iter_chunked(65536):
                    n += len(chunk)
                    await asyncio.sleep(0.2)
                print("(b) slow consumer read", n, "bytes")
            except Exception as exc:
                print(f"(b) slow consumer FAILED after {n} of {len(PLAIN)} bytes: {exc!r}")
                failures.append("b")

    srv.close()
    await asyncio.sleep(0.1)
    if failures:
        print("FAIL:", failures, "- spurious sock_read timeout, the peer never stalled")
        return 1
    print("OK")
    return 0


sys.exit(asyncio.run(main()))
