"""C18: a cancellation (or an exception) that reaches ClientSession._request()
after the response head was received but before the response is returned leaves
the response un-closed.  Nobody can close it any more (the caller never got it),
and it is not garbage either: protocol -> payload -> eof callback -> response keeps
it alive.  If the peer then stalls in the body, the connection and its pool slot
are lost until session.close(); no timeout applies (the total-timeout handle was
cancelled in the `except BaseException` block).

Await points in that window: trace on_request_end / on_request_redirect
callbacks and an async `raise_for_status` callable.
"""
import asyncio
import socket
import sys

import aiohttp

print(aiohttp.__file__)

socks = []


def socket_factory(ai):
    s = socket.socket(ai[0], ai[1], ai[2])
    socks.append(s)
    return s


async def handle(reader, writer):
    try:
        while True:
            head = await reader.readuntil(b"\r\n\r\n")
            if head.startswith(b"GET /ok"):
                writer.write(b"HTTP/1.1 200 OK\r\nContent-Length: 2\r\n\r\nok")
                await writer.drain()
                continue
            # head + a part of the body, then stall
            writer.write(b"HTTP/1.1 500 Oops\r\nContent-Length: 100\r\n\r\nabc")
            await writer.drain()
            await reader.read()
            return
    except (asyncio.IncompleteReadError, ConnectionError):
        pass
    finally:
        writer.close()


async def residue(conn, session, url, label) -> bool:
    await asyncio.sleep(1.5)  # longer than the total timeout of the request
    open_socks = [s for s in socks if s.fileno() != -1]
    print(f"{label}: 1.5s later (total=1) acquired={len(conn._acquired)} open sockets={len(open_socks)}")
    try:
        async with session.get(
            url + "ok", timeout=aiohttp.ClientTimeout(total=None, connect=1)
        ) as r:
            print(f"{label}: next request:", r.status)
            ok = True
    except Exception as exc:
        print(f"{label}: next request on the session FAILED: {exc!r}")
        ok = False
    return ok and not conn._acquired and not open_socks


async def main() -> int:
    srv = await asyncio.start_server(handle, "127.0.0.1", 0)
    url = f"http://127.0.0.1:{srv.sockets[0].getsockname()[1]}/"
    bad = []

    # (1) caller cancelled while the on_request_end trace callback runs
    tc = aiohttp.TraceConfig()

    async def on_request_end(session, ctx, params):
        await asyncio.sleep(0.2)  # e.g. ship a metric

    tc.on_request_end.append(on_request_end)
    del socks[:]
    conn = aiohttp.TCPConnector(limit=1, socket_factory=socket_factory)
    tm = aiohttp.ClientTimeout(total=1)
    async with aiohttp.ClientSession(connector=conn, trace_configs=[tc], timeout=tm) as s:
        task = asyncio.ensure_future(s.get(url + "stall"))
        await asyncio.sleep(0.1)
        task.cancel()
        try:
            await task
        except asyncio.CancelledError:
            print("(1) request cancelled inside on_request_end")
        del task
        if not await residue(conn, s, url, "(1)"):
            bad.append(1)

    # (2) async raise_for_status callable raises without touching the body
    async def check(resp):
        if resp.status >= 400:
            raise RuntimeError(f"bad status {resp.status}")

    del socks[:]
    conn = aiohttp.TCPConnector(limit=1, socket_factory=socket_factory)
    async with aiohttp.ClientSession(connector=conn, raise_for_status=check, timeout=tm) as s:
        try:
            await s.get(url + "stall")
        except RuntimeError as exc:
            print("(2) request failed with", repr(exc))
        if not await residue(conn, s, url, "(2)"):
            bad.append(2)

    srv.close()
    await asyncio.sleep(0.1)
    if bad:
        print("FAIL:", bad, "- connection and pool slot of the failed request are never released")
        return 1
    print("OK")
    return 0


sys.exit(asyncio.run(main()))
