"""C18 (same root cause as f2.py, WebSocket entry point): ClientWebSocketResponse.close()
against a peer that stopped reading returns after ws_close seconds with code 1006,
but the connection is only closed with transport.close(): the unsent frames keep
the socket open for ever (also after session.close()).  The same happens when the
heartbeat declares the peer dead (_pong_not_received -> response.close()).
"""
import asyncio
import base64
import hashlib
import re
import socket
import sys

import aiohttp

print(aiohttp.__file__)
socks = []
WS_KEY = b"258EAFA5-E914-47DA-95CA-C5AB0DC85B11"


def socket_factory(ai):
    s = socket.socket(ai[0], ai[1], ai[2])
    s.setsockopt(socket.SOL_SOCKET, socket.SO_SNDBUF, 4096)
    socks.append(s)
    return s


async def main() -> int:
    loop = asyncio.get_running_loop()
    lsock = socket.socket()
    lsock.setsockopt(socket.SOL_SOCKET, socket.SO_RCVBUF, 4096)
    lsock.bind(("127.0.0.1", 0))
    lsock.listen()
    lsock.setblocking(False)
    port = lsock.getsockname()[1]

    async def server():
        c, _ = await loop.sock_accept(lsock)
        data = b""
        while b"\r\n\r\n" not in data:
            data += await loop.sock_recv(c, 4096)
        key = re.search(rb"Sec-WebSocket-Key: (.*)\r\n", data, re.I).group(1).strip()
        acc = base64.b64encode(hashlib.sha1(key + WS_KEY).digest())
        await loop.sock_sendall(
            c,
            b"HTTP/1.1 101 Switching Protocols\r\nUpgrade: websocket\r\n"
            b"Connection: Upgrade\r\nSec-WebSocket-Accept: " + acc + b"\r\n\r\n",
        )
        await asyncio.sleep(100)  # handshake done; never reads again

    st = asyncio.ensure_future(server())
    conn = aiohttp.TCPConnector(socket_factory=socket_factory)
    async with aiohttp.ClientSession(connector=conn) as s:
        ws = await s.ws_connect(
            f"http://127.0.0.1:{port}/", timeout=aiohttp.ClientWSTimeout(ws_close=0.5)
        )
        await ws.send_bytes(b"x" * 100000)  # mostly stays in the transport buffer
        t0 = loop.time()
        res = await asyncio.wait_for(ws.close(), 5)
        print(f"ws.close() -> {res} after {loop.time() - t0:.2f}s, close_code={ws.close_code}")
        await asyncio.sleep(1.0)
        print("1s after close(): socket fileno =", socks[0].fileno())
    await asyncio.sleep(0.2)
    print("after session.close(): socket fileno =", socks[0].fileno())
    st.cancel()
    if socks[0].fileno() != -1:
        print("FAIL: websocket connection still open after close() timed out")
        return 1
    print("OK")
    return 0


sys.exit(asyncio.run(main()))
