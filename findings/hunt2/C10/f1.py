"""IndexError escapes HttpRequestParser.feed_data() for an absolute-form target.

  GET http://[::1]@/x HTTP/1.1

The authority has a bracketed userinfo and an EMPTY host.  yarl's split_url()
indexes hostinfo[0] on the empty host -> IndexError.  parse_message() only
converts ValueError into InvalidURLError, and RequestHandler.data_received()
only catches HttpProcessingError, so the IndexError propagates into the event
loop: asyncio logs "Fatal error: protocol.data_received() call failed" and
drops the connection.  The client gets no 400 (no response at all).
"""
import asyncio
import io
import logging
import sys

import aiohttp
from aiohttp import web
from aiohttp.base_protocol import BaseProtocol
from aiohttp.http_exceptions import HttpProcessingError
from aiohttp.http_parser import HttpRequestParserPy

print(aiohttp.__file__)
logbuf = io.StringIO()
for name in ("aiohttp", "asyncio"):
    logging.getLogger(name).addHandler(logging.StreamHandler(logbuf))

TARGETS = [b"http://[::1]@/x", b"http://[::1]@", b"http://u:[v1.x]@/", b"ws://[a:b]@?q"]
CONTROL = b"http://[::1/x"  # malformed too, but yarl says ValueError -> 400


def parser_level(loop, target):
    proto = BaseProtocol(loop)
    p = HttpRequestParserPy(proto, loop, 2**16)
    proto._parser = p
    try:
        p.feed_data(b"GET " + target + b" HTTP/1.1\r\nHost: a\r\n\r\n")
    except HttpProcessingError as e:
        return f"HTTP error {type(e).__name__}"
    except Exception as e:
        return f"OTHER EXCEPTION {type(e).__name__}: {e}"
    return "message"


async def handler(request):
    return web.Response(text="ok")


async def talk(port, data):
    r, w = await asyncio.open_connection("127.0.0.1", port)
    w.write(data)
    await w.drain()
    try:
        out = await asyncio.wait_for(r.read(), 3)
    except asyncio.TimeoutError:
        out = b"<timeout>"
    w.close()
    return out


async def main():
    loop = asyncio.get_running_loop()
    failures = []
    print("parser level:")
    for t in [CONTROL] + TARGETS:
        res = parser_level(loop, t)
        print(f"  {t!r:28} -> {res}")
        if res.startswith("OTHER"):
            failures.append(f"feed_data({t!r}) raised {res}")

    app = web.Application()
    app.router.add_route("*", "/{tail:.*}", handler)
    runner = web.AppRunner(app)
    await runner.setup()
    site = web.TCPSite(runner, "127.0.0.1", 0)
    await site.start()
    port = site._server.sockets[0].getsockname()[1]
    print("server level:")
    for t in [CONTROL] + TARGETS[:2]:
        logbuf.seek(0)
        logbuf.truncate()
        out = await talk(port, b"GET " + t + b" HTTP/1.1\r\nHost: a\r\n\r\n")
        first = out.split(b"\r\n")[0] or b"<connection dropped, no response>"
        print(f"  {t!r:28} -> {first}")
        if b" 400 " not in out[:16]:
            log = logbuf.getvalue().strip().splitlines()
            failures.append(f"server: {t!r} got {first!r}; log ends: {log[-1] if log else ''}")
    await runner.cleanup()
    if failures:
        print("\nVIOLATION: a non-HTTP exception left the request parser / no 400 was sent")
        for f in failures:
            print("  -", f)
        sys.exit(1)
    print("ok")


asyncio.run(main())
