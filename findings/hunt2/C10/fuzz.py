import asyncio, random, sys, traceback, gzip, zlib, collections
import aiohttp
from aiohttp.http_parser import HttpRequestParserPy, HttpResponseParserPy
from aiohttp.http_exceptions import HttpProcessingError
from aiohttp.base_protocol import BaseProtocol
print(aiohttp.__file__)
class P(BaseProtocol):
    def __init__(self, loop):
        super().__init__(loop)
        self.msgs = []; self.exc = None; self.up = False
    def data_received(self, d):
        if self.exc is not None and not isinstance(self.exc, HttpProcessingError):
            return
        try:
            msgs, up, tail = self._parser.feed_data(d)
        except BaseException as e:
            if self.exc is None: self.exc = e
            return
        self.msgs += msgs; self.up = up
class T:
    def pause_reading(self): pass
    def resume_reading(self): pass

REQ_SEEDS = [
 b"GET /a/b?x=1#f HTTP/1.1\r\nHost: a\r\n\r\n",
 b"POST /p HTTP/1.1\r\nHost: a\r\nContent-Length: 5\r\n\r\nhello",
 b"POST /p HTTP/1.1\r\nHost: a\r\nTransfer-Encoding: chunked\r\n\r\n5;ext=1\r\nhello\r\n0\r\nX-T: v\r\n\r\n",
 b"POST /p HTTP/1.1\r\nHost: a\r\nContent-Encoding: gzip\r\nTransfer-Encoding: chunked\r\n\r\n" + (lambda z: b"%x\r\n%s\r\n0\r\n\r\n" % (len(z), z))(gzip.compress(b"abc"*100)),
 b"POST /p HTTP/1.1\r\nHost: a\r\nContent-Encoding: deflate\r\nContent-Length: %d\r\n\r\n%s" % (len(zlib.compress(b"abc"*100)), zlib.compress(b"abc"*100)),
 b"CONNECT example.com:443 HTTP/1.1\r\nHost: example.com:443\r\n\r\nrawbytes",
 b"OPTIONS * HTTP/1.1\r\nHost: a\r\n\r\n",
 b"GET http://u:p@example.com:80/x?y HTTP/1.1\r\nHost: example.com\r\nConnection: keep-alive, Upgrade\r\nUpgrade: websocket\r\n\r\n",
 b"GET / HTTP/1.0\r\nConnection: close\r\n\r\nGET / HTTP/1.1\r\nHost: a\r\n\r\n",
 b"PUT /x HTTP/1.1\r\nHost: a\r\nUpgrade: tcp\r\nConnection: upgrade\r\nContent-Length: 3\r\n\r\nabcTAIL",
]
RESP_SEEDS = [
 b"HTTP/1.1 200 OK\r\nContent-Length: 5\r\n\r\nhello",
 b"HTTP/1.1 200 OK\r\nTransfer-Encoding: chunked\r\n\r\n5;ext=1\r\nhello\r\n0\r\nX-T: v\r\n\r\n",
 b"HTTP/1.1 200 OK\nTransfer-Encoding: chunked\n\n5\nhello\n0\n\n",
 b"HTTP/1.0 200 OK\r\nContent-Encoding: gzip\r\n\r\n" + gzip.compress(b"abc"*100),
 b"HTTP/1.1 200 OK\r\nContent-Encoding: deflate\r\nTransfer-Encoding: chunked\r\n\r\n" + (lambda z: b"%x\r\n%s\r\n0\r\n\r\n" % (len(z), z))(zlib.compress(b"abc"*100)),
 b"HTTP/1.1 100 Continue\r\n\r\nHTTP/1.1 204 No Content\r\nX: y\r\n folded\r\n\tmore\r\n\r\n",
 b"HTTP/1.1 101 Switching Protocols\r\nUpgrade: websocket\r\nConnection: upgrade\r\n\r\n\x81\x00",
 b"HTTP/1.1 304 Not Modified\r\nContent-Length: 10\r\n\r\nHTTP/1.1 200 OK\r\n\r\nuntil-eof",
]
import brotli
try:
    from compression import zstd as _z
except ImportError:
    from backports import zstd as _z
_BR = brotli.compress(b"abc"*1000 + bytes(range(256))*4)
_ZS = _z.compress(b"abc"*1000 + bytes(range(256))*4)
_GZ = gzip.compress(b"abc"*1000 + bytes(range(256))*4)
def _ch(z, n=7):
    out = b""
    for i in range(0, len(z), n*13):
        p = z[i:i+n*13]; out += b"%x\r\n%s\r\n" % (len(p), p)
    return out + b"0\r\n\r\n"
for _name, _z_ in ((b"br", _BR), (b"zstd", _ZS), (b"gzip", _GZ), (b"zstd", _ZS+_ZS), (b"gzip", _GZ+_GZ), (b"deflate", zlib.compress(b"q"*5000)[2:-4])):
    REQ_SEEDS.append(b"POST /p HTTP/1.1\r\nHost: a\r\nContent-Encoding: " + _name + b"\r\nContent-Length: %d\r\n\r\n" % len(_z_) + _z_)
    REQ_SEEDS.append(b"POST /p HTTP/1.1\r\nHost: a\r\nContent-Encoding: " + _name + b"\r\nTransfer-Encoding: chunked\r\n\r\n" + _ch(_z_))
    RESP_SEEDS.append(b"HTTP/1.1 200 OK\r\nContent-Encoding: " + _name + b"\r\nContent-Length: %d\r\n\r\n" % len(_z_) + _z_)
    RESP_SEEDS.append(b"HTTP/1.1 200 OK\r\nContent-Encoding: " + _name + b"\r\nTransfer-Encoding: chunked\r\n\r\n" + _ch(_z_))
    RESP_SEEDS.append(b"HTTP/1.1 200 OK\r\nContent-Encoding: " + _name + b"\r\n\r\n" + _z_)
INTERESTING = [b"\r", b"\n", b"\r\n", b" ", b"\t", b":", b";", b",", b"\x00", b"\xff", b"\x80", b"\xed\xa0\x80", b"\xe2\x84\xaa", b"[", b"]", b"@", b"%", b"%zz", b"#", b"?", b"//", b"0", b"-1", b"+1", b"9"*30, b"f"*20, b"chunked", b"Transfer-Encoding: chunked\r\n", b"Content-Length: 1\r\n", b"Content-Encoding: br\r\n", b"Content-Encoding: zstd\r\n", b"Content-Encoding: GZIP\r\n", b"Sec-WebSocket-Key1: x\r\n", b"http://[::1", b"http://a:99999999/", b"http://a:x/", b"\xc4\xb0", b"\xef\xbc\x91"]
def mutate(rng, s):
    s = bytearray(s)
    for _ in range(rng.randint(1, 4)):
        op = rng.randrange(7)
        pos = rng.randrange(len(s) + 1) if s else 0
        if op == 0 and s:
            del s[pos:pos + rng.randint(1, 4)]
        elif op == 1:
            s[pos:pos] = rng.choice(INTERESTING)
        elif op == 2 and s:
            s[min(pos, len(s)-1)] = rng.randrange(256)
        elif op == 3:
            a = rng.randrange(len(s)+1); b = rng.randrange(len(s)+1)
            a, b = min(a,b), max(a,b)
            s[pos:pos] = s[a:b]
        elif op == 4:
            s[pos:pos] = bytes([rng.randrange(256)]) * rng.choice([1, 2, 10, 100, 300])
        elif op == 5:
            tok = rng.choice(INTERESTING)
            s[pos:pos+len(tok)] = tok
        elif op == 6 and s:
            s[min(pos, len(s)-1)] ^= 1 << rng.randrange(8)
    return bytes(s)

def run_one(loop, cls, data, cuts, kw):
    proto = P(loop); proto.transport = T()
    p = cls(proto, loop, kw.pop("limit", 2**16), **kw)
    proto._parser = p
    segs = []
    last = 0
    for c in cuts:
        segs.append(data[last:c]); last = c
    segs.append(data[last:])
    seen = 0
    def drain():
        nonlocal seen
        g = 0
        while g < 100000:
            g += 1
            progressed = False
            for m, pl in proto.msgs[seen:]:
                if hasattr(m, "url"):
                    u = m.url; u.host; u.port; u.path; u.query_string; str(u); u.raw_path; u.query; u.fragment
            seen = len(proto.msgs)
            for m, pl in proto.msgs:
                while getattr(pl, "_buffer", None):
                    if pl.exception() is not None:
                        pl._buffer.clear(); break
                    pl.read_nowait(); progressed = True
            if not progressed: break
    try:
        for seg in segs:
            proto.data_received(seg)
            drain()
            if proto.exc is not None or proto.up: break
        if proto.exc is None:
            p.feed_eof()
            drain()
    except HttpProcessingError:
        pass
    except Exception as e:
        return e
    if proto.exc is not None and not isinstance(proto.exc, HttpProcessingError):
        return proto.exc
    for m, pl in proto.msgs:
        ex = pl.exception() if hasattr(pl, 'exception') else None
        if ex is not None:
            root = ex.__cause__ if ex.__cause__ is not None else ex
            if not isinstance(root, HttpProcessingError):
                return root
    if proto.exc is None and proto._reading_paused:
        return RuntimeError("left paused")
    return None

async def main():
    loop = asyncio.get_running_loop()
    seed = int(sys.argv[1]) if len(sys.argv) > 1 else 0
    N = int(sys.argv[2]) if len(sys.argv) > 2 else 20000
    rng = random.Random(seed)
    found = collections.Counter()
    examples = {}
    for i in range(N):
        isreq = rng.random() < 0.5
        seeds = REQ_SEEDS if isreq else RESP_SEEDS
        cls = HttpRequestParserPy if isreq else HttpResponseParserPy
        if rng.random() < 0.1:
            data = bytes(rng.randrange(256) for _ in range(rng.randint(0, 200)))
        else:
            data = rng.choice(seeds)
            if rng.random() < 0.3:
                data += rng.choice(seeds)
            data = mutate(rng, data)
        ncut = rng.choice([0, 0, 1, 2, 5, len(data)])
        cuts = sorted(rng.randrange(len(data)+1) for _ in range(ncut)) if data else []
        kw = {}
        if rng.random() < 0.5:
            kw = dict(max_line_size=rng.choice([0,1,10,50,8190]), max_field_size=rng.choice([0,1,10,50,8190]), max_headers=rng.choice([0,1,2,3,5,128]), limit=rng.choice([0,1,16,2**16]))
        if not isreq:
            kw.update(read_until_eof=rng.random()<0.7, method=rng.choice([None,"GET","HEAD"]), response_with_body=rng.random()<0.8, auto_decompress=rng.random()<0.8)
            from aiohttp.client_exceptions import ClientPayloadError
            if rng.random()<0.5: kw["payload_exception"]=ClientPayloadError
        kw0 = dict(kw)
        e = run_one(loop, cls, data, cuts, kw)
        if e is not None:
            tb = traceback.extract_tb(e.__traceback__)[-1]
            key = (type(e).__name__, tb.filename.split("/")[-1], tb.lineno, str(e)[:60])
            found[key] += 1
            examples.setdefault(key, (cls.__name__, data, cuts, kw0))
    for k, v in found.most_common():
        print(v, k)
        print("   ", repr(examples[k])[:1500])
asyncio.run(main())
