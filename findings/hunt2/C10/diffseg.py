import asyncio, sys, random
src = open("/tmp/wh/C10/_hunt/fuzz.py").read().split("async def main")[0]
ns = {}; exec(src, ns)
P, T = ns["P"], ns["T"]
from aiohttp.http_exceptions import HttpProcessingError
def run(loop, cls, data, cuts, limit, kw):
    proto = P(loop); proto.transport = T()
    p = cls(proto, loop, limit, **kw); proto._parser = p
    out = {}
    def drain():
        while True:
            prog = False
            for i, (m, pl) in enumerate(proto.msgs):
                while getattr(pl, "_buffer", None):
                    if pl.exception() is not None: pl._buffer.clear(); break
                    out[i] = out.get(i, b"") + pl.read_nowait(); prog = True
            if not prog: break
    last = 0
    for c in list(cuts) + [len(data)]:
        proto.data_received(data[last:c]); last = c
        drain()
        if proto.exc is not None: break
    res = []
    for i, (m, pl) in enumerate(proto.msgs):
        res.append((m[:3] if hasattr(m, "code") else (m.method, m.path), out.get(i, b""), pl.is_eof(), repr(pl.exception())))
    return (res, type(proto.exc).__name__ if proto.exc else None, proto.up, proto._reading_paused)
async def main():
    loop = asyncio.get_running_loop()
    rng = random.Random(int(sys.argv[1]))
    bad = 0
    for isreq, seeds, cls in ((1, ns["REQ_SEEDS"], ns["HttpRequestParserPy"]), (0, ns["RESP_SEEDS"], ns["HttpResponseParserPy"])):
        for s in seeds:
            kw = {} if isreq else dict(read_until_eof=False)
            ref = run(loop, cls, s, [], 2**20, dict(kw))
            for it in range(150):
                n = rng.choice([1, 2, 3, 10, len(s)])
                cuts = sorted(set(rng.randrange(1, len(s)) for _ in range(n)))
                limit = rng.choice([1, 2, 7, 16, 64, 1000, 2**16])
                got = run(loop, cls, s, cuts, limit, dict(kw))
                if got != ref:
                    bad += 1
                    if bad < 6:
                        print("DIFF", s[:70], "cuts", cuts[:10], "limit", limit)
                        print("  ref", repr(ref)[:300]); print("  got", repr(got)[:300])
                    break
    print("bad", bad)
asyncio.run(main())
