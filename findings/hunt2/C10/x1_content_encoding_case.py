"""(extra, outside the 4 findings) Content-Encoding is matched case-insensitively
but handed on in its original case: "Content-Encoding: GZIP" selects the zlib
(deflate) decoder and a valid gzip body is rejected as a protocol error."""
import asyncio, gzip, sys
import aiohttp
from aiohttp.base_protocol import BaseProtocol
from aiohttp.http_parser import HttpRequestParserPy
print(aiohttp.__file__)
async def main():
    loop = asyncio.get_running_loop()
    body = gzip.compress(b"hello world")
    bad = []
    for token in (b"gzip", b"GZIP", b"Gzip"):
        proto = BaseProtocol(loop)
        p = HttpRequestParserPy(proto, loop, 2**16); proto._parser = p
        msgs, _, _ = p.feed_data(b"POST / HTTP/1.1\r\nHost: a\r\nContent-Encoding: " + token + b"\r\nContent-Length: %d\r\n\r\n" % len(body) + body)
        pl = msgs[0][1]
        print(token, "->", pl.exception() or pl.read_nowait())
        if pl.exception() is not None: bad.append(token)
    if bad:
        print("VIOLATION: valid message rejected for", bad); sys.exit(1)
asyncio.run(main())
