import asyncio, random, sys, collections, traceback, logging, io, re
import aiohttp
from aiohttp import web
print(aiohttp.__file__)
src = open("/tmp/wh/C10/_hunt/fuzz.py").read().split("def run_one")[0].replace("print(aiohttp.__file__)", "")
ns = {}; exec(src, ns)
REQ_SEEDS, mutate = ns["REQ_SEEDS"], ns["mutate"]
logbuf = io.StringIO()
h = logging.StreamHandler(logbuf)
for n in ("aiohttp.server", "aiohttp.web", "aiohttp.internal", "asyncio"):
    logging.getLogger(n).addHandler(h)

async def handler(request):
    request.url; request.host; request.rel_url; request.path; request.query; request.cookies; request.content_type; request.charset; request.if_modified_since; request.http_range if 'Range' in request.headers else None; request.forwarded; request.scheme; request.remote; request.content_length; request.keep_alive
    try:
        body = await request.read()
    except web.HTTPException:
        raise
    except aiohttp.web_protocol.RequestPayloadError as e:
        return web.Response(status=418, text="payload error")
    return web.Response(text="ok")

async def main():
    seed = int(sys.argv[1]); N = int(sys.argv[2])
    rng = random.Random(seed)
    app = web.Application()
    app.router.add_route("*", "/{tail:.*}", handler)
    runner = web.AppRunner(app, keepalive_timeout=0.05, lingering_time=0.05)
    await runner.setup()
    site = web.TCPSite(runner, "127.0.0.1", 0); await site.start()
    port = site._server.sockets[0].getsockname()[1]
    found = collections.Counter(); ex = {}
    for i in range(N):
        data = rng.choice(REQ_SEEDS)
        if rng.random() < 0.3: data += rng.choice(REQ_SEEDS)
        data = mutate(rng, data)
        ncut = rng.choice([0, 0, 1, 2])
        cuts = sorted(rng.randrange(len(data)+1) for _ in range(ncut)) if data else []
        logbuf.seek(0); logbuf.truncate()
        r, w = await asyncio.open_connection("127.0.0.1", port)
        last = 0
        try:
            for c in cuts + [len(data)]:
                w.write(data[last:c]); last = c
                await w.drain()
                if cuts: await asyncio.sleep(0.003)
            try:
                w.write_eof()
            except OSError:
                pass
            try:
                out = await asyncio.wait_for(r.read(), 2)
            except asyncio.TimeoutError:
                out = b"<TIMEOUT>"
        except OSError:
            out = b"<RESET>"
        w.close()
        lg = logbuf.getvalue()
        key = None
        statuses = re.findall(rb"HTTP/1\.[01] (\d\d\d)", out)
        if out == b"<TIMEOUT>": key = ("TIMEOUT",)
        elif b"500" in statuses: key = ("500", lg.strip().splitlines()[-1][:100] if lg.strip() else "")
        elif "Traceback" in lg:
            last_line = lg.strip().splitlines()[-1]
            if "RequestPayloadError" in last_line or "PayloadAccessError" in last_line:
                key = None
            else:
                key = ("LOGGED", last_line[:120])
        elif not statuses and data.strip(b"\r\n") and b"\n" in data:
            key = ("NORESP",)
        if key:
            found[key] += 1; ex.setdefault(key, (data, cuts, out[:200], lg[-600:]))
    await runner.cleanup()
    for k, v in found.most_common():
        print(v, k); print("   ", ex[k][:3]); print("   LOG:", ex[k][3])
asyncio.run(main())
