import asyncio, sys, logging, io
import aiohttp
from aiohttp import web
print(aiohttp.__file__)

logbuf = io.StringIO()
h = logging.StreamHandler(logbuf)
logging.getLogger("aiohttp").addHandler(h)
logging.getLogger("aiohttp").setLevel(logging.DEBUG)
logging.getLogger("asyncio").addHandler(h)

async def handler(request):
    try:
        body = await request.read()
    except Exception as e:
        return web.Response(status=418, text=f"body error {type(e).__name__}: {e!r}")
    return web.Response(text=f"ok {request.method} {request.path_qs} {len(body)}")

async def send(port, segs, delay=0.05, timeout=2):
    r, w = await asyncio.open_connection("127.0.0.1", port)
    for s in segs:
        w.write(s); await w.drain(); await asyncio.sleep(delay)
    try:
        data = await asyncio.wait_for(r.read(65536), timeout)
        await asyncio.sleep(0.1)
        try:
            data += await asyncio.wait_for(r.read(65536), 0.3)
        except asyncio.TimeoutError: pass
    except asyncio.TimeoutError:
        data = b"<TIMEOUT>"
    w.close()
    return data

async def main():
    app = web.Application()
    app.router.add_route("*", "/{tail:.*}", handler)
    runner = web.AppRunner(app)
    await runner.setup()
    site = web.TCPSite(runner, "127.0.0.1", 0)
    await site.start()
    port = site._server.sockets[0].getsockname()[1]
    cases = eval(open(sys.argv[1]).read())
    for name, segs in cases:
        logbuf.seek(0); logbuf.truncate()
        data = await send(port, segs)
        print("==", name)
        print("  resp:", data[:300])
        lg = logbuf.getvalue()
        if lg.strip():
            print("  log:", lg.strip()[-1500:])
    await runner.cleanup()
asyncio.run(main())
