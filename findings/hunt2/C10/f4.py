"""An invalid Host header value is accepted by the parser; request.url then raises
ValueError / UnicodeError inside the handler and the client gets a 500.

RFC 9112 section 3.2: "A server MUST respond with a 400 (Bad Request) status code to
any HTTP/1.1 request message that ... contains a Host header field with an
invalid field value."  The request parser checks that Host is present and not
duplicated but never looks at its value, so "Host: a:b", "Host: [::1" or a
non-ASCII host reach BaseRequest.  BaseRequest.url builds
URL.build(scheme=..., authority=self.host) lazily; yarl raises ValueError and the
handler (any handler or middleware that touches request.url) dies with 500 and
an ERROR-level traceback - the same class of defect as the request-target
ValueError this property was written for, one header further down.
"""
import asyncio
import io
import logging
import sys

import aiohttp
from aiohttp import web

print(aiohttp.__file__)
logbuf = io.StringIO()
logging.getLogger("aiohttp").addHandler(logging.StreamHandler(logbuf))


async def handler(request):
    # what every absolute-link builder / logging middleware does
    return web.Response(text=f"you asked for {request.url}")


async def talk(port, data):
    r, w = await asyncio.open_connection("127.0.0.1", port)
    w.write(data)
    await w.drain()
    try:
        out = await asyncio.wait_for(r.read(4096), 3)
    except asyncio.TimeoutError:
        out = b"<timeout>"
    w.close()
    return out


async def main():
    app = web.Application()
    app.router.add_get("/", handler)
    runner = web.AppRunner(app)
    await runner.setup()
    site = web.TCPSite(runner, "127.0.0.1", 0)
    await site.start()
    port = site._server.sockets[0].getsockname()[1]

    failures = []
    ok = await talk(port, b"GET / HTTP/1.1\r\nHost: example.com:8080\r\n\r\n")
    print("Host: example.com:8080 ->", ok.split(b"\r\n")[0])
    for host in (b"a:b", b"a:99999999", b"ex\xc2\xadample.com", b"[::1]x", b"http://[::1"):
        logbuf.seek(0)
        logbuf.truncate()
        out = await talk(port, b"GET / HTTP/1.1\r\nHost: " + host + b"\r\n\r\n")
        first = out.split(b"\r\n")[0]
        log = logbuf.getvalue().strip().splitlines()
        print(f"Host: {host!r:24} -> {first}   [{log[-1] if log else ''}]")
        if b" 500 " in out[:16]:
            failures.append(f"Host: {host!r}: expected 400, got {first!r} ({log[-1] if log else ''})")
    await runner.cleanup()
    if failures:
        print("\nVIOLATION: malformed request answered with 500 (ValueError from URL parsing) instead of 400")
        for f in failures:
            print("  -", f)
        sys.exit(1)
    print("ok")


asyncio.run(main())
