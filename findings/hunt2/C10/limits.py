import asyncio, sys, itertools
import aiohttp
from aiohttp.http_parser import HttpRequestParserPy, HttpResponseParserPy
from aiohttp.http_exceptions import HttpProcessingError, LineTooLong
from aiohttp.base_protocol import BaseProtocol
print(aiohttp.__file__)
class P(BaseProtocol):
    def data_received(self, d): pass

def verdict(loop, cls, segs, **kw):
    proto = P(loop)
    p = cls(proto, loop, 2**16, **kw); proto._parser = p
    n = 0
    pls = []
    try:
        for s in segs:
            msgs, up, tail = p.feed_data(s)
            n += len(msgs)
            pls += [pl for m, pl in msgs]
    except HttpProcessingError as e:
        return ("ERR", type(e).__name__)
    except Exception as e:
        return ("EXC", type(e).__name__, str(e))
    eof = all(pl.is_eof() for pl in pls)
    return ("OK", n, eof)

def build(kind, L, nl, isreq):
    # returns (prefix, line(without ending), suffix) where line length is L
    if isreq:
        head = b"POST /p HTTP/1.1" + nl + b"Host: a" + nl
    else:
        head = b"HTTP/1.1 200 OK" + nl
    te = b"Transfer-Encoding: chunked" + nl + nl
    if kind == "start":
        if isreq:
            base = b"GET / HTTP/1.1"
            line = b"GET /" + b"a" * (L - len(base)) + b" HTTP/1.1"
            return b"", line, nl + b"Host: a" + nl + nl
        else:
            base = b"HTTP/1.1 200 "
            line = base + b"a" * (L - len(base))
            return b"", line, nl + b"Content-Length: 0" + nl + nl
    if kind == "field":
        line = b"X: " + b"a" * (L - 3)
        return head, line, nl + (b"Content-Length: 0" + nl if not isreq else b"") + nl
    if kind == "field_ws":   # trailing whitespace inside the limit?
        line = b"X: " + b"a" * (L - 4) + b" "
        return head, line, nl + (b"Content-Length: 0" + nl if not isreq else b"") + nl
    if kind == "chunksize":
        line = b"0" * (L - 1) + b"5"
        return head + te, line, nl + b"hello" + nl + b"0" + nl + nl
    if kind == "chunkext":
        line = b"5;" + b"a" * (L - 2)
        return head + te, line, nl + b"hello" + nl + b"0" + nl + nl
    if kind == "lastchunkext":
        line = b"0;" + b"a" * (L - 2)
        return head + te + b"5" + nl + b"hello" + nl, line, nl + nl
    if kind == "trailer":
        line = b"X: " + b"a" * (L - 3)
        return head + te + b"5" + nl + b"hello" + nl + b"0" + nl, line, nl + nl
    raise AssertionError

async def main():
    loop = asyncio.get_running_loop()
    bad = 0
    for isreq, cls, nls in ((True, HttpRequestParserPy, [b"\r\n"]), (False, HttpResponseParserPy, [b"\r\n", b"\n"])):
        for nl in nls:
            for kind in ("start", "field", "field_ws", "chunksize", "chunkext", "lastchunkext", "trailer"):
                for ml, mf in ((40, 60), (60, 40), (40, 40)):
                    lim = ml if kind in ("start", "chunksize", "chunkext", "lastchunkext") else mf
                    for L in (lim - 1, lim, lim + 1):
                        pre, line, suf = build(kind, L, nl, isreq)
                        assert len(line) == L, (kind, L, len(line))
                        data = pre + line + suf
                        expect_ok = L <= lim
                        res = {}
                        # all single cuts and some double cuts around the line
                        cutsets = [()] + [(c,) for c in range(1, len(data))]
                        a = len(pre); b = len(pre) + len(line)
                        for c1 in range(max(1, a - 2), min(len(data), b + 4)):
                            for c2 in range(c1 + 1, min(len(data), b + 5)):
                                cutsets.append((c1, c2))
                        cutsets.append(tuple(range(1, len(data))))
                        for cs in cutsets:
                            segs = []; last = 0
                            for c in cs + (len(data),):
                                segs.append(data[last:c]); last = c
                            v = verdict(loop, cls, segs, max_line_size=ml, max_field_size=mf)
                            res.setdefault(v, []).append(cs)
                        ok_v = [v for v in res if v[0] == "OK"]
                        problem = None
                        if len(res) > 1: problem = "segmentation-dependent"
                        elif expect_ok and not ok_v: problem = "rejected within limit"
                        elif not expect_ok and ok_v: problem = "accepted over limit"
                        if any(v[0] == "EXC" for v in res): problem = "other exception"
                        if problem:
                            bad += 1
                            print(problem, "req" if isreq else "resp", nl, kind, "limits", ml, mf, "L", L, {v: (len(c), c[:3]) for v, c in res.items()})
    print("bad", bad)
asyncio.run(main())
