import asyncio, random, sys, collections, traceback
sys.argv_saved = sys.argv
import aiohttp
print(aiohttp.__file__)
sys.path.insert(0, "/tmp/wh/C10/_hunt")
import importlib.util
src = open("/tmp/wh/C10/_hunt/fuzz.py").read().split("def run_one")[0]
src = src.replace("print(aiohttp.__file__)", "")
ns = {}
exec(src, ns)
RESP_SEEDS, mutate = ns["RESP_SEEDS"], ns["mutate"]

current = {}
async def serve(r, w):
    try:
        await r.readuntil(b"\r\n\r\n")
        data, cuts = current["data"], current["cuts"]
        last = 0
        for c in cuts + [len(data)]:
            w.write(data[last:c]); last = c
            await w.drain()
            if len(cuts) : await asyncio.sleep(0.002)
        w.close()
    except Exception:
        w.close()

async def main():
    seed = int(sys.argv[1]); N = int(sys.argv[2])
    rng = random.Random(seed)
    srv = await asyncio.start_server(serve, "127.0.0.1", 0)
    port = srv.sockets[0].getsockname()[1]
    found = collections.Counter(); ex = {}
    for i in range(N):
        data = rng.choice(RESP_SEEDS)
        if rng.random() < 0.3: data += rng.choice(RESP_SEEDS)
        data = mutate(rng, data)
        ncut = rng.choice([0, 0, 1, 2])
        cuts = sorted(rng.randrange(len(data)+1) for _ in range(ncut)) if data else []
        current["data"] = data; current["cuts"] = cuts
        method = rng.choice(["GET", "HEAD", "POST"])
        try:
            async with aiohttp.ClientSession(timeout=aiohttp.ClientTimeout(total=3)) as s:
                async with s.request(method, f"http://127.0.0.1:{port}/", allow_redirects=False) as resp:
                    await resp.read()
        except aiohttp.ClientError:
            pass
        except asyncio.TimeoutError as e:
            key = ("TIMEOUT",)
            found[key] += 1; ex.setdefault(key, (method, data, cuts))
        except Exception as e:
            tb = traceback.extract_tb(e.__traceback__)[-1]
            key = (type(e).__name__, tb.filename.split("/")[-1], tb.lineno, str(e)[:80])
            found[key] += 1; ex.setdefault(key, (method, data, cuts))
    for k, v in found.most_common():
        print(v, k); print("   ", ex[k])
asyncio.run(main())
