"""Chunked-body parsing is quadratic in the size of one feed_data() call.

HttpPayloadParser.feed_data() re-slices the remaining input after every
chunk-size line, every chunk and every chunk CRLF (chunk = chunk[pos + 2:],
chunk = chunk[required:], chunk = chunk[len(SEP):]).  With one-byte chunks
("1\r\na\r\n" repeated) each of the N chunks copies the whole remainder, so one
call costs O(N**2) byte copies.  The head parser avoids this with start_pos.

The consumer below drains the StreamReader whenever the parser pauses (as a
handler doing `await request.read()` would), so the cost measured is parsing
only.  Feeding the *same bytes* in 4 KiB reads is linear and serves as control.
"""
import asyncio
import sys
import time

import aiohttp
from aiohttp.base_protocol import BaseProtocol
from aiohttp.http_parser import HttpRequestParserPy

print(aiohttp.__file__)
HEAD = b"POST / HTTP/1.1\r\nHost: a\r\nTransfer-Encoding: chunked\r\n\r\n"


class Proto(BaseProtocol):
    """Minimal protocol: resume_reading() re-enters the parser like the real ones."""

    def data_received(self, data):
        self.msgs += self._parser.feed_data(data)[0]


class Transport:
    def pause_reading(self):
        pass

    def resume_reading(self):
        pass


def run(loop, n_chunks, seg):
    proto = Proto(loop)
    proto.msgs = []
    proto.transport = Transport()
    proto._parser = HttpRequestParserPy(proto, loop, 2**16)
    body = b"1\r\na\r\n" * n_chunks + b"0\r\n\r\n"
    proto.data_received(HEAD)
    payload = proto.msgs[0][1]
    got = 0
    t0 = time.perf_counter()
    for i in range(0, len(body), seg):
        proto.data_received(body[i : i + seg])
        while payload._buffer:  # reading resumes the parser when it was paused
            got += len(payload.read_nowait())
    dt = time.perf_counter() - t0
    assert got == n_chunks and payload.is_eof(), (got, payload.is_eof())
    return dt, len(body)


async def main():
    loop = asyncio.get_running_loop()
    rows = []
    for n in (20_000, 40_000, 80_000, 160_000):
        one, size = run(loop, n, 1 << 30)  # whole body in one feed_data() call
        seg, _ = run(loop, n, 4096)  # same bytes, 4 KiB reads
        rows.append((n, size, one, seg))
        print(f"{n:>7} chunks {size/1024:>7.0f} KiB   one call: {one:7.3f}s   4 KiB reads: {seg:6.3f}s   ratio {one/seg:5.1f}x")
    growth_one = rows[-1][2] / rows[0][2]
    growth_seg = rows[-1][3] / rows[0][3]
    print(f"input grew 8x: one-call time grew {growth_one:.1f}x, segmented time grew {growth_seg:.1f}x")
    # a 256 KiB read is what a selector transport delivers in one data_received()
    t256, _ = run(loop, 256 * 1024 // 6, 1 << 30)
    print(f"one 256 KiB read of 1-byte chunks blocks the loop for {t256:.2f}s")
    if growth_one > 20 and growth_one > 2.5 * growth_seg:
        print("\nVIOLATION: work is super-linear (quadratic) in the length of the fed byte sequence")
        sys.exit(1)
    print("ok")


asyncio.run(main())
