import asyncio, sys
src = open("/tmp/wh/C10/_hunt/fuzz.py").read().split("async def main")[0]
ns = {}; exec(src, ns)
async def main():
    loop = asyncio.get_running_loop()
    for isreq, seeds, cls in ((1, ns["REQ_SEEDS"], ns["HttpRequestParserPy"]), (0, ns["RESP_SEEDS"], ns["HttpResponseParserPy"])):
        for s in seeds:
            for limit in (16, 2**16):
                proto = ns["P"](loop); proto.transport = ns["T"]()
                kw = {} if isreq else dict(read_until_eof=True)
                p = cls(proto, loop, limit, **kw); proto._parser = p
                total = 0; pls = []
                try:
                    for i in range(0, len(s), 50):
                        msgs, up, tail = p.feed_data(s[i:i+50])
                        pls += [pl for m, pl in msgs]
                        g = 0
                        while True:
                            for pl in pls:
                                while getattr(pl, "_buffer", None): total += len(pl.read_nowait())
                            if not proto._reading_paused: break
                            proto._reading_paused = False
                            p.feed_data(b""); g += 1
                    p.feed_eof()
                    for pl in pls:
                        while getattr(pl, "_buffer", None): total += len(pl.read_nowait())
                    print(isreq, limit, s[:60], "msgs", len(pls), "bytes", total, [pl.exception() for pl in pls], [pl.is_eof() for pl in pls])
                except Exception as e:
                    print(isreq, limit, s[:60], "EXC", repr(e))
asyncio.run(main())
