"""A chunk-size line with a non-ASCII byte: the server answers nothing at all.

The pure-Python parser raises TransferEncodingError whose message is the
offending line decoded with surrogateescape (not repr()'d like every other
parser error).  web_protocol turns the parser error into
HTTPBadRequest(text=exc.message); building that response encodes the text as
UTF-8, which fails on the lone surrogate -> UnicodeEncodeError escapes
_handle_request, start() logs "Unhandled exception" and drops the connection.
Expected by the property: an HTTP protocol error becomes a 400 response.
"""
import asyncio
import io
import logging
import sys

import aiohttp
from aiohttp import web

print(aiohttp.__file__)
logbuf = io.StringIO()
logging.getLogger("aiohttp").addHandler(logging.StreamHandler(logbuf))

HEAD = b"POST / HTTP/1.1\r\nHost: a\r\nTransfer-Encoding: chunked\r\n\r\n"


async def handler(request):
    await request.read()
    return web.Response(text="ok")


async def talk(port, data):
    r, w = await asyncio.open_connection("127.0.0.1", port)
    w.write(data)
    await w.drain()
    try:
        out = await asyncio.wait_for(r.read(), 3)
    except asyncio.TimeoutError:
        out = b"<no answer, connection still open>"
    w.close()
    return out


async def main():
    app = web.Application()
    app.router.add_route("*", "/", handler)
    runner = web.AppRunner(app)
    await runner.setup()
    site = web.TCPSite(runner, "127.0.0.1", 0)
    await site.start()
    port = site._server.sockets[0].getsockname()[1]

    failures = []
    # control: the same defect with an ASCII-only line gives a proper 400
    ctl = await talk(port, HEAD + b"zz\r\n")
    print("control  'zz'   ->", ctl.split(b"\r\n")[0])
    if b" 400 " not in ctl[:16]:
        failures.append("control case did not give 400")

    for bad in (b"\xff\r\n", b"5\xe9\r\nhello\r\n0\r\n\r\n", b"1;\r\n".replace(b"1", b"\x80")):
        logbuf.seek(0)
        logbuf.truncate()
        out = await talk(port, HEAD + bad)
        first = out.split(b"\r\n")[0]
        print(f"chunk-size line {bad[:6]!r:22} ->", first or b"<connection closed without any response>")
        log = logbuf.getvalue()
        if b" 400 " not in out[:16]:
            last = log.strip().splitlines()[-1] if log.strip() else ""
            failures.append(f"{bad!r}: no 400 response (got {out[:40]!r}); server log ends with: {last}")
    await runner.cleanup()
    if failures:
        print("\nVIOLATION: parser error was not turned into a 400 response")
        for f in failures:
            print("  -", f)
        sys.exit(1)
    print("ok")


asyncio.run(main())
