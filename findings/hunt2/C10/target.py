import asyncio, random, sys, collections, traceback
import aiohttp
from aiohttp.http_parser import HttpRequestParserPy
from aiohttp.http_exceptions import HttpProcessingError
from aiohttp.base_protocol import BaseProtocol
from aiohttp.test_utils import make_mocked_request
from aiohttp.web_request import BaseRequest
from unittest import mock
print(aiohttp.__file__)
TOK = ["http", "https", "ws", "x", ":", "/", "//", "///", "@", "[", "]", "::1", "[::1]", "[v1.x]", "%", "%41", "%zz", "%2F", "?", "#", "a", "example.com", ":80", ":0", ":65536", ":99999999999999999999", ":-1", ":x", ".", "..", "\xad", "℀", "\xdf", "xn--", "xn--a", "*", ";", "=", "&", "+", " ", "\\", "\x7f", "\x80", "\xff", "é", "%C3%A9", "0x7f.1", "1.2.3.4", "１", "%00", "[::1%25eth0]", "[::1%eth0]", "a" * 64, "." * 3, "a." * 130]
class P(BaseProtocol):
    def data_received(self, d): pass
async def main():
    loop = asyncio.get_running_loop()
    rng = random.Random(int(sys.argv[1])); N = int(sys.argv[2])
    found = collections.Counter(); ex = {}
    for i in range(N):
        method = rng.choice(["GET", "CONNECT", "OPTIONS", "POST"])
        target = "".join(rng.choice(TOK) for _ in range(rng.randint(1, 7)))
        if rng.random() < 0.4: target = rng.choice(["http://", "/", "//", "http://a", "https://[", "http://a:"]) + target
        if " " in target and rng.random() < 0.9: target = target.replace(" ", "")
        hostv = rng.choice(["a", "a:80", "", target]) 
        try:
            tb = target.encode("utf-8") if rng.random() < 0.5 else target.encode("latin1", "replace")
            hb = hostv.encode("utf-8")
        except Exception:
            continue
        data = method.encode() + b" " + tb + b" HTTP/1.1\r\nHost: " + hb + b"\r\n\r\n"
        proto = P(loop); p = HttpRequestParserPy(proto, loop, 2**16); proto._parser = p
        try:
            msgs, up, tail = p.feed_data(data)
        except HttpProcessingError:
            continue
        except Exception as e:
            key = ("PARSER", type(e).__name__, str(e)[:60]); found[key] += 1; ex.setdefault(key, data); continue
        for m, pl in msgs:
            stage = "init"
            try:
                protocol = mock.Mock(); protocol.ssl_context = None; protocol.peername = ("1.2.3.4", 5); protocol.sockname = ("1.2.3.4", 80)
                req = BaseRequest(m, pl, protocol, mock.Mock(), mock.Mock(), loop)
                for stage in ("rel_url", "path", "path_qs", "raw_path", "query", "query_string", "host", "scheme", "url"):
                    getattr(req, stage)
            except Exception as e:
                key = (stage, type(e).__name__, str(e)[:60]); found[key] += 1; ex.setdefault(key, data)
    for k, v in found.most_common():
        print(v, k); print("    ", ex[k])
asyncio.run(main())
