"""C06 / f3: a request that itself carries `Connection: close` does not stop the client
from pooling and reusing the connection.

RFC 9112 9.6: "A client that sends a "close" connection option MUST NOT send further
requests on that connection".  aiohttp decides only from the *response* headers; a peer
that honours the request without echoing `Connection: close` (allowed: the echo is a
SHOULD) closes after the response, and the next request - here a non-idempotent POST that
is never retried - is written into the connection that is being closed and is lost with
ServerDisconnectedError.

Run:  cd <worktree> && PYTHONPATH=<worktree> /venv/bin/python _hunt/f3.py   (exit 1 = bug)
"""
import asyncio
import sys

import aiohttp

print("aiohttp from", aiohttp.__file__)


async def main() -> int:
    per_conn = []

    async def handler(r: asyncio.StreamReader, w: asyncio.StreamWriter) -> None:
        seen = []
        per_conn.append(seen)
        try:
            while True:
                head = await r.readuntil(b"\r\n\r\n")
                seen.append(head.split(b"\r\n")[0].decode())
                if b"content-length: 1\r\n" in head.lower():
                    await r.readexactly(1)
                w.write(b"HTTP/1.1 200 OK\r\nContent-Length: 2\r\n\r\nok")
                await w.drain()
                if b"\r\nconnection: close\r\n" in head.lower():
                    # the client asked for it: lingering close, as real servers do
                    await asyncio.sleep(0.2)
                    return
        except (asyncio.IncompleteReadError, ConnectionError):
            pass
        finally:
            w.close()

    srv = await asyncio.start_server(handler, "127.0.0.1", 0)
    port = srv.sockets[0].getsockname()[1]
    failed = False
    async with aiohttp.ClientSession() as s:
        async with s.get(
            f"http://127.0.0.1:{port}/last", headers={"Connection": "close"}
        ) as r:
            assert await r.read() == b"ok"
        pooled = sum(len(q) for q in s.connector._conns.values())
        print("connections pooled after the `Connection: close` exchange:", pooled)
        try:
            async with s.post(f"http://127.0.0.1:{port}/order", data=b"x") as r:
                print("POST ->", r.status, await r.read())
        except aiohttp.ClientError as exc:
            print("BUG: POST sent on the connection the client itself declared closed:",
                  repr(exc))
            failed = True
    print("requests seen per TCP connection:", per_conn)
    if any(len(c) > 1 and "GET /last HTTP/1.1" in c[:-1] for c in per_conn):
        failed = True
    srv.close()
    await srv.wait_closed()
    return 1 if failed else 0


sys.exit(asyncio.run(main()))
