"""C06 / f4 (low severity, needs a caller that declares the wrong length): a request body
shorter than its Content-Length leaves an unfinished message on the connection, yet the
connection is pooled; the next request on the session is swallowed by the peer as the
missing body bytes of the previous one (client-side request smuggling primitive).

write_with_length() enforces the declared length only as an upper bound (a longer body
is truncated); nothing notices a shorter one.  Any server that answers before it has read
the whole body (auth failure, 413, redirect, ...) triggers it.

Run:  cd <worktree> && PYTHONPATH=<worktree> /venv/bin/python _hunt/f4.py   (exit 1 = bug)
"""
import asyncio
import sys

import aiohttp

print("aiohttp from", aiohttp.__file__)


async def main() -> int:
    requests_seen = []

    async def handler(r: asyncio.StreamReader, w: asyncio.StreamWriter) -> None:
        try:
            while True:
                head = await r.readuntil(b"\r\n\r\n")
                line = head.split(b"\r\n")[0].decode()
                length = 0
                for h in head.split(b"\r\n")[1:]:
                    if h.lower().startswith(b"content-length:"):
                        length = int(h.split(b":")[1])
                # answer from the head alone (e.g. an authorisation failure) ...
                w.write(b"HTTP/1.1 403 Forbidden\r\nContent-Length: 2\r\n\r\nno")
                await w.drain()
                # ... then skip the declared body to stay in sync, as servers do
                body = await r.readexactly(length)
                requests_seen.append((line, body))
        except (asyncio.IncompleteReadError, ConnectionError):
            pass
        finally:
            w.close()

    srv = await asyncio.start_server(handler, "127.0.0.1", 0)
    port = srv.sockets[0].getsockname()[1]

    async def short_body():
        yield b"abc"  # 3 bytes, 60 declared

    failed = False
    async with aiohttp.ClientSession() as s:
        async with s.post(
            f"http://127.0.0.1:{port}/upload",
            data=short_body(),
            headers={"Content-Length": "60"},
        ) as r:
            print("POST ->", r.status, await r.read())
        pooled = sum(len(q) for q in s.connector._conns.values())
        print("connections pooled with an unfinished request on them:", pooled)
        try:
            async with s.get(
                f"http://127.0.0.1:{port}/next", timeout=aiohttp.ClientTimeout(total=2)
            ) as r:
                print("GET ->", r.status, await r.read())
        except (aiohttp.ClientError, asyncio.TimeoutError) as exc:
            print("GET raised", repr(exc))
            failed = True
    print("requests as the server saw them:")
    for line, body in requests_seen:
        print("   ", line, "body =", body[:70])
        if b"GET /next" in body:
            failed = True
    if not any(line.startswith("GET /next") for line, _ in requests_seen):
        failed = True
    if failed:
        print("BUG: the second request was consumed as body bytes of the first one")
    srv.close()
    await srv.wait_closed()
    return 1 if failed else 0


sys.exit(asyncio.run(main()))
