"""C06 / f1: a non-101 response carrying `Connection: Upgrade` + `Upgrade: websocket`
(e.g. the canonical `426 Upgrade Required`) switches the client connection into
"upgraded" mode.  When the body ends in a later read than the head, the connection is
released to the pool *before* the protocol learns about the "upgrade", so an upgraded
connection is pooled and reused: every byte the server sends for the next request is
parked in ResponseHandler._tail and the request hangs until a timeout.

Run:  cd <worktree> && PYTHONPATH=<worktree> /venv/bin/python _hunt/f1.py   (exit 1 = bug)
"""
import asyncio
import sys

import aiohttp

print("aiohttp from", aiohttp.__file__)

BODY = b"This endpoint only speaks WebSocket\n"


async def main() -> int:
    accepted = 0
    served = []

    async def handler(r: asyncio.StreamReader, w: asyncio.StreamWriter) -> None:
        nonlocal accepted
        accepted += 1
        n = 0
        try:
            while True:
                head = await r.readuntil(b"\r\n\r\n")
                n += 1
                served.append(head.split(b"\r\n")[0].decode())
                if n == 1:
                    # plain GET on a websocket endpoint: RFC 9110 15.5.22 style answer,
                    # keep-alive, body flushed a little later than the head
                    w.write(
                        b"HTTP/1.1 426 Upgrade Required\r\n"
                        b"Upgrade: websocket\r\n"
                        b"Connection: Upgrade\r\n"
                        b"Content-Type: text/plain\r\n"
                        b"Content-Length: %d\r\n\r\n" % len(BODY)
                    )
                    await w.drain()
                    await asyncio.sleep(0.05)
                    w.write(BODY)
                    await w.drain()
                else:
                    w.write(b"HTTP/1.1 200 OK\r\nContent-Length: 6\r\n\r\nsecond")
                    await w.drain()
        except (asyncio.IncompleteReadError, ConnectionError):
            pass
        finally:
            w.close()

    srv = await asyncio.start_server(handler, "127.0.0.1", 0)
    port = srv.sockets[0].getsockname()[1]
    failed = False
    async with aiohttp.ClientSession() as s:
        async with s.get(f"http://127.0.0.1:{port}/ws-endpoint") as r:
            body = await r.read()
        print("1st response:", r.status, body)
        assert r.status == 426 and body == BODY

        pooled = [p for q in s.connector._conns.values() for p, _ in q]
        print("pooled connections:", len(pooled),
              "upgraded flags:", [p.upgraded for p in pooled],
              "should_close:", [p.should_close for p in pooled])

        try:
            async def second() -> bytes:
                async with s.get(f"http://127.0.0.1:{port}/plain") as r2:
                    return await r2.read()

            got = await asyncio.wait_for(second(), 3)
            print("2nd response:", got)
            if got != b"second":
                failed = True
        except asyncio.TimeoutError:
            print("BUG: 2nd request got no response within 3s although the server "
                  "answered it at once (requests seen by server: %r, TCP connections: %d)"
                  % (served, accepted))
            failed = True
    srv.close()
    await srv.wait_closed()
    return 1 if failed else 0


sys.exit(asyncio.run(main()))
