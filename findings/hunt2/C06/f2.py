"""C06 / f2: bytes that follow the end of a response IN THE SAME READ as the last body
bytes are delivered as the answer to the next request.

The connection is released to the pool from inside HttpParser.feed_data() (payload
feed_eof -> ClientResponse._response_eof -> Connection.release -> connector._release),
i.e. before the parser has looked at the rest of that read.  should_close is evaluated at
that instant (nothing buffered yet -> False), the connection is pooled, and only then the
surplus is parsed: a complete surplus response is queued in the protocol's DataQueue and
handed to the next request (variant 1); a partial surplus head stays in the old parser,
is thrown away with it on reuse, and its remainder corrupts the next response (variant 2).
Nothing arrives while the connection idles in the pool - this is not the "unsolicited
response while idle" history.

Run:  cd <worktree> && PYTHONPATH=<worktree> /venv/bin/python _hunt/f2.py   (exit 1 = bug)
"""
import asyncio
import sys

import aiohttp

print("aiohttp from", aiohttp.__file__)


async def run_variant(name: str, surplus_now: bytes, surplus_later: bytes) -> bool:
    accepted = 0

    async def handler(r: asyncio.StreamReader, w: asyncio.StreamWriter) -> None:
        nonlocal accepted
        accepted += 1
        rest = b""  # remainder of the stale message, sent on this connection only
        try:
            while True:
                head = await r.readuntil(b"\r\n\r\n")
                path = head.split(b" ")[1]
                if path == b"/first":
                    w.write(b"HTTP/1.1 200 OK\r\nContent-Length: 5\r\n\r\nhel")
                    await w.drain()
                    await asyncio.sleep(0.05)
                    # last two body bytes and the surplus leave in ONE segment
                    w.write(b"lo" + surplus_now)
                    await w.drain()
                    rest = surplus_later
                else:
                    body = b"answer-to-" + path
                    w.write(
                        rest
                        + b"HTTP/1.1 200 OK\r\nContent-Length: %d\r\n\r\n" % len(body)
                        + body
                    )
                    await w.drain()
                    rest = b""
        except (asyncio.IncompleteReadError, ConnectionError):
            pass
        finally:
            w.close()

    srv = await asyncio.start_server(handler, "127.0.0.1", 0)
    port = srv.sockets[0].getsockname()[1]
    bad = False
    async with aiohttp.ClientSession() as s:
        async with s.get(f"http://127.0.0.1:{port}/first") as r:
            assert await r.read() == b"hello"
        await asyncio.sleep(0.1)  # nothing is sent by the server during this pause
        for path in ("/second", "/third"):
            want = b"answer-to-" + path.encode()
            try:
                async with s.get(f"http://127.0.0.1:{port}{path}") as r:
                    got = await r.read()
            except aiohttp.ClientError as exc:
                print(f"[{name}] GET {path}: raised {type(exc).__name__}: {getattr(exc, 'message', exc)}")
                bad = True
                continue
            flag = "ok" if got == want else "WRONG"
            print(f"[{name}] GET {path}: got {got!r} (want {want!r}) {flag}")
            bad = bad or got != want
    print(f"[{name}] TCP connections used: {accepted}")
    srv.close()
    await srv.wait_closed()
    return bad


async def main() -> int:
    stale = b"HTTP/1.1 200 OK\r\nContent-Length: 6\r\n\r\nPOISON"
    bad1 = await run_variant("complete surplus", stale, b"")
    bad2 = await run_variant("partial surplus", stale[:20], stale[20:])
    if bad1 or bad2:
        print("BUG: bytes sent before a request was handed to the connection were used "
              "to build (or break) its response")
        return 1
    return 0


sys.exit(asyncio.run(main()))
