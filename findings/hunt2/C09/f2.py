"""Content-Encoding is matched case-insensitively but used case-sensitively.

RFC 9110 8.4.1: content-coding values are case-insensitive.  parse_headers()
accepts `GZIP` / `Gzip` / `Deflate` / `BR` / `ZSTD` (enc.lower() in {...}) but
stores the header value as written, and DeflateBuffer / encoding_to_mode()
compare it with the lower-case literals.  Result: any spelling other than
all-lower-case selects the zlib-wrapper decoder, so a valid gzip / br / zstd /
raw-deflate body is refused with a payload error, on client and server.
"""
import asyncio
import gzip
import sys
import zlib

import aiohttp
from aiohttp import web
from aiohttp.compression_utils import HAS_BROTLI, HAS_ZSTD

sys.path.insert(0, __file__.rsplit("/", 1)[0])
from common import raw_server  # noqa: E402

print("aiohttp from", aiohttp.__file__)

REF = b"".join(b"%06d hello world\n" % i for i in range(2000))


def raw_deflate(d):
    c = zlib.compressobj(wbits=-15)
    return c.compress(d) + c.flush()


def cases():
    out = [
        ("gzip", gzip.compress(REF)),
        ("GZIP", gzip.compress(REF)),
        ("Gzip", gzip.compress(REF)),
        ("deflate", raw_deflate(REF)),
        ("Deflate", raw_deflate(REF)),  # raw deflate, tolerated for "deflate"
    ]
    if HAS_BROTLI:
        import brotli

        out += [("br", brotli.compress(REF)), ("BR", brotli.compress(REF))]
    if HAS_ZSTD:
        try:
            from compression import zstd
        except ImportError:
            from backports import zstd
        out += [("zstd", zstd.compress(REF)), ("Zstd", zstd.compress(REF))]
    return out


async def client_get(enc, body):
    wire = (
        b"HTTP/1.1 200 OK\r\nContent-Encoding: %s\r\nContent-Length: %d\r\n\r\n"
        % (enc.encode(), len(body))
        + body
    )
    srv, port, _ = await raw_server(lambda: wire)
    try:
        async with aiohttp.ClientSession() as s:
            async with s.get(f"http://127.0.0.1:{port}/") as resp:
                data = await resp.read()
                return "ok" if data == REF else f"wrong bytes ({len(data)})"
    except aiohttp.ClientPayloadError as e:
        return "ClientPayloadError: " + " ".join(str(e).split())
    finally:
        srv.close()


async def server_post(enc, body):
    async def handler(request):
        data = await request.read()
        return web.Response(text="ok" if data == REF else f"wrong bytes ({len(data)})")

    app = web.Application()
    app.router.add_post("/", handler)
    runner = web.AppRunner(app)
    await runner.setup()
    site = web.TCPSite(runner, "127.0.0.1", 0)
    await site.start()
    port = site._server.sockets[0].getsockname()[1]
    try:
        # auto_decompress... the body is sent exactly as compressed above
        async with aiohttp.ClientSession() as s:
            async with s.post(
                f"http://127.0.0.1:{port}/",
                data=body,
                headers={"Content-Encoding": enc},
            ) as resp:
                text = await resp.text()
                return "ok" if resp.status == 200 and text == "ok" else f"{resp.status}"
    finally:
        await runner.cleanup()


async def main():
    import logging

    logging.getLogger("aiohttp.server").setLevel(logging.CRITICAL)
    bad = 0
    for enc, body in cases():
        c = await client_get(enc, body)
        s = await server_post(enc, body)
        flag = "" if (c == "ok" and s == "ok") else "   <-- valid body refused"
        bad += bool(flag)
        print(f"Content-Encoding: {enc:8} client: {c:70} server: {s}{flag}")
    if bad:
        print(f"\n{bad} spellings of a supported content-coding could not be decoded")
        sys.exit(1)
    print("every spelling decoded to the reference bytes")


asyncio.run(main())
