"""An 8 kB zstd body pins 128 MiB of decoder window per connection, whatever the limit.

ZSTDDecompressor creates ZstdDecompressor() with library defaults, which accept
frames declaring a window of up to 2**27 bytes.  The window is a ring buffer of
*decoded* data owned by the decoder, so it is invisible to the reader's water
marks, max_length and client_max_size: a slow (or lingering) handler keeps it
alive.  RFC 9659 (zstd window sizes for HTTP content codings) exists for this
reason: 8 MiB is the most an HTTP peer may use and decoders are expected to
refuse more.  gzip/deflate hold 32 KiB here.

Server side: 4 connections x one 8 kB POST -> ~512 MiB resident, with
read_bufsize=4096 and client_max_size=1 MiB configured.
"""
import asyncio
import sys

import aiohttp
from aiohttp import web
from aiohttp.compression_utils import HAS_ZSTD

print("aiohttp from", aiohttp.__file__)
if not HAS_ZSTD:
    print("zstd not available, nothing to check")
    sys.exit(0)
try:
    from compression import zstd
except ImportError:
    from backports import zstd

MIB = 1 << 20
CONNS = 4
READ_BUFSIZE = 4096


def rss_mib():
    with open("/proc/self/statm") as f:
        return int(f.read().split()[1]) * 4096 // MIB


def bomb(window_log, size):
    c = zstd.ZstdCompressor(options={zstd.CompressionParameter.window_log: window_log})
    block = b"\0" * MIB
    out = [c.compress(block) for _ in range(size // MIB)]
    out.append(c.flush())
    return b"".join(out)


async def run(window_log):
    body = bomb(window_log, 256 * MIB)
    reached = asyncio.Semaphore(0)
    release = asyncio.Event()
    state = {"errors": 0}

    async def handler(request):
        # a streaming consumer that is slow: it has taken 160 MiB so far
        seen = 0
        try:
            while seen < 160 * MIB:
                chunk = await request.content.readany()
                if not chunk:
                    break
                seen += len(chunk)
        except Exception:
            state["errors"] += 1
            reached.release()
            raise
        reached.release()
        await release.wait()
        return web.Response(text=str(seen))

    app = web.Application(client_max_size=MIB)
    app.router.add_post("/", handler)
    runner = web.AppRunner(app, read_bufsize=READ_BUFSIZE)
    await runner.setup()
    site = web.TCPSite(runner, "127.0.0.1", 0)
    await site.start()
    port = site._server.sockets[0].getsockname()[1]

    base = rss_mib()
    writers = []
    for _ in range(CONNS):
        r, w = await asyncio.open_connection("127.0.0.1", port)
        w.write(
            b"POST / HTTP/1.1\r\nHost: x\r\nContent-Encoding: zstd\r\n"
            b"Content-Length: %d\r\n\r\n" % len(body) + body
        )
        writers.append(w)
    for _ in range(CONNS):
        await asyncio.wait_for(reached.acquire(), 60)
    held = rss_mib() - base
    release.set()
    for w in writers:
        w.close()
    await runner.cleanup()
    return len(body), held, state["errors"]


async def main():
    import logging

    logging.getLogger("aiohttp.server").setLevel(logging.CRITICAL)
    results = {}
    for window_log in (17, 27):
        wire, held, errors = await run(window_log)
        results[window_log] = held
        print(
            f"frames declaring a 2**{window_log} window: {CONNS} requests of {wire} bytes, "
            f"read_bufsize={READ_BUFSIZE}: resident memory grew by {held} MiB "
            f"while the handlers were paused ({errors} refused with a payload error)"
        )
    # 8 MiB per connection is what RFC 9659 allows; leave a 2x margin
    if results[27] > CONNS * 16:
        print(
            f"\n{results[27] // CONNS} MiB of decoded data per connection is held inside "
            f"the decoder for a {READ_BUFSIZE}-byte read buffer "
            f"(control with a 128 KiB window: {results[17]} MiB in total)"
        )
        sys.exit(1)
    print("decoder memory stayed bounded")


asyncio.run(main())
