import asyncio, gzip, zlib, sys, random, hashlib
import brotli
from backports import zstd
import aiohttp
from aiohttp import web
print(aiohttp.__file__)

def raw_deflate(d):
    c = zlib.compressobj(wbits=-15); return c.compress(d) + c.flush()
ENC = {
    "gzip": (b"gzip", gzip.compress, True),
    "deflate": (b"deflate", zlib.compress, True),
    "rawdeflate": (b"deflate", raw_deflate, True),
    "br": (b"br", brotli.compress, False),
    "zstd": (b"zstd", zstd.compress, True),
    "identity": (None, lambda d: d, False),
}
def chunked(rnd, b):
    out = b""; i = 0
    while i < len(b):
        n = rnd.choice([1, 2, 3, 7, 100, 1000, 5000])
        p = b[i:i+n]; i += n
        out += b"%x\r\n" % len(p) + p + b"\r\n"
    return out + b"0\r\n\r\n"
def mkdata(rnd):
    kind = rnd.choice(["rand", "zeros", "text", "empty"])
    n = rnd.choice([0, 1, 10, 1000, 70000, 300000])
    if kind == "rand": return rnd.randbytes(n)
    if kind == "zeros": return b"\0" * (n * 5)
    if kind == "text": return (b"hello world\n" * (n // 12 + 1))[:n]
    return b""

async def one(seed):
    rnd = random.Random(seed)
    limit = rnd.choice([1, 2, 16, 100, 4096, 65536])
    nreq = rnd.choice([1, 2, 3, 5])
    reqs = []; wire = b""
    for i in range(nreq):
        encname = rnd.choice(list(ENC)); hdr, comp, multi = ENC[encname]
        nm = rnd.choice([1, 1, 2, 4]) if multi else 1
        parts = [mkdata(rnd) for _ in range(nm)]
        ref = b"".join(parts); body = b"".join(comp(p) for p in parts)
        mode = rnd.choice(["read", "readany", "readn", "noread", "partial", "readchunk", "sleepread"])
        head = b"POST /%d/%s HTTP/1.1\r\nHost: x\r\n" % (i, mode.encode())
        if hdr: head += b"Content-Encoding: " + hdr + b"\r\n"
        if rnd.random() < 0.5: head += b"Content-Length: %d\r\n\r\n" % len(body); wire += head + body
        else: head += b"Transfer-Encoding: chunked\r\n\r\n"; wire += head + chunked(rnd, body)
        reqs.append((encname, mode, ref))
    results = {}
    async def handler(request):
        i = int(request.match_info["i"]); mode = request.match_info["mode"]
        rr = random.Random(seed * 100 + i)
        got = bytearray()
        c = request.content
        if mode == "read": got += await request.read()
        elif mode == "noread": pass
        elif mode == "partial": got += await c.read(10)
        else:
            while True:
                if mode == "sleepread" and limit >= 4096: await asyncio.sleep(0.001)
                elif rr.random() < 0.2: await asyncio.sleep(0)
                if mode == "readany" or mode == "sleepread": d = await c.readany()
                elif mode == "readn": d = await c.read(rr.choice([1, 100, 5000]))
                else:
                    d, e = await c.readchunk()
                    if (not d and not e) or (not d and c.at_eof()): break
                    got += d; continue
                if not d: break
                got += d
        results[i] = bytes(got)
        return web.Response(text=f"{i}:{len(got)}:{hashlib.md5(got).hexdigest()}")
    app = web.Application(client_max_size=10**8)
    app.router.add_post("/{i}/{mode}", handler)
    runner = web.AppRunner(app, read_bufsize=limit)
    await runner.setup()
    site = web.TCPSite(runner, "127.0.0.1", 0); await site.start()
    port = site._server.sockets[0].getsockname()[1]
    r, w = await asyncio.open_connection("127.0.0.1", port)
    segmode = rnd.choice(["one", "tiny", "rand", "big"])
    async def send():
        i = 0
        while i < len(wire):
            if segmode == "one": n = len(wire)
            elif segmode == "tiny": n = rnd.choice([1, 2, 3, 50])
            elif segmode == "rand": n = rnd.choice([1, 5, 50, 500, 5000, 50000])
            else: n = 65536
            w.write(wire[i:i+n]); i += n
            await w.drain()
            if segmode != "one" and len(wire) < 200000: await asyncio.sleep(0)
    st = asyncio.ensure_future(send())
    out = []
    err = None
    try:
        for i, (encname, mode, ref) in enumerate(reqs):
            line = await r.readline()
            if not line: err = f"conn closed before response {i}"; break
            hdrs = {}
            while True:
                l = await r.readline()
                if l in (b"\r\n", b""): break
                k, v = l.split(b":", 1); hdrs[k.lower()] = v.strip()
            body = await r.readexactly(int(hdrs[b"content-length"]))
            if not line.startswith(b"HTTP/1.1 200"):
                err = f"resp {i} {line!r} {body[:80]!r}"; break
            exp = {"noread": b"", "partial": ref[:10]}.get(mode, ref)
            if mode == "partial":
                g = results.get(i, b"")
                if not ref.startswith(g) or (ref and not g): err = f"req {i} partial mismatch"; break
            elif results.get(i) != exp:
                err = f"req {i} MISMATCH enc={encname} mode={mode} ref={len(ref)} got={len(results.get(i, b''))}"; break
            if hdrs.get(b"connection") == b"close":
                if i != len(reqs) - 1 and mode not in ("noread", "partial"): err = f"unexpected close after {i}"
                break
    except Exception as e:
        err = f"EXC {e!r}"
    st.cancel(); w.close()
    await runner.cleanup()
    if err: return f"seed {seed}: {err} limit={limit} seg={segmode} reqs={[(e,m,len(r)) for e,m,r in reqs]}"

async def main():
    a, b = int(sys.argv[1]), int(sys.argv[2])
    for seed in range(a, b):
        try: r = await asyncio.wait_for(one(seed), 30)
        except asyncio.TimeoutError: r = f"seed {seed}: HANG"
        if r: print(r, flush=True)
asyncio.run(main())
