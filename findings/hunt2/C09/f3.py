"""The sock_read timer is re-armed after the body reached EOF.

When the decoded body outruns the read buffer the parser pauses with the rest
of the (already received) compressed body inside it.  The consumer's read then
calls protocol.resume_reading(), which re-enters data_received(b""); that
nested call decodes the tail, reaches end-of-body, drops the read timeout and
hands the connection back to the pool.  Back in the outer
ResponseHandler.resume_reading() `if was_paused: self._reschedule_timeout()`
arms the sock_read timer again - on an idle, pooled connection.  sock_read
seconds later it fires, poisons the protocol with SocketTimeoutError, and the
next request that picks the connection from the pool fails at once with
"Timeout on reading data from socket" although nothing was waited for.
"""
import asyncio
import gzip
import sys

import aiohttp

sys.path.insert(0, __file__.rsplit("/", 1)[0])
from common import raw_server  # noqa: E402

print("aiohttp from", aiohttp.__file__)

REF = b"".join(b"%08d hello world\n" % i for i in range(40000))  # 840 kB
COMP = gzip.compress(REF)  # ~100 kB, an ordinary text ratio
WIRE = (
    b"HTTP/1.1 200 OK\r\nContent-Encoding: gzip\r\nContent-Length: %d\r\n\r\n"
    % len(COMP)
    + COMP
)


async def main():
    srv, port, conns = await raw_server(lambda: WIRE, keep_alive=True)
    timeout = aiohttp.ClientTimeout(total=30, sock_read=0.5)
    failures = []
    async with aiohttp.ClientSession(timeout=timeout) as s:
        for i in range(4):
            t0 = asyncio.get_running_loop().time()
            try:
                async with s.get(f"http://127.0.0.1:{port}/") as resp:
                    data = await resp.read()
                assert data == REF
                print(f"request {i}: ok ({len(conns)} connection(s) opened so far)")
            except Exception as e:
                dt = asyncio.get_running_loop().time() - t0
                print(f"request {i}: FAILED after {dt * 1000:.0f} ms with {e!r}")
                failures.append(i)
            # keep-alive idle period, longer than sock_read; the server is
            # healthy and answers every request immediately
            await asyncio.sleep(1.0)
    srv.close()
    if failures:
        print(
            f"\nrequests {failures} failed with a read timeout although the server "
            "answered at once: the timer was left armed after the previous body's EOF"
        )
        sys.exit(1)
    print("no spurious timeouts")


asyncio.run(main())
