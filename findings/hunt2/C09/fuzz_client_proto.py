import asyncio, gzip, zlib, sys, random, time
import brotli
from backports import zstd
import aiohttp
from aiohttp.client_proto import ResponseHandler
print(aiohttp.__file__)

class FakeTransport(asyncio.Transport):
    def __init__(self):
        super().__init__()
        self.paused = False
        self.closed = False
        self.ev = asyncio.Event(); self.ev.set()
    def pause_reading(self):
        self.paused = True; self.ev.clear()
    def resume_reading(self):
        self.paused = False; self.ev.set()
    def is_reading(self): return not self.paused
    def close(self): self.closed = True
    def abort(self): self.closed = True
    def is_closing(self): return self.closed
    def get_extra_info(self, name, default=None): return default
    def write(self, d): pass

def chunked(rnd, b):
    out = b""; i = 0
    while i < len(b):
        n = rnd.choice([1, 2, 3, 7, 100, 1000, 5000])
        p = b[i:i+n]; i += n
        ext = rnd.choice([b"", b"", b";x=y"])
        out += b"%x" % len(p) + ext + b"\r\n" + p + b"\r\n"
    tr = rnd.choice([b"", b"", b"X-T: 1\r\n"])
    return out + b"0\r\n" + tr + b"\r\n"

def raw_deflate(d):
    c = zlib.compressobj(wbits=-15); return c.compress(d) + c.flush()

def mkdata(rnd):
    kind = rnd.choice(["rand", "zeros", "text", "empty", "mix"])
    n = rnd.choice([0, 1, 10, 1000, 70000, 300000])
    if kind == "rand": return rnd.randbytes(n)
    if kind == "zeros": return b"\0" * (n * 10)
    if kind == "text": return (b"hello world\n" * (n // 12 + 1))[:n]
    if kind == "empty": return b""
    return b"".join(rnd.choice([rnd.randbytes(50), b"a" * 500, b"line\n"]) for _ in range(n // 100))

ENC = {
    "gzip": (b"gzip", gzip.compress, True),
    "deflate": (b"deflate", zlib.compress, True),
    "rawdeflate": (b"deflate", raw_deflate, True),
    "br": (b"br", brotli.compress, False),
    "zstd": (b"zstd", zstd.compress, True),
    "identity": (None, lambda d: d, False),
}

async def one(seed):
    rnd = random.Random(seed)
    encname = rnd.choice(list(ENC))
    hdr, comp, multi = ENC[encname]
    nm = rnd.choice([1, 1, 2, 5]) if multi else 1
    parts = [mkdata(rnd) for _ in range(nm)]
    ref = b"".join(parts)
    body = b"".join(comp(p) for p in parts)
    if encname == "rawdeflate" and nm > 1 and False:
        pass
    framing = rnd.choice(["cl", "chunked", "eof"])
    head = b"HTTP/1.1 200 OK\r\n"
    if hdr: head += b"Content-Encoding: " + hdr + b"\r\n"
    if framing == "cl": head += b"Content-Length: %d\r\n\r\n" % len(body); wire = head + body
    elif framing == "chunked": head += b"Transfer-Encoding: chunked\r\n\r\n"; wire = head + chunked(rnd, body)
    else: head += b"Connection: close\r\n\r\n"; wire = head + body
    limit = rnd.choice([1, 2, 16, 100, 4096, 65536])
    segmode = rnd.choice(["one", "tiny", "rand", "big"])
    if VERBOSE: print(f"enc={encname} nm={nm} framing={framing} limit={limit} seg={segmode} reflen={len(ref)} wire={len(wire)}")
    loop = asyncio.get_running_loop()
    proto = ResponseHandler(loop)
    tr = FakeTransport()
    proto.connection_made(tr)
    proto.set_response_params(read_bufsize=limit, read_until_eof=True)
    async def feeder():
        i = 0
        while i < len(wire):
            if segmode == "one": n = len(wire)
            elif segmode == "tiny": n = rnd.choice([1, 2, 3])
            elif segmode == "rand": n = rnd.choice([1, 5, 50, 500, 5000, 50000])
            else: n = 65536
            await tr.ev.wait()
            if rnd.random() < 0.3: await asyncio.sleep(0)
            await tr.ev.wait()
            proto.data_received(wire[i:i+n]); i += n
        if framing == "eof":
            # real transports deliver EOF regardless of pause
            await tr.ev.wait()
            proto.connection_lost(None)
    ft = asyncio.ensure_future(feeder())
    msg, payload = await proto.read()
    got = bytearray()
    mode = rnd.choice(["readany", "readn", "readchunk", "readline", "mix", "exact"])
    if VERBOSE: print("mode", mode)
    STATE["p"] = (proto, tr, payload, got)
    mx = 0
    try:
        while True:
            mx = max(mx, getattr(payload, '_size', 0))
            if rnd.random() < 0.3: await asyncio.sleep(0)
            m = mode if mode != "mix" else rnd.choice(["readany", "readn", "readchunk", "readline"])
            if m == "readany": d = await payload.readany()
            elif m == "readn": d = await payload.read(rnd.choice([1, 3, 100, 10000]))
            elif m == "readchunk":
                d, e = await payload.readchunk()
                if not d and not e: break
                got += d; continue
            elif m == "readline":
                d = await payload.readline(max_line_length=10**9)
            else:
                try: d = await payload.readexactly(rnd.choice([1, 10, 1000]))
                except asyncio.IncompleteReadError as e:
                    got += e.partial; break
            if not d: break
            got += d
    except Exception as e:
        ft.cancel()
        return f"seed {seed}: EXC {e!r} enc={encname} framing={framing} limit={limit} seg={segmode} mode={mode} len={len(ref)} got={len(got)}"
    await ft
    if bytes(got) != ref:
        return f"seed {seed}: MISMATCH enc={encname} framing={framing} limit={limit} seg={segmode} mode={mode} len={len(ref)} got={len(got)}"
    return None

import os
VERBOSE = bool(os.environ.get("V"))
STATE = {}
async def main():
    a, b = int(sys.argv[1]), int(sys.argv[2])
    for seed in range(a, b):
        try:
            r = await asyncio.wait_for(one(seed), 20)
        except asyncio.TimeoutError:
            r = f"seed {seed}: HANG"
            if VERBOSE:
                proto, tr, payload, got = STATE["p"]
                print("paused tr", tr.paused, "reading_paused", proto._reading_paused, "payload", payload, "got", len(got), "pp", proto._parser and proto._parser._payload_parser and vars(proto._parser._payload_parser))
        if r: print(r, flush=True)
asyncio.run(main())
