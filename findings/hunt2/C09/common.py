"""Helpers shared by the hunt scripts: a raw one-shot HTTP responder."""
import asyncio


async def raw_server(response_for, keep_alive=False):
    """Start a TCP server answering every request head with response_for()."""
    conns = []

    async def handle(r, w):
        conns.append(w)
        try:
            while True:
                await r.readuntil(b"\r\n\r\n")
                w.write(response_for())
                await w.drain()
                if not keep_alive:
                    await asyncio.sleep(0.2)
                    break
        except (asyncio.IncompleteReadError, ConnectionError, asyncio.CancelledError):
            pass
        finally:
            w.close()

    srv = await asyncio.start_server(handle, "127.0.0.1", 0)
    return srv, srv.sockets[0].getsockname()[1], conns
