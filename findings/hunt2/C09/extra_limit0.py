"""read_bufsize=0 switches the decompression bound off instead of making it tightest.

DeflateBuffer.feed_data() computes max_length = max(max_decompress_size,
low_water); with a read-buffer limit of 0 both are 0, and 0 is zlib's (and,
after translation, zstd's / brotli's) spelling of "unlimited".  So the
smallest possible limit decodes a whole compression bomb in one call, while a
limit of 1 or 2 keeps at most 3x the limit decoded.  (A limit of 0 is a
supported configuration: the reader's water-mark test and
web_protocol._resume_msg_queue_reading carry explicit code for it.)
"""
import asyncio
import gzip
import sys

import aiohttp

sys.path.insert(0, __file__.rsplit("/", 1)[0])
from common import raw_server  # noqa: E402

print("aiohttp from", aiohttp.__file__)

N = 64 * 1024 * 1024
COMP = gzip.compress(b"\0" * N)  # ~64 kB on the wire
WIRE = (
    b"HTTP/1.1 200 OK\r\nContent-Encoding: gzip\r\nContent-Length: %d\r\n\r\n"
    % len(COMP)
    + COMP
)


async def buffered_after_idle(limit):
    srv, port, _ = await raw_server(lambda: WIRE, keep_alive=True)
    try:
        async with aiohttp.ClientSession(read_bufsize=limit) as s:
            async with s.get(f"http://127.0.0.1:{port}/") as resp:
                await asyncio.sleep(0.3)  # slow consumer: nothing read yet
                # readany() hands over everything that is decoded and buffered
                return len(await resp.content.readany())
    finally:
        srv.close()


async def main():
    sizes = {}
    for limit in (2, 1, 0):
        sizes[limit] = await buffered_after_idle(limit)
        print(
            f"read_bufsize={limit}: {sizes[limit]:>9} decoded bytes were held in "
            f"memory before the application read anything ({len(COMP)} on the wire)"
        )
    if sizes[0] > 1024 * 1024:
        print(
            f"\nwith read_bufsize=0 the whole {sizes[0] >> 20} MiB bomb was inflated "
            f"at once; with read_bufsize=1 only {sizes[1]} bytes"
        )
        sys.exit(1)
    print("decoded data stayed bounded for every limit")


asyncio.run(main())
