"""A truncated gzip / br / zstd body is delivered as a complete body.

The HTTP framing is intact (Content-Length / chunked terminator / close match
the bytes sent), only the compressed stream inside stops early.  For
Content-Encoding: deflate aiohttp reports ClientPayloadError; for gzip, br and
zstd the application gets a short (often empty) body and no error at all, on
the client (resp.read()) and on the server (request.read()).
"""
import asyncio
import gzip
import sys
import zlib

import aiohttp
from aiohttp import web
from aiohttp.compression_utils import HAS_BROTLI, HAS_ZSTD

sys.path.insert(0, __file__.rsplit("/", 1)[0])
from common import raw_server  # noqa: E402

print("aiohttp from", aiohttp.__file__)

REF = b"".join(b"%06d hello world\n" % i for i in range(5000))


def codecs():
    out = {"deflate": zlib.compress(REF), "gzip": gzip.compress(REF)}
    if HAS_BROTLI:
        import brotli

        out["br"] = brotli.compress(REF)
    if HAS_ZSTD:
        try:
            from compression import zstd
        except ImportError:
            from backports import zstd
        out["zstd"] = zstd.compress(REF)
    return out


def frame(enc, body, framing):
    head = b"HTTP/1.1 200 OK\r\nContent-Encoding: " + enc.encode() + b"\r\n"
    if framing == "content-length":
        return head + b"Content-Length: %d\r\n\r\n" % len(body) + body
    if framing == "chunked":
        return (
            head
            + b"Transfer-Encoding: chunked\r\n\r\n"
            + b"%x\r\n" % len(body)
            + body
            + b"\r\n0\r\n\r\n"
        )
    return head + b"Connection: close\r\n\r\n" + body


async def client_get(wire):
    srv, port, _ = await raw_server(lambda: wire)
    try:
        async with aiohttp.ClientSession() as s:
            async with s.get(f"http://127.0.0.1:{port}/") as resp:
                return "delivered", await resp.read()
    except aiohttp.ClientPayloadError as e:
        return "payload error", e
    finally:
        srv.close()


async def server_post(enc, body):
    seen = {}

    async def handler(request):
        try:
            seen["body"] = await request.read()
        except Exception as e:
            seen["exc"] = e
            raise
        return web.Response(text="ok")

    app = web.Application()
    app.router.add_post("/", handler)
    runner = web.AppRunner(app)
    await runner.setup()
    site = web.TCPSite(runner, "127.0.0.1", 0)
    await site.start()
    port = site._server.sockets[0].getsockname()[1]
    r, w = await asyncio.open_connection("127.0.0.1", port)
    w.write(
        b"POST / HTTP/1.1\r\nHost: x\r\nContent-Encoding: %s\r\n"
        b"Content-Length: %d\r\nConnection: close\r\n\r\n" % (enc.encode(), len(body))
        + body
    )
    status = (await r.readline()).decode().strip()
    w.close()
    await runner.cleanup()
    return status, seen


async def main():
    bad = []
    for enc, comp in codecs().items():
        # sanity: the complete stream decodes
        kind, val = await client_get(frame(enc, comp, "content-length"))
        assert kind == "delivered" and val == REF, (enc, kind)
        for cut in (len(comp) // 2, len(comp) - 1):
            trunc = comp[:cut]
            for framing in ("content-length", "chunked", "close"):
                kind, val = await client_get(frame(enc, trunc, framing))
                if kind == "delivered":
                    bad.append(
                        f"client {enc:7} {framing:14} stream cut at {cut}/{len(comp)}: "
                        f"resp.read() returned {len(val)} of {len(REF)} bytes, no error"
                    )
                else:
                    print(f"ok     {enc:7} {framing:14} cut {cut}/{len(comp)}: {kind}")
        status, seen = await server_post(enc, comp[: len(comp) // 2])
        if "body" in seen:
            bad.append(
                f"server {enc:7} truncated request body: request.read() returned "
                f"{len(seen['body'])} of {len(REF)} bytes, response {status!r}"
            )
        else:
            print(f"ok     server {enc}: {status} ({seen.get('exc')!r})")
    for line in bad:
        print("WRONG ", line)
    if bad:
        print(f"\n{len(bad)} truncated bodies were accepted as complete")
        sys.exit(1)
    print("all truncated streams were reported")


asyncio.run(main())
