from common import *
import random, itertools, warnings
warnings.simplefilter("ignore")

def gen_content(rng, boundary):
    kind = rng.randrange(8)
    bl = len(boundary) + 4
    sizes = [0,1,2,3, bl-1, bl, bl+1, 8190,8191,8192,8193,8194, 8192-bl, 8192+bl, 16384, 16385, 20000]
    n = rng.choice(sizes) + rng.choice([0,0,0,-1,1,2])
    n = max(0,n)
    if kind == 0:
        return bytes(rng.getrandbits(8) for _ in range(n))
    if kind == 1:
        return (b"\r\n" * n)[:n]
    if kind == 2:
        pat = b"\r\n--" + boundary.encode()[:-1]
        return (pat * (n // len(pat) + 1))[:n]
    if kind == 3:
        pat = b"\r\n-"
        return (pat * (n // len(pat) + 1))[:n]
    if kind == 4:
        return (b"line of text\r\n" * n)[:n]
    if kind == 5:
        return (b"--" + boundary.encode()[:-2] + b"\r") * (n // 10 + 1)
    if kind == 6:
        return b"\r" * n
    return b"\n" * n + b"\r"

async def read_part(p, rng, mode):
    if mode == "read":
        return bytes(await p.read(decode=True))
    if mode == "chunk":
        size = rng.choice([p._boundary_len, p._boundary_len+1, 64, 100, 4096, 8192, 8193, 65536])
        size = max(size, p._boundary_len)
        out = bytearray()
        raw = bytearray()
        while not p.at_eof():
            c = await p.read_chunk(size)
            raw.extend(c)
        return bytes(p.decode(bytes(raw)))
    if mode == "release":
        await p.release(); return None

async def one(seed):
    rng = random.Random(seed)
    boundary = rng.choice(["b", "bound", "x"*70, "----WebKitFormBoundary7MA4YWxkTrZu0gW", "a-b"])
    subtype = rng.choice(["mixed", "form-data", "related"])
    w = MultipartWriter(subtype, boundary=boundary)
    parts = []
    for i in range(rng.randrange(1,4)):
        c = gen_content(rng, boundary)
        h = {}
        if subtype != "form-data":
            te = rng.choice([None,None,"base64","quoted-printable","binary"])
            ce = rng.choice([None,None,"gzip","deflate","identity"])
            if te: h["Content-Transfer-Encoding"] = te
            if ce: h["Content-Encoding"] = ce
        else:
            h["Content-Disposition"] = 'form-data; name="f%d"' % i
        w.append(c, h)
        parts.append(c)
    size = w.size
    body = await serialize(w)
    if size is not None and size != len(body):
        return f"SIZE declared {size} written {len(body)}"
    segmode = rng.randrange(4)
    if segmode == 0: segs = None
    elif segmode == 1: segs = [1]*len(body)
    elif segmode == 2: segs = [rng.randrange(1, 50) for _ in range(len(body))]
    else: segs = [rng.choice([8192, 8191, 8193, 4096, 100])]*len(body)
    stream = make_stream(b"", eof=False)
    async def feeder():
        pos = 0
        if segs is None:
            stream.feed_data(body)
        else:
            for i, n in enumerate(segs):
                if pos >= len(body): break
                stream.feed_data(body[pos:pos+n]); pos += n
                if i % 7 == 0: await asyncio.sleep(0)
        stream.feed_eof()
    ft = asyncio.ensure_future(feeder())
    r = MultipartReader({"Content-Type": w.headers["Content-Type"]}, stream)
    got = []
    modes = []
    for c in parts:
        p = await r.next()
        if p is None: return f"missing part; modes {modes}"
        mode = rng.choice(["read","chunk","chunk","release"])
        modes.append(mode)
        d = await read_part(p, rng, mode)
        if d is not None and d != c:
            return f"DIFF mode {mode} want {len(c)} got {len(d)} hdr {dict(p.headers)}"
    if await r.next() is not None: return "extra part"
    if not r.at_eof(): return "not at eof"
    await ft
    return None

async def main():
    start = int(sys.argv[1]); n = int(sys.argv[2])
    bad = 0
    for seed in range(start, start+n):
        try:
            res = await asyncio.wait_for(one(seed), 20)
        except Exception as e:
            res = "EXC " + repr(e)[:300]
        if res:
            print(seed, res); bad += 1
            if bad > 15: break
asyncio.run(main())
