from common import *
from aiohttp import FormData
from urllib.parse import unquote
import warnings
warnings.simplefilter("ignore")
async def run(name, filename, quote):
    fd = FormData(boundary="b", quote_fields=quote)
    try:
        fd.add_field(name, b"x", filename=filename)
        w = fd()
        body = await serialize(w)
    except Exception as e:
        return ("WERR", repr(e))
    r = MultipartReader({"Content-Type": w.headers["Content-Type"]}, make_stream(body))
    try:
        p = await r.next()
        return (p.name, p.filename, body.split(b"\r\n")[2])
    except Exception as e:
        return ("RERR", repr(e))
async def main():
    cands = ["a", "a;b", "a;b;c", 'a"b', 'a";b', "a\\b", "/a", "\\a", "a b", " a", "a ", "é", "/é", "a%41", "a%", "a'b", "a=b", "a;b=c", "a*", "a\tb", "x; filename=evil", 'x"; filename="evil', "日本;語;x", "a\x7fb", "a\x01b", ""]
    for quote in (True, False):
        for c in cands:
            res = await run(c, None, quote)
            ok = res[0] == c or (isinstance(res[0], str) and unquote(res[0]) == c)
            if not ok: print("NAME", quote, repr(c), res)
            res = await run("f", c, quote)
            ok = res[1] == c or (isinstance(res[1], str) and unquote(res[1]) == c)
            if not ok: print("FILENAME", quote, repr(c), res)
asyncio.run(main())
