from common import *
from aiohttp.test_utils import make_mocked_request
from aiohttp import web
async def main():
    w = MultipartWriter("form-data", boundary="b")
    p = w.append("hello"); p.set_content_disposition("form-data", name="f")
    body = await serialize(w)
    for cms in (1024, 0):
        req = make_mocked_request("POST", "/", headers={"Content-Type": w.headers["Content-Type"]}, payload=make_stream(body), client_max_size=cms)
        print(cms, "post:", dict(await req.post()))
        req = make_mocked_request("POST", "/", headers={"Content-Type": w.headers["Content-Type"]}, payload=make_stream(body), client_max_size=cms)
        r = await req.multipart()
        part = await r.next()
        try:
            print(cms, "multipart:", await part.text())
        except web.HTTPException as e:
            print(cms, "multipart ERR", repr(e), e.text)
asyncio.run(main())
