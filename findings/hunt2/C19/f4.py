"""TextIOPayload.size is the on-disk size (fstat) when the codecs agree, but the file object is read
in text mode: with the default newline=None every CRLF on disk becomes LF. The part's Content-Length
and MultipartWriter.size (-> the request's Content-Length) are larger than what is written; the
reader, trusting the part's Content-Length, reads into the delimiter and fails."""
import asyncio, os, sys, tempfile
from unittest import mock
import aiohttp
from aiohttp import streams
from aiohttp.multipart import MultipartReader, MultipartWriter

print(aiohttp.__file__)


class Buf:
    def __init__(self): self.b = bytearray()
    async def write(self, d): self.b.extend(d)


async def main():
    bad = []
    path = os.path.join(tempfile.mkdtemp(), "table.csv")
    with open(path, "wb") as f:
        f.write(b"a,b\r\n1,2\r\n3,4\r\n")          # a CSV as written on Windows / by csv.writer
    with open(path, encoding="utf-8") as f:          # plain text mode, as in the client quickstart
        w = MultipartWriter("mixed", boundary="b")
        part = w.append(f)
        declared_part = int(part.headers["Content-Length"])
        declared = w.size
        buf = Buf()
        await w.write(buf)
    body = bytes(buf.b)
    content = body.split(b"\r\n\r\n", 1)[1].rsplit(b"\r\n--b--", 1)[0]
    print(body)
    if declared != len(body):
        bad.append(f"MultipartWriter.size == {declared}, bytes written == {len(body)}")
    if declared_part != len(content):
        bad.append(f"part Content-Length: {declared_part}, part content written: {len(content)} bytes {content!r}")
    s = streams.StreamReader(mock.Mock(_reading_paused=False), 2**16, loop=asyncio.get_event_loop())
    s.feed_data(body)
    s.feed_eof()
    r = MultipartReader({"Content-Type": w.headers["Content-Type"]}, s)
    try:
        p = await r.next()
        got = bytes(await p.read())
        if got != content:
            bad.append(f"read back {got!r}")
        assert await r.next() is None
    except Exception as e:
        bad.append(f"the writer's own output cannot be read back: {e!r}")
    for b in bad:
        print("VIOLATION", b)
    sys.exit(1 if bad else 0)


asyncio.run(main())
