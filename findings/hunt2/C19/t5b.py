from common import *
import gzip, tempfile, os
async def main():
    w = MultipartWriter("mixed", boundary="b")
    w.append(b"\x00\x01binary data" * 3, {"Content-Transfer-Encoding": "base64"})
    w.append(b"z" * 100, {"Content-Encoding": "gzip"})
    a = await w.as_bytes()
    b = await serialize(w)
    print(a == b); print(a); print(b)
    r = MultipartReader({"Content-Type": w.headers["Content-Type"]}, make_stream(a))
    try:
        p = await r.next(); print(await p.read(decode=True))
        p = await r.next(); print(await p.read(decode=True))
    except Exception as e: print("ERR", repr(e))
    # gzip file
    d = tempfile.mkdtemp(); path = os.path.join(d, "x.gz")
    data = b"A" * 100000
    with gzip.open(path, "wb") as f: f.write(data)
    print("compressed size", os.path.getsize(path))
    w = MultipartWriter("form-data", boundary="b")
    pl = w.append(gzip.open(path, "rb"))
    pl.set_content_disposition("form-data", name="f")
    body = await serialize(w)
    r = MultipartReader({"Content-Type": w.headers["Content-Type"]}, make_stream(body))
    p = await r.next(); got = await p.read()
    print("sent", len(got), "of", len(data))
asyncio.run(main())
