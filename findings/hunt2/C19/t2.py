from common import *
import os, random
from aiohttp.helpers import DEFAULT_CHUNK_SIZE
async def run(te=None, ce=None, n=600000, content=None):
    random.seed(1)
    data = content if content is not None else bytes(random.getrandbits(8) for _ in range(n))
    w = MultipartWriter("mixed")
    h = {}
    if te: h["Content-Transfer-Encoding"] = te
    if ce: h["Content-Encoding"] = ce
    w.append(data, h)
    body = await serialize(w)
    r = MultipartReader({"Content-Type": w.headers["Content-Type"]}, make_stream(body))
    p = await r.next()
    # forward the part into a second writer (BodyPartReaderPayload)
    w2 = MultipartWriter("mixed")
    w2.append(p)
    try:
        body2 = await serialize(w2)
    except Exception as e:
        print(te, ce, "ERR", repr(e)); return
    r2 = MultipartReader({"Content-Type": w2.headers["Content-Type"]}, make_stream(body2))
    p2 = await r2.next()
    got = await p2.read(decode=True)
    print(te, ce, len(body), "same" if got == data else f"DIFF got {len(got)} want {len(data)}")
async def main():
    await run()
    await run(te="base64")
    await run(te="quoted-printable")
    await run(ce="gzip")
    await run(ce="deflate")
    await run(ce="gzip", content=b"abc"*1000000)
asyncio.run(main())
