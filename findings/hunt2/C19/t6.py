from common import *
async def run(bd):
    try:
        w = MultipartWriter("mixed", boundary=bd)
    except Exception as e:
        return "WERR " + repr(e)
    w.append(b"data1"); w.append(b"data2", {"Content-Transfer-Encoding": "base64"})
    body = await serialize(w)
    try:
        r = MultipartReader({"Content-Type": w.headers["Content-Type"]}, make_stream(body))
        p = await r.next(); a = await p.read(decode=True)
        p = await r.next(); b = await p.read(decode=True)
        assert await r.next() is None
        return (bytes(a), bytes(b)) == (b"data1", b"data2") or (a, b)
    except Exception as e:
        return "RERR " + repr(e) + " CT=" + w.headers["Content-Type"]
async def main():
    for bd in ["a b", 'a"b', "a\\b", "a;b", "a=b", "a,b", "a/b", "a:b", "(a)", "a'b", "a?b", "ab ", " ab", "a\tb", "", "-", "--", "a--", "é", "a\x7fb", "A"*70, "a%41", "a+b", "<a>", "a@b", "[a]", "{a}", "a b;c=d", 'a\\"b']:
        res = await run(bd)
        if res is not True: print(repr(bd), res)
asyncio.run(main())
