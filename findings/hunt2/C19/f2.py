"""BodyPartReaderPayload.write() (a part of a received multipart passed on into a MultipartWriter /
request body) and web.Request.post() decode every read_chunk() on its own with decode_iter(chunk).
 - quoted-printable: a chunk edge inside an '=XX' escape -> wrong bytes, silently
 - gzip / deflate: every chunk gets a NEW decompressor -> zlib.error as soon as the compressed part
   is longer than one chunk (256 KiB)
read(decode=True) on the same bodies returns the right content."""
import asyncio, sys, random
from unittest import mock
import aiohttp
from aiohttp import streams
from aiohttp.multipart import MultipartReader, MultipartWriter

print(aiohttp.__file__)


class Buf:
    def __init__(self): self.b = bytearray()
    async def write(self, d): self.b.extend(d)


async def ser(w):
    buf = Buf()
    await w.write(buf)
    return bytes(buf.b)


def reader(w, body):
    s = streams.StreamReader(mock.Mock(_reading_paused=False), 2**16, loop=asyncio.get_event_loop())
    s.feed_data(body)
    s.feed_eof()
    return MultipartReader({"Content-Type": w.headers["Content-Type"]}, s)


async def forward(data, headers):
    w = MultipartWriter("mixed")
    w.append(data, headers)
    body = await ser(w)
    # sanity: the plain read API gives the content back
    p = await reader(w, body).next()
    assert bytes(await p.read(decode=True)) == data, "read(decode=True) broken?"
    # forward the received part into another multipart (BodyPartReaderPayload)
    p = await reader(w, body).next()
    w2 = MultipartWriter("mixed")
    w2.append(p)
    body2 = await ser(w2)
    p2 = await reader(w2, body2).next()
    return bytes(await p2.read(decode=True)), len(body)


async def main():
    bad = []
    rng = random.Random(1)
    data = bytes(rng.getrandbits(8) for _ in range(600_000))
    for hdr in (
        {"Content-Transfer-Encoding": "quoted-printable"},
        {"Content-Encoding": "gzip"},
        {"Content-Encoding": "deflate"},
        {"Content-Transfer-Encoding": "base64"},
    ):
        try:
            got, n = await forward(data, hdr)
        except Exception as e:
            bad.append(f"{hdr}: forwarding the part failed: {e!r}")
            continue
        if got != data:
            i = next(i for i, (a, b) in enumerate(zip(got, data)) if a != b)
            bad.append(f"{hdr}: forwarded content differs: {len(got)} bytes instead of {len(data)}, "
                       f"first difference at {i}: {got[i-2:i+4]!r} != {data[i-2:i+4]!r}")
        else:
            print(hdr, "ok", n)
    # the same per-chunk decoding in web.Request.post() (file field, quoted-printable)
    import binascii
    from aiohttp.test_utils import make_mocked_request
    qp = binascii.b2a_qp(data, istext=False)
    body = (b'--b\r\nContent-Disposition: form-data; name="f"; filename="x.bin"\r\n'
            b"Content-Transfer-Encoding: quoted-printable\r\n\r\n" + qp + b"\r\n--b--\r\n")
    s = streams.StreamReader(mock.Mock(_reading_paused=False), 2**16, loop=asyncio.get_event_loop())
    s.feed_data(body)
    s.feed_eof()
    req = make_mocked_request("POST", "/", headers={"Content-Type": "multipart/form-data; boundary=b"},
                              payload=s, client_max_size=10**8)
    got = (await req.post())["f"].file.read()
    if got != data:
        bad.append(f"request.post(): quoted-printable file field decoded to {len(got)} bytes, not the {len(data)} sent")
    for b in bad:
        print("VIOLATION", b)
    sys.exit(1 if bad else 0)


asyncio.run(main())
