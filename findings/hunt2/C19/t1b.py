from common import *
from aiohttp import FormData
async def run(vals, nlines):
    fd = FormData(boundary="b", default_to_multipart=True)
    for i, v in enumerate(vals): fd.add_field(f"f{i}", v)
    w = fd()
    body = await serialize(w)
    r = MultipartReader({"Content-Type": w.headers["Content-Type"]}, make_stream(body))
    out = []
    try:
        while (p := await r.next()) is not None:
            lines = [await p.readline() for _ in range(nlines)]
            out.append((p.name, lines))
    except Exception as e:
        out.append(("ERR", repr(e)))
    print(nlines, out)
async def main():
    await run(["hello", "second", "third"], 1)
    await run(["l1\r\nl2\r\nl3", "second", "third"], 1)
    await run(["l1\r\nl2\r\nl3", "second", "third"], 2)
    await run(["l1\r\nl2\r\nl3", "second", "third"], 3)
    await run(["l1\r\nl2\r\nl3", "second", "third"], 4)
asyncio.run(main())
