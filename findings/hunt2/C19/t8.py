from common import *
import random, warnings
warnings.simplefilter("ignore")
def build(rng, depth=0):
    bd = rng.choice(["b","bb","x-%d" % depth, "in", "out"]) + str(depth)
    w = MultipartWriter(rng.choice(["mixed","related","form-data"]) if depth else "mixed", boundary=bd)
    tree = []
    for i in range(rng.randrange(0,4)):
        if depth < 3 and rng.random() < 0.35:
            iw, it = build(rng, depth+1)
            h = {}
            w.append(iw, h); tree.append(it)
        else:
            c = bytes(rng.choice(b"ab\r\n-") for _ in range(rng.choice([0,1,5,50,9000])))
            h = {}
            if w._is_form_data: h["Content-Disposition"] = 'form-data; name="f"'
            elif rng.random() < 0.3: h["Content-Transfer-Encoding"] = "base64"
            w.append(c, h); tree.append(c)
    return w, tree
async def check(r, tree, rng):
    for t in tree:
        p = await r.next()
        if p is None: return "missing"
        if isinstance(t, list):
            if not isinstance(p, MultipartReader): return "want nested"
            m = rng.randrange(3)
            if m == 0:
                res = await check(p, t, rng)
                if res: return res
            elif m == 1 and t:
                # partially consume
                q = await p.next()
                if isinstance(q, BodyPartReader) and rng.random()<0.5: await q.read_chunk(max(q._boundary_len, 10))
            else: pass
        else:
            if not isinstance(p, BodyPartReader): return "want leaf"
            m = rng.randrange(3)
            if m == 0:
                d = await p.read(decode=True)
                if bytes(d) != t: return f"DIFF {len(d)} {len(t)}"
            elif m == 1: await p.read_chunk(max(p._boundary_len, 10))
    if await r.next() is not None: return "extra"
async def one(seed):
    rng = random.Random(seed)
    w, tree = build(rng)
    size = w.size
    body = await serialize(w)
    if size is not None and size != len(body): return f"SIZE {size} {len(body)}"
    segs = rng.choice([None, [1]*len(body), [rng.randrange(1,30) for _ in body]])
    stream = make_stream(b"", eof=False)
    async def feeder():
        pos = 0
        if segs is None: stream.feed_data(body)
        else:
            for i, n in enumerate(segs):
                if pos >= len(body): break
                stream.feed_data(body[pos:pos+n]); pos += n
                if i % 5 == 0: await asyncio.sleep(0)
        stream.feed_eof()
    ft = asyncio.ensure_future(feeder())
    r = MultipartReader({"Content-Type": w.headers["Content-Type"]}, stream)
    res = await check(r, tree, rng)
    await ft
    return res
async def main():
    for s in range(int(sys.argv[1]), int(sys.argv[2])):
        try: res = await asyncio.wait_for(one(s), 20)
        except Exception as e: res = "EXC " + repr(e)[:200]
        if res: print(s, res)
asyncio.run(main())
