from common import *
import random, warnings, signal, traceback
warnings.simplefilter("ignore")
from aiohttp.http_exceptions import HttpProcessingError

async def build(rng):
    boundary = rng.choice(["b", "bound", "x"*70, "a-b"])
    subtype = rng.choice(["mixed", "form-data"])
    w = MultipartWriter(subtype, boundary=boundary)
    for i in range(rng.randrange(0,4)):
        if rng.random() < 0.2 and subtype == "mixed":
            inner = MultipartWriter("mixed", boundary="in")
            for j in range(rng.randrange(0,3)): inner.append(b"inner%d" % j)
            w.append(inner); continue
        n = rng.choice([0,1,5,100,8192,9000])
        c = bytes(rng.choice(b"ab\r\n-=") for _ in range(n))
        h = {}
        if subtype != "form-data":
            te = rng.choice([None,None,"base64","quoted-printable"])
            ce = rng.choice([None,None,"gzip","deflate"])
            if te: h["Content-Transfer-Encoding"] = te
            if ce: h["Content-Encoding"] = ce
        else:
            h["Content-Disposition"] = 'form-data; name="%s"' % rng.choice(["f", "_charset_"])
        w.append(c, h)
    return w, await serialize(w), boundary

def mutate(rng, body, boundary):
    b = bytearray(body)
    for _ in range(rng.randrange(1,4)):
        k = rng.randrange(9)
        if not b: break
        pos = rng.randrange(len(b)+1)
        if k == 0: b = b[:pos]
        elif k == 1 and pos < len(b): b[pos] ^= 1 << rng.randrange(8)
        elif k == 2: b[pos:pos] = b"\r\n--" + boundary.encode() + rng.choice([b"", b"\r\n", b"--", b"--\r\n", b"x"])
        elif k == 3: del b[pos:pos+rng.randrange(1,20)]
        elif k == 4: b[pos:pos] = bytes(rng.choice(b"\r\n-=:") for _ in range(rng.randrange(1,6)))
        elif k == 5: b = b.replace(b"\r\n", b"\n", rng.randrange(1,5))
        elif k == 6: b[pos:pos] = b[max(0,pos-rng.randrange(1,200)):pos]
        elif k == 7: b = b.replace(b"Content-Length: ", b"Content-Length: " + rng.choice([b"0", b"9", b"-", b"+"]), 1)
        elif k == 8: b[pos:pos] = b"A" * rng.choice([9000, 70000, 200000])
    return bytes(b)

async def consume(r, rng, depth=0):
    n = 0
    while True:
        p = await r.next()
        if p is None: break
        n += 1
        if n > 10000: raise SystemExit("too many parts")
        if isinstance(p, MultipartReader):
            if rng.random() < 0.7: await consume(p, rng, depth+1)
            continue
        mode = rng.choice(["read","chunk","readline","release","skip","text", "mixed"])
        if mode == "read": await p.read(decode=True)
        elif mode == "text": await p.text()
        elif mode == "chunk":
            size = max(rng.choice([1, 64, 8192]), p._boundary_len)
            k = 0
            while not p.at_eof():
                c = await p.read_chunk(size); k += 1
                if k > 100000: raise SystemExit("read_chunk spins")
        elif mode == "readline":
            k = 0
            while not p.at_eof():
                l = await p.readline(); k += 1
                if not l and not p.at_eof(): break
                if k > 100000: raise SystemExit("readline spins")
        elif mode == "release": await p.release()
        elif mode == "mixed":
            await p.read_chunk(max(10, p._boundary_len))
            await p.release()

def handler(signum, frame):
    print("HANG seed", CUR, flush=True)
    traceback.print_stack(frame)
    os._exit(3)
import os
CUR = None
async def main():
    global CUR
    start = int(sys.argv[1]); n = int(sys.argv[2])
    signal.signal(signal.SIGALRM, handler)
    kinds = {}
    for seed in range(start, start+n):
        CUR = seed
        rng = random.Random(seed)
        w, body, boundary = await build(rng)
        m = mutate(rng, body, boundary)
        signal.alarm(20)
        try:
            r = MultipartReader({"Content-Type": w.headers["Content-Type"]}, make_stream(m))
            await asyncio.wait_for(consume(r, rng), 15)
            kinds["ok"] = kinds.get("ok",0)+1
        except (ValueError, HttpProcessingError, RuntimeError, AssertionError) as e:
            k = type(e).__name__ + ":" + str(e)[:40]
            if k not in kinds: print(seed, k)
            kinds[k] = kinds.get(k,0)+1
        except asyncio.TimeoutError:
            print("TIMEOUT", seed)
        except Exception as e:
            k = type(e).__name__ + ":" + str(e)[:60]
            if k not in kinds: print("UNEXPECTED", seed, k)
            kinds[k] = kinds.get(k,0)+1
        signal.alarm(0)
    for k,v in sorted(kinds.items(), key=lambda x:-x[1]): print(v, k)
asyncio.run(main())
