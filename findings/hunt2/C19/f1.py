"""readline() peeks one line ahead into BodyPartReader._unread; read()/read_chunk()/release()
(and therefore MultipartReader.next()) ignore that buffer: the peeked line is lost (silent data
loss) and the multipart reader then takes a content line / the next part for the delimiter."""
import asyncio, sys
from unittest import mock
import aiohttp
from aiohttp import FormData, streams
from aiohttp.multipart import MultipartReader

print(aiohttp.__file__)


class Buf:
    def __init__(self): self.b = bytearray()
    async def write(self, d): self.b.extend(d)


async def body_of(values):
    fd = FormData(boundary="b", default_to_multipart=True)
    for i, v in enumerate(values):
        fd.add_field(f"f{i}", v)
    w = fd()
    buf = Buf()
    await w.write(buf)
    return w.headers["Content-Type"], bytes(buf.b)


def reader(ct, body):
    s = streams.StreamReader(mock.Mock(_reading_paused=False), 2**16, loop=asyncio.get_event_loop())
    s.feed_data(body)
    s.feed_eof()
    return MultipartReader({"Content-Type": ct}, s)


async def main():
    bad = []
    values = ["l1\r\nl2\r\nl3", "second", "third"]
    ct, body = await body_of(values)

    # A: take the first line with readline(), the rest with read()
    r = reader(ct, body)
    p = await r.next()
    first = await p.readline()
    rest = bytes(await p.read())
    print("A: readline() ->", first, " read() ->", rest)
    if first + rest != values[0].encode():
        bad.append(f"A: readline()+read() returned {first + rest!r}, part content is {values[0].encode()!r}")

    # B: look at the first line of every part, then go on to the next part
    r = reader(ct, body)
    seen = []
    try:
        while (p := await r.next()) is not None:
            seen.append((p.name, await p.readline()))
    except Exception as e:
        bad.append(f"B: first-line-of-each-part loop failed after {seen}: {e!r}")
    else:
        if [n for n, _ in seen] != ["f0", "f1", "f2"]:
            bad.append(f"B: parts seen {seen}")
    print("B:", seen)

    # C: same with one-line parts (the whole content was returned by readline())
    ct, body = await body_of(["hello", "second", "third"])
    r = reader(ct, body)
    seen = []
    try:
        while (p := await r.next()) is not None:
            seen.append((p.name, await p.readline()))
    except Exception as e:
        bad.append(f"C: one-line parts: failed after {seen}: {e!r}")
    else:
        if [n for n, _ in seen] != ["f0", "f1", "f2"]:
            bad.append(f"C: parts seen {seen} (a part was swallowed)")
    print("C:", seen)

    for b in bad:
        print("VIOLATION", b)
    sys.exit(1 if bad else 0)


asyncio.run(main())
