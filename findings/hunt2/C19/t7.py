from common import *
import random, warnings
warnings.simplefilter("ignore")
async def one(seed):
    rng = random.Random(seed)
    n = rng.choice([10, 1000, 2**18-1, 2**18, 2**18+1, 2**18+77, 2**19+3])
    alpha = rng.choice([b" \t=\r\n.ab", b" \t", b"a \r\n", bytes(range(256))])
    data = bytes(rng.choice(alpha) for _ in range(n))
    te = rng.choice(["quoted-printable", "base64"])
    ce = rng.choice([None, "gzip", "deflate"])
    h = {"Content-Transfer-Encoding": te}
    if ce: h["Content-Encoding"] = ce
    w = MultipartWriter("mixed")
    w.append(io.BytesIO(data), h)
    body = await serialize(w)
    r = MultipartReader({"Content-Type": w.headers["Content-Type"]}, make_stream(body))
    p = await r.next()
    got = await p.read(decode=True)
    if bytes(got) != data: return f"DIFF {te} {ce} n={n} got {len(got)}"
async def main():
    for s in range(int(sys.argv[1]), int(sys.argv[2])):
        try: res = await one(s)
        except Exception as e: res = "EXC " + repr(e)
        if res: print(s, res)
asyncio.run(main())
