from common import *
print(aiohttp.__file__)
async def main():
    w = MultipartWriter("mixed", boundary="b")
    w.append("hello")
    w.append("second part")
    w.append("third")
    body = await serialize(w)
    print(body)
    r = MultipartReader({"Content-Type": w.headers["Content-Type"]}, make_stream(body))
    p = await r.next()
    print(await p.readline(), p.at_eof())
    try:
        p2 = await r.next()
        print("p2", p2 and await p2.read())
        p3 = await r.next()
        print("p3", p3 and await p3.read())
    except Exception as e:
        print("ERR", repr(e))
asyncio.run(main())
