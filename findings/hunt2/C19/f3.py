"""client_max_size=0 switches the body size limit off for request.read() and request.post()
(tests: test_app_max_client_size_none, test_make_too_big_request_limit_None), but request.multipart()
hands the 0 to BodyPartReader, whose read()/text()/json()/form() compare `len(data) > 0`:
every non-empty part is refused with 413 'Maximum request body size 0 exceeded'."""
import asyncio, sys
from unittest import mock
import aiohttp
from aiohttp import streams, web
from aiohttp.multipart import MultipartWriter
from aiohttp.test_utils import make_mocked_request

print(aiohttp.__file__)


class Buf:
    def __init__(self): self.b = bytearray()
    async def write(self, d): self.b.extend(d)


def stream(body):
    s = streams.StreamReader(mock.Mock(_reading_paused=False), 2**16, loop=asyncio.get_event_loop())
    s.feed_data(body)
    s.feed_eof()
    return s


async def main():
    w = MultipartWriter("form-data", boundary="b")
    w.append("hello").set_content_disposition("form-data", name="f")
    buf = Buf()
    await w.write(buf)
    body = bytes(buf.b)
    hdrs = {"Content-Type": w.headers["Content-Type"]}
    bad = []

    req = make_mocked_request("POST", "/", headers=hdrs, payload=stream(body), client_max_size=0)
    print("read()  with client_max_size=0:", len(await req.read()), "bytes, no limit")
    req = make_mocked_request("POST", "/", headers=hdrs, payload=stream(body), client_max_size=0)
    print("post()  with client_max_size=0:", dict(await req.post()))

    for api in ("read", "text", "form"):
        req = make_mocked_request("POST", "/", headers=hdrs, payload=stream(body), client_max_size=0)
        part = await (await req.multipart()).next()
        try:
            print(f"multipart part.{api}():", await getattr(part, api)())
        except web.HTTPRequestEntityTooLarge as e:
            bad.append(f"client_max_size=0 (no limit): part.{api}() of a 5-byte field raised 413: {e.text}")
    for b in bad:
        print("VIOLATION", b)
    sys.exit(1 if bad else 0)


asyncio.run(main())
