import asyncio, sys, io
import aiohttp
from aiohttp import multipart, streams, hdrs
from aiohttp.multipart import MultipartWriter, MultipartReader, BodyPartReader
from unittest import mock

class Buf:
    def __init__(self): self.b = bytearray()
    async def write(self, d): self.b.extend(d)
    async def write_eof(self, *a): pass
    async def drain(self): pass

async def serialize(w):
    buf = Buf()
    await w.write(buf)
    return bytes(buf.b)

def make_stream(data, segs=None, eof=True, limit=2**16):
    loop = asyncio.get_event_loop()
    proto = mock.Mock(_reading_paused=False)
    s = streams.StreamReader(proto, limit, loop=loop)
    if segs is None:
        s.feed_data(data)
    else:
        pos = 0
        for n in segs:
            if pos >= len(data): break
            s.feed_data(data[pos:pos+n]); pos += n
        if pos < len(data): s.feed_data(data[pos:])
    if eof: s.feed_eof()
    return s
