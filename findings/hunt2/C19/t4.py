from common import *
import tempfile, os
async def main():
    d = tempfile.mkdtemp()
    p = os.path.join(d, "a.csv")
    with open(p, "wb") as f: f.write(b"a,b\r\n1,2\r\n3,4\r\n")
    f = open(p)   # default text mode, universal newlines
    w = MultipartWriter("mixed", boundary="b")
    w.append(f)
    print("declared size", w.size)
    body = await serialize(w)
    print("written", len(body)); print(body)
asyncio.run(main())
