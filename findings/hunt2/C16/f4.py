"""C16 / f4: path scoping is computed on the percent-DECODED request path (URL.path)
while the cookie's Path attribute is kept as sent (encoded).

 (a) a cookie scoped with Path=/my%20app (what a server mounted at "/my app" sends, and
     what a browser matches against the request-target "/my%20app/...") is NEVER sent;
 (b) "%2F" in the request path is decoded to "/" before path-matching, so a cookie with
     Path=/admin is sent to the single-segment target /admin%2Fx (on the wire the path is
     "/admin%2Fx": "/admin" is a prefix but the next character is "%", not "/" -> no path-match);
 (c) the default-path (no Path attribute) is derived from the decoded path too: a response
     for /a%2Fb (one segment, default-path "/") stores the cookie under "/a", so it is not
     sent back to the site's other pages.
"""
import sys

import aiohttp
from aiohttp import CookieJar
from yarl import URL

print(aiohttp.__file__)
bad = []


def sent(jar, url):
    return sorted((k, m.value) for k, m in jar.filter_cookies(URL(url)).items())


# control: same history with a path that needs no quoting
jar = CookieJar()
jar.update_cookies_from_headers(["sid=1; Path=/myapp"], URL("https://example.com/myapp/login"))
assert sent(jar, "https://example.com/myapp/home") == [("sid", "1")]

# (a)
jar = CookieJar()
jar.update_cookies_from_headers(
    ["sid=1; Path=/my%20app"], URL("https://example.com/my%20app/login")
)
u = URL("https://example.com/my%20app/home")
got = sent(jar, str(u))
if got != [("sid", "1")]:
    bad.append(
        f"(a) cookie Path=/my%20app not sent to {u.raw_path!r} (request-target on the wire); got {got}"
    )

# (b)
jar = CookieJar()
jar.update_cookies_from_headers(["adm=1; Path=/admin"], URL("https://example.com/admin/"))
u = URL("https://example.com/admin%2Fx")
got = sent(jar, str(u))
if got:
    bad.append(f"(b) cookie Path=/admin sent to request-target {u.raw_path!r}: {got}")

# (c)
jar = CookieJar()
jar.update_cookies_from_headers(["c=1"], URL("https://example.com/a%2Fb"))
got = sent(jar, "https://example.com/other")
if got != [("c", "1")]:
    bad.append(
        "(c) response for /a%2Fb (default-path '/'): cookie stored under "
        f"{[k for k, v in jar.cookies.items() if v]} and not sent to /other; got {got}"
    )

if bad:
    print("VIOLATION")
    for b in bad:
        print(" -", b)
    sys.exit(1)
print("ok")
