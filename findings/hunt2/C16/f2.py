"""C16 / f2: an Expires value is only read as a whole when it has one of three hard-coded
shapes ("Wdy, DD Mon YYYY HH:MM:SS GMT|+hhmm", asctime).  Any other date the RFC 6265 5.1.1
algorithm (and CookieJar._parse_date itself) accepts - zone written "UTC", no zone, no
week-day - is cut at the first blank: Expires becomes "Thu," (invalid -> session cookie),
the next word is taken for a value-less cookie and parsing of the header STOPS.

Observable: the cookie a server expires is kept and sent for ever, and the attributes that
follow Expires (Secure, Path, Domain) are dropped.
"""
import sys

import aiohttp
from aiohttp import CookieJar
from yarl import URL

print(aiohttp.__file__)
bad = []


def sent(jar, url):
    return sorted((k, m.value) for k, m in jar.filter_cookies(URL(url)).items())


DATES = [
    "Thu, 01 Jan 1970 00:00:01 UTC",  # zone name other than GMT
    "Thu, 01 Jan 1970 00:00:01",  # no zone
    "01 Jan 1970 00:00:01 GMT",  # no week-day
    "Thu, 1 Jan 1970 0:00:01 GMT",  # one-digit hour
]
# control: the canonical shape deletes the cookie
jar = CookieJar()
jar.update_cookies_from_headers(["sid=secret; Path=/"], URL("https://example.com/"))
jar.update_cookies_from_headers(
    ["sid=x; Expires=Thu, 01 Jan 1970 00:00:01 GMT; Path=/"], URL("https://example.com/")
)
assert sent(jar, "https://example.com/") == []

for d in DATES:
    # the jar's own RFC date parser understands every one of them
    assert CookieJar._parse_date(d) == 1, d

    jar = CookieJar()
    jar.update_cookies_from_headers(["sid=secret; Path=/"], URL("https://example.com/"))
    jar.update_cookies_from_headers([f"sid=x; Expires={d}; Path=/"], URL("https://example.com/"))
    got = sent(jar, "https://example.com/")
    if got:
        bad.append(f"Expires={d!r} (1970): cookie not deleted, still sent: {got}")

    jar = CookieJar()
    jar.update_cookies_from_headers(
        [f"tok=secret; Expires={d.replace('1970', '2099')}; Secure; Path=/account"],
        URL("https://example.com/"),
    )
    got = sent(jar, "http://example.com/elsewhere")
    if got:
        bad.append(
            f"Expires={d.replace('1970', '2099')!r}; Secure; Path=/account: Secure and Path dropped, "
            f"sent over http to /elsewhere: {got}"
        )

if bad:
    print("VIOLATION")
    for b in bad:
        print(" -", b)
    sys.exit(1)
print("ok")
