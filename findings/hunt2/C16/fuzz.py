import aiohttp, random, sys, tempfile, os, types, time as _time
print(aiohttp.__file__)
import aiohttp.cookiejar as cj
from aiohttp import CookieJar
from yarl import URL
from aiohttp.helpers import is_ip_address

class FT:
    now = 1_700_000_000.0
    @staticmethod
    def time(): return FT.now
    gmtime = _time.gmtime
cj.time = FT

HOSTS = ["example.com","sub.example.com","a.sub.example.com","other.example.com","badexample.com","example.com.evil.org","com","127.0.0.1","ample.com", "sub.example.com."]
DOMS = [None,"example.com",".example.com","sub.example.com","com","other.example.com","a.sub.example.com","evil.org","ample.com","0.0.1","127.0.0.1",""]
PATHS = [None,"/","/a","/a/","/a/b","/ab","/a/b/","a","/a/b/c"]
RPATHS = ["/","/a","/a/","/a/b","/ab","/a/b/c","/abc/d","/a/bc", "", "/a/b/"]
NAMES = ["n1","n2"]

def dmatch(host, dom):
    if host == dom: return True
    return host.endswith("."+dom) and not is_ip_address(host)
def pmatch(rp, cp):
    if rp == cp: return True
    if rp.startswith(cp):
        if cp.endswith("/"): return True
        if rp[len(cp)] == "/": return True
    return False
def defpath(p):
    if not p.startswith("/"): return "/"
    if p.count("/")==1: return "/"
    return p[:p.rfind("/")]

class Ref:
    def __init__(s, unsafe): s.c={}; s.unsafe=unsafe
    def expire(s):
        for k in [k for k,v in s.c.items() if v["exp"] is not None and v["exp"]<=FT.now]: del s.c[k]
    def set(s, name, val, dom, path, secure, maxage, expires, url):
        host=url.raw_host
        if is_ip_address(host) and not s.unsafe: return
        if dom and dom.endswith("."): dom=None
        if dom:
            d=dom.lstrip(".") if dom.startswith(".") else dom
            d = dom[1:] if dom.startswith(".") else dom
            if not dmatch(host,d): return
            ho=False
        else:
            d=host; ho=True
        if not path or not path.startswith("/"): path=defpath(url.path)
        exp=None
        if maxage is not None: exp=FT.now+maxage
        elif expires is not None: exp=expires
        s.c[(name,d,path.rstrip("/"))]=dict(val=val,ho=ho,sec=secure,exp=exp,path=path)
        s.expire()
    def filter(s,url):
        s.expire()
        host=url.raw_host; out=set()
        if is_ip_address(host) and not s.unsafe: return out
        for (n,d,p),v in s.c.items():
            if v["ho"]:
                if host!=d: continue
            elif not dmatch(host,d): continue
            if not pmatch(url.path or "/",v["path"]): continue
            if v["sec"] and url.scheme!="https": continue
            out.add((n,v["val"]))
        return out
    def clear_domain(s,dom):
        for k in [k for k in s.c if dmatch(k[1],dom)]: del s.c[k]

import email.utils
def run(seed):
    r=random.Random(seed)
    unsafe=r.random()<0.3
    jar=CookieJar(unsafe=unsafe); ref=Ref(unsafe)
    hist=[]
    for step in range(r.randint(1,12)):
        op=r.random()
        if op<0.55:
            name=r.choice(NAMES); val="v%d"%r.randint(0,999)
            dom=r.choice(DOMS); path=r.choice(PATHS); sec=r.random()<0.3
            ma=None; ex=None
            t=r.random()
            if t<0.25: ma=r.choice([0,-1,5,100])
            elif t<0.5: ex=FT.now+r.choice([-10,5,100])
            host=r.choice(HOSTS); scheme=r.choice(["http","https"]); up=r.choice(RPATHS)
            url=URL(f"{scheme}://{host}{up}")
            h=f"{name}={val}"
            if dom is not None: h+=f"; Domain={dom}"
            if path is not None: h+=f"; Path={path}"
            if sec: h+="; Secure"
            if ma is not None: h+=f"; Max-Age={ma}"
            if ex is not None: h+="; Expires="+email.utils.formatdate(ex,usegmt=True)
            hist.append(("set",h,str(url)))
            jar.update_cookies_from_headers([h],url)
            ref.set(name,val,dom,path,sec,ma,int(ex) if ex is not None else None,url)
        elif op<0.7:
            d=r.choice([1,4,6,50,101]); FT.now+=d; hist.append(("adv",d))
        elif op<0.8:
            fd,p=tempfile.mkstemp(); os.close(fd)
            jar.save(p); jar=CookieJar(unsafe=unsafe); jar.load(p); os.unlink(p); hist.append(("saveload",))
        elif op<0.87:
            d=r.choice(["example.com","sub.example.com","com"]); jar.clear_domain(d); ref.clear_domain(d); hist.append(("clear_domain",d))
        elif op<0.9:
            jar.clear(); ref.c.clear(); hist.append(("clear",))
        # query
        for _ in range(3):
            host=r.choice(HOSTS); scheme=r.choice(["http","https"]); up=r.choice(RPATHS)
            url=URL(f"{scheme}://{host}{up}")
            got={(k,m.value) for k,m in jar.filter_cookies(url).items()}
            exp=ref.filter(url)
            expnames={}
            for n,v in exp: expnames.setdefault(n,set()).add(v)
            bad=None
            for n,v in got:
                if (n,v) not in exp: bad=("extra",n,v)
            for n,vs in expnames.items():
                if not any(g[0]==n for g in got): bad=("missing",n,vs)
            if bad:
                return seed,hist,str(url),bad,got,exp
    return None
seen={}
for seed in range(int(sys.argv[1]) if len(sys.argv)>1 else 20000):
    res=run(seed)
    if res:
        key=res[3][0]
        seen.setdefault(key,[]).append(res)
for k,v in seen.items():
    print(k,len(v))
    v.sort(key=lambda r: len(r[1]))
    for r in v[:6]: print("  ",r)
