"""C16 / f3: the Domain attribute is compared case-sensitively with the (lower-cased) host.
RFC 6265 5.2.3: "Convert the cookie-domain to lower case."  A Set-Cookie with
Domain=Example.COM from www.example.com is rejected as if it were a foreign domain:
 - the cookie is lost (never sent back), and
 - a deletion / overwrite that spells the domain with capitals is ignored, so the cookie the
   server expired keeps being sent.
"""
import sys

import aiohttp
from aiohttp import CookieJar
from yarl import URL

print(aiohttp.__file__)
bad = []


def sent(jar, url):
    return sorted((k, m.value) for k, m in jar.filter_cookies(URL(url)).items())


# control
jar = CookieJar()
jar.update_cookies_from_headers(["sid=1; Domain=example.com; Path=/"], URL("https://www.example.com/"))
assert sent(jar, "https://www.example.com/") == [("sid", "1")]
assert sent(jar, "https://example.com/") == [("sid", "1")]

jar = CookieJar()
jar.update_cookies_from_headers(["sid=1; Domain=Example.COM; Path=/"], URL("https://www.example.com/"))
got = sent(jar, "https://www.example.com/")
if got != [("sid", "1")]:
    bad.append(f"cookie with Domain=Example.COM set by www.example.com is dropped; sent back: {got}")

jar = CookieJar()
jar.update_cookies_from_headers(["sid=1; Domain=.Example.com; Path=/"], URL("https://example.com/"))
got = sent(jar, "https://example.com/")
if got != [("sid", "1")]:
    bad.append(f"cookie with Domain=.Example.com set by example.com itself is dropped; sent back: {got}")

# logout that spells the domain differently is ignored: expired cookie still sent
jar = CookieJar()
jar.update_cookies_from_headers(["sid=secret; Domain=example.com; Path=/"], URL("https://www.example.com/"))
jar.update_cookies_from_headers(
    ["sid=; Domain=EXAMPLE.COM; Path=/; Max-Age=0"], URL("https://www.example.com/logout")
)
got = sent(jar, "https://www.example.com/")
if got:
    bad.append(f"cookie expired with Domain=EXAMPLE.COM; Max-Age=0 is still sent: {got}")

if bad:
    print("VIOLATION")
    for b in bad:
        print(" -", b)
    sys.exit(1)
print("ok")
