"""C16 / f1: an attribute the Set-Cookie parser does not know (valueless flag such as
`SameParty`) makes it stop reading the header: every attribute AFTER it - Secure, Domain,
Path, Max-Age, Expires - is silently dropped.  RFC 6265 5.2: "ignore the cookie-av" (only that one).

Observable: a Secure cookie is sent over plain http, to paths outside its Path, and a
"delete" (Max-Age=0) is not honoured.
"""
import asyncio
import sys

import aiohttp
from aiohttp import CookieJar, web
from yarl import URL

print(aiohttp.__file__)
bad = []


def sent(jar, url):
    return sorted((k, m.value) for k, m in jar.filter_cookies(URL(url)).items())


# ---- jar level (this is exactly what ClientSession does with a response) -------------
def jar_level():
    # control: without the unknown flag everything is right
    jar = CookieJar()
    jar.update_cookies_from_headers(
        ["sid=secret; Secure; HttpOnly; Path=/account"], URL("https://example.com/login")
    )
    assert sent(jar, "http://example.com/account") == [], "control"
    assert sent(jar, "https://example.com/other") == [], "control"
    assert sent(jar, "https://example.com/account") == [("sid", "secret")], "control"

    jar = CookieJar()
    jar.update_cookies_from_headers(
        ["sid=secret; SameParty; Secure; HttpOnly; Path=/account"],
        URL("https://example.com/login"),
    )
    got = sent(jar, "http://example.com/account")
    if got:
        bad.append(f"Secure cookie sent over http:// (Secure after SameParty dropped): {got}")
    got = sent(jar, "https://example.com/other")
    if got:
        bad.append(f"cookie with Path=/account sent to /other (Path after SameParty dropped): {got}")

    # Domain after the unknown flag: the cookie silently becomes host-only
    jar = CookieJar()
    jar.update_cookies_from_headers(
        ["sid=secret; SameParty; Domain=example.com; Path=/"], URL("https://example.com/")
    )
    if sent(jar, "https://www.example.com/") != [("sid", "secret")]:
        bad.append("Domain=example.com after SameParty dropped: not sent to www.example.com")

    # deletion after the unknown flag: the cookie is not removed
    jar = CookieJar()
    jar.update_cookies_from_headers(["sid=secret; Path=/"], URL("https://example.com/"))
    jar.update_cookies_from_headers(
        ["sid=gone; SameParty; Max-Age=0; Path=/"], URL("https://example.com/")
    )
    got = sent(jar, "https://example.com/")
    if got:
        bad.append(f"cookie deleted with Max-Age=0 (after SameParty) is still sent: {got}")


# ---- end to end: the cookie really goes out on the wire over http --------------------
async def end_to_end():
    seen = []

    async def login(request):
        resp = web.Response(text="ok")
        resp.headers.add("Set-Cookie", "sid=secret; SameParty; Secure; Path=/account")
        return resp

    async def other(request):
        seen.append(request.headers.get("Cookie"))
        return web.Response(text="ok")

    app = web.Application()
    app.router.add_get("/login", login)
    app.router.add_get("/other", other)
    runner = web.AppRunner(app)
    await runner.setup()
    site = web.TCPSite(runner, "127.0.0.1", 0)
    await site.start()
    port = site._server.sockets[0].getsockname()[1]
    async with aiohttp.ClientSession(cookie_jar=CookieJar(unsafe=True)) as s:
        async with s.get(f"http://127.0.0.1:{port}/login"):
            pass
        async with s.get(f"http://127.0.0.1:{port}/other"):
            pass
    await runner.cleanup()
    if seen and seen[0]:
        bad.append(
            f"on the wire: plain-http request to /other carried Cookie: {seen[0]!r} "
            "(cookie was Secure; Path=/account)"
        )


jar_level()
asyncio.run(end_to_end())
if bad:
    print("VIOLATION")
    for b in bad:
        print(" -", b)
    sys.exit(1)
print("ok")
