"""extra (sibling of f3 / the repaired invalid-port case): requote_redirect_url=False and a Location that
contains a byte that is not UTF-8 (e.g. Latin-1 '/caf\xe9').  The header is decoded with
surrogateescape, URL(..., encoded=True) accepts it, every redirect guard passes, and the next hop
dies with a bare UnicodeEncodeError (http_writer serialising the request line) or, for a byte in the
host, a bare idna error out of the resolver - neither is a ClientError.
(With the default requote_redirect_url=True the byte is silently dropped: '/caf' is requested.)
"""
import asyncio, sys
import aiohttp
print("aiohttp from", aiohttp.__file__)
LOC = b""
async def handle(r, w):
    while True:
        try: head = await r.readuntil(b"\r\n\r\n")
        except Exception: break
        if head.startswith(b"GET /r "):
            w.write(b"HTTP/1.1 302 Found\r\nLocation: " + LOC + b"\r\nContent-Length: 0\r\n\r\n")
        else:
            w.write(b"HTTP/1.1 200 OK\r\nContent-Length: 2\r\n\r\nok")
        await w.drain()
    w.close()
async def main():
    global LOC
    srv = await asyncio.start_server(handle, "127.0.0.1", 0)
    port = srv.sockets[0].getsockname()[1]
    bad = 0
    for LOC in (b"/caf\xe9", b"/x?\xff=1", b"//h\xffst/"):
        async with aiohttp.ClientSession(requote_redirect_url=False) as s:
            try:
                async with s.get(f"http://127.0.0.1:{port}/r") as r:
                    res = f"{r.status} {r.url!s}"
            except aiohttp.ClientError as e:
                res = f"ClientError {type(e).__name__}"
            except Exception as e:
                res = f"BARE {type(e).__name__}: {e}"; bad += 1
        print(LOC, "->", res)
    sys.exit(1 if bad else 0)
asyncio.run(main())
