"""C17 / f2: a body-less GET (HEAD, OPTIONS) that is redirected by 301/302/307/308 is re-sent with
body framing it never had: "Content-Length: 0" and "Content-Type: application/octet-stream".

The "preserve the body" branch of the redirect code does `data = req._body`; for a request without a
body that is the shared _EMPTY_BODY *payload* (not None), so the next hop is built as if the caller
had passed data=b"".  (aiohttp 3.x sends the second GET without these headers.)
Expected: the request on hop 2 carries the same header names as the same request sent directly.
"""
import asyncio
import sys

import aiohttp
from aiohttp import web

print("aiohttp from", aiohttp.__file__)


async def main():
    log = []
    status = {"v": 302}

    async def handle(request):
        log.append((request.method, request.path, [k for k, _ in request.headers.items()],
                    dict(request.headers)))
        if request.path == "/r":
            return web.Response(status=status["v"], headers={"Location": "/target"})
        return web.Response(text="final")

    app = web.Application()
    app.router.add_route("*", "/{t:.*}", handle)
    runner = web.AppRunner(app)
    await runner.setup()
    site = web.TCPSite(runner, "127.0.0.1", 0)
    await site.start()
    base = "http://127.0.0.1:%d" % site._server.sockets[0].getsockname()[1]

    problems = []
    async with aiohttp.ClientSession() as s:
        for method in ("GET", "OPTIONS", "HEAD"):
            log.clear()
            async with s.request(method, base + "/target", allow_redirects=True) as r:
                await r.read()
            direct = log[-1][2]
            for st in (301, 302, 307, 308):
                status["v"] = st
                log.clear()
                async with s.request(method, base + "/r", allow_redirects=True) as r:
                    await r.read()
                m, p, names, hdrs = log[-1]
                assert p == "/target" and m == method, log
                extra = [n for n in names if n not in direct]
                if extra:
                    problems.append(
                        f"{method} redirected by {st}: hop 2 adds {[(n, hdrs[n]) for n in extra]} "
                        f"(direct {method} sends only {direct})"
                    )
    await runner.cleanup()
    if problems:
        print("VIOLATION:")
        for p in problems:
            print(" -", p)
        sys.exit(1)
    print("ok")


asyncio.run(main())
