"""extra: max_redirects=0 disables the limit (`if max_redirects and redirects >= max_redirects`):
a redirect loop is followed until the total timeout; undocumented ("Maximum number of redirects to
follow. TooManyRedirects is raised if the number is exceeded.")."""
import asyncio, sys
import aiohttp
from aiohttp import web
print("aiohttp from", aiohttp.__file__)
async def main():
    n = 0
    async def handle(request):
        nonlocal n; n += 1
        return web.Response(status=302, headers={"Location": "/r"})
    app = web.Application(); app.router.add_get("/r", handle)
    runner = web.AppRunner(app); await runner.setup()
    site = web.TCPSite(runner, "127.0.0.1", 0); await site.start()
    port = site._server.sockets[0].getsockname()[1]
    async with aiohttp.ClientSession(timeout=aiohttp.ClientTimeout(total=1)) as s:
        try:
            async with s.get(f"http://127.0.0.1:{port}/r", max_redirects=0): pass
            res = "returned"
        except Exception as e:
            res = type(e).__name__
    await runner.cleanup()
    print("max_redirects=0:", res, "requests made:", n)
    sys.exit(1 if n > 1 else 0)
asyncio.run(main())
