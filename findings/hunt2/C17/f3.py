"""C17 / f3: a redirect whose Location carries a user name with a percent-encoded colon
(`http://us%3Aer:pw@host/`) passes every guard of the redirect code (URL() parses, scheme is http,
origin() works) and then blows up at the top of the next loop iteration:
strip_auth_from_url() -> encode_basic_auth() raises a bare ValueError('A ":" is not allowed in login').

The caller of session.get() gets a plain ValueError for something the *server* sent, instead of
InvalidUrlRedirectClientError / any ClientError (same class of defect as the invalid-port Location).
Default settings (requote_redirect_url=True); same result with requote_redirect_url=False.
"""
import asyncio
import sys

import aiohttp
from aiohttp import web

print("aiohttp from", aiohttp.__file__)


async def main():
    loc = {}

    async def handle(request):
        if request.path == "/r":
            return web.Response(status=302, headers={"Location": loc["v"]})
        return web.Response(text="final")

    app = web.Application()
    app.router.add_route("*", "/{t:.*}", handle)
    runner = web.AppRunner(app)
    await runner.setup()
    site = web.TCPSite(runner, "127.0.0.1", 0)
    await site.start()
    port = site._server.sockets[0].getsockname()[1]

    problems = []
    for requote in (True, False):
        for tmpl in ("http://us%3Aer:pw@127.0.0.1:{p}/ok", "//a%3Ab@127.0.0.1:{p}/ok"):
            loc["v"] = tmpl.format(p=port)
            async with aiohttp.ClientSession(requote_redirect_url=requote) as s:
                try:
                    async with s.get(f"http://127.0.0.1:{port}/r") as r:
                        res = f"followed -> {r.status} {r.url}"
                except aiohttp.ClientError as e:
                    res = f"{type(e).__name__} (a ClientError, fine)"
                except Exception as e:
                    res = f"bare {type(e).__name__}: {e}"
                    problems.append(f"requote={requote} Location={loc['v']!r}: {res}")
            print(f"requote={requote} {loc['v']!r}: {res}")
    await runner.cleanup()
    if problems:
        print("VIOLATION: server-controlled Location escapes as a non-ClientError exception")
        for p in problems:
            print(" -", p)
        sys.exit(1)
    print("ok")


asyncio.run(main())
