"""C17 / f1: session-level Authorization / Cookie headers are copied into the CONNECT request sent
(in clear text) to an HTTP proxy - on the first hop and again on the hop that follows a
cross-origin redirect, i.e. after the redirect code has dropped them for the new origin.

Chain:  https://127.0.0.1:PA/r  --302-->  https://localhost:PB/x   (both through proxy=http://127.0.0.1:PP)
The secret is supplied as a ClientSession default header, meant for the TLS-protected origin A.
Expected: the proxy only ever sees "CONNECT host:port" (+ Host, + proxy_headers the caller gave);
          B does not get the secret (holds) and neither does the proxy (fails).
"""
import asyncio
import ssl
import sys

import aiohttp
from aiohttp import web

print("aiohttp from", aiohttp.__file__)
SECRET = "Bearer TOP-SECRET-TOKEN"
COOKIE = "sid=SECRET-COOKIE"


class TunnelProxy:
    """Minimal HTTP proxy: records the CONNECT head, then tunnels to 127.0.0.1:<port>."""

    def __init__(self):
        self.heads = []

    async def start(self):
        self.server = await asyncio.start_server(self.handle, "127.0.0.1", 0)
        self.port = self.server.sockets[0].getsockname()[1]
        return self

    async def handle(self, r, w):
        try:
            head = await r.readuntil(b"\r\n\r\n")
            self.heads.append(head)
            target = head.split(b"\r\n")[0].split()[1]
            port = int(target.rsplit(b":", 1)[1])
            ur, uw = await asyncio.open_connection("127.0.0.1", port)
            w.write(b"HTTP/1.1 200 Connection established\r\n\r\n")

            async def pipe(a, b):
                try:
                    while d := await a.read(65536):
                        b.write(d)
                        await b.drain()
                except Exception:
                    pass
                finally:
                    b.close()

            await asyncio.gather(pipe(r, uw), pipe(ur, w))
        except Exception:
            w.close()


async def tls_origin(script, log):
    async def handle(request):
        log.append(dict(request.headers))
        ent = script.get(request.path)
        if ent is None:
            return web.Response(text="final")
        return web.Response(status=ent[0], headers={"Location": ent[1]})

    app = web.Application()
    app.router.add_route("*", "/{t:.*}", handle)
    runner = web.AppRunner(app)
    await runner.setup()
    ctx = ssl.SSLContext(ssl.PROTOCOL_TLS_SERVER)
    ctx.load_cert_chain("examples/server.crt", "examples/server.key")
    site = web.TCPSite(runner, "127.0.0.1", 0, ssl_context=ctx)
    await site.start()
    return runner, site._server.sockets[0].getsockname()[1]


async def main():
    proxy = await TunnelProxy().start()
    script_a, log_a, log_b = {}, [], []
    ra, pa = await tls_origin(script_a, log_a)
    rb, pb = await tls_origin({}, log_b)
    script_a["/r"] = (302, f"https://localhost:{pb}/x")

    async with aiohttp.ClientSession(
        headers={"Authorization": SECRET, "Cookie": COOKIE}
    ) as s:
        async with s.get(
            f"https://127.0.0.1:{pa}/r",
            proxy=f"http://127.0.0.1:{proxy.port}",
            ssl=False,
        ) as r:
            await r.read()
            print("final:", r.status, r.url, "history:", [str(h.url) for h in r.history])

    await ra.cleanup()
    await rb.cleanup()

    problems = []
    assert log_a and log_a[0].get("Authorization") == SECRET  # A legitimately gets it
    if log_b and (log_b[0].get("Authorization") or "SECRET" in log_b[0].get("Cookie", "")):
        problems.append(f"origin B received the secret: {log_b[0]}")
    for i, head in enumerate(proxy.heads):
        print(f"proxy saw (hop {i + 1}):", head)
        if SECRET.encode() in head or COOKIE.encode() in head:
            problems.append(
                f"hop {i + 1}: the proxy received the session's Authorization/Cookie in the "
                f"clear-text CONNECT request: {head!r}"
            )
    if problems:
        print("\nVIOLATION:")
        for p in problems:
            print(" -", p)
        sys.exit(1)
    print("ok")


asyncio.run(main())
