"""extra (adjacent to C17, same request loop): ClientRequestBase._update_headers() does
`headers.pop(hdrs.HOST, host)` on the CIMultiDict that _request() shares between loop iterations, so a
caller-supplied Host header is sent on the first attempt only: the transparent retry after a dropped
keep-alive connection (and any same-origin redirect hop) goes out with Host taken from the URL."""
import asyncio, sys
import aiohttp
print("aiohttp from", aiohttp.__file__)
heads = []
async def handle(r, w):
    while True:
        try: head = await r.readuntil(b"\r\n\r\n")
        except Exception: break
        heads.append(head)
        if len(heads) == 2: break      # stale keep-alive connection: drop without answering
        w.write(b"HTTP/1.1 200 OK\r\nContent-Length: 2\r\n\r\nok"); await w.drain()
    w.close()
async def main():
    srv = await asyncio.start_server(handle, "127.0.0.1", 0)
    port = srv.sockets[0].getsockname()[1]
    async with aiohttp.ClientSession() as s:
        for i in range(2):
            async with s.get(f"http://127.0.0.1:{port}/", headers={"Host": "virtual.example"}) as r:
                await r.read()
    hosts = [h.split(b"\r\n")[1] for h in heads]
    print(hosts)
    sys.exit(1 if any(h != b"Host: virtual.example" for h in hosts) else 0)
asyncio.run(main())
