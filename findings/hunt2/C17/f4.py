"""C17 / f4: POST with expect100=True redirected by 301/302/303: the body is dropped and the method
becomes GET, but the body's `Expect: 100-continue` handshake is kept.  Hop 2 goes out as a body-less
GET carrying `Expect: 100-continue` (RFC 9110 10.1.1: a client MUST NOT generate a 100-continue
expectation in a request that does not include content), the client's writer task then sits waiting
for a `100 Continue` that a server has no reason to send, gets cancelled when the response ends and
closes the connection ("body hasn't been sent"), so the keep-alive connection is thrown away.

Same family as the repaired chunked case: "the body is dropped, so is its framing" - expect100 was
left out.  Expected: hop 2 has no Expect header and its connection is returned to the pool.
"""
import asyncio
import sys

import aiohttp

print("aiohttp from", aiohttp.__file__)
heads = []
STATUS = 303


async def handle(r, w):
    while True:
        try:
            head = await r.readuntil(b"\r\n\r\n")
        except Exception:
            break
        heads.append(head)
        if head.startswith(b"POST /r "):
            # the server does not want the body: final answer instead of 100 Continue
            w.write(
                b"HTTP/1.1 %d Redirect\r\nLocation: /x\r\nContent-Length: 0\r\n"
                b"Connection: close\r\n\r\n" % STATUS
            )
            await w.drain()
            break
        w.write(b"HTTP/1.1 200 OK\r\nContent-Length: 2\r\n\r\nok")
        await w.drain()
    w.close()


async def main():
    global STATUS
    srv = await asyncio.start_server(handle, "127.0.0.1", 0)
    port = srv.sockets[0].getsockname()[1]
    problems = []
    for STATUS in (301, 302, 303):
        heads.clear()
        conn = aiohttp.TCPConnector()
        async with aiohttp.ClientSession(connector=conn) as s:
            async with s.post(
                f"http://127.0.0.1:{port}/r", data=b"0123456789", expect100=True
            ) as r:
                assert r.status == 200 and await r.read() == b"ok"
            await asyncio.sleep(0.05)
            pooled = sum(len(v) for v in conn._conns.values())
        hop2 = heads[1]
        print(STATUS, "hop 2:", hop2)
        lower = hop2.lower()
        if hop2.startswith(b"GET ") and b"\r\nexpect:" in lower:
            has_body = b"content-length" in lower or b"transfer-encoding" in lower
            problems.append(
                f"{STATUS}: hop 2 is a GET with 'Expect: 100-continue' and "
                f"{'a' if has_body else 'no'} body; connection pooled afterwards: {pooled} (expected 1)"
            )
    if problems:
        print("VIOLATION:")
        for p in problems:
            print(" -", p)
        sys.exit(1)
    print("ok")


asyncio.run(main())
