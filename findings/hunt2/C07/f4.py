"""C07 / f4: DigestAuthMiddleware keeps the connection of the 401 challenge
acquired while it re-sends the request, so the retry needs a SECOND slot.

With limit=1 (or limit_per_host=1, or N concurrent requests on limit=N) the
retry queues for a slot that only its own, still unreleased, 401 response can
free: the request dead-locks on itself until the timeout expires, although the
only connection "in use" belongs to a response nobody is going to read.
The 401 response is only released when the variable is rebound after the retry
returned (via ClientResponse.__del__).  It happens whenever the 401 body has
not been received completely when the headers are parsed (a body larger than
the socket/stream buffers, or a server that sends the body a bit later).
"""
import asyncio
import sys

import aiohttp
from aiohttp import DigestAuthMiddleware, web

print(aiohttp.__file__)

WAIT = 3.0


async def main() -> int:
    body_401 = b"<html>" + b"x" * (4 * 1024 * 1024) + b"</html>"

    async def handler(request: web.Request) -> web.Response:
        if "Authorization" not in request.headers:
            return web.Response(
                status=401,
                body=body_401,
                headers={
                    "WWW-Authenticate": 'Digest realm="r", nonce="abc", qop="auth", algorithm=MD5'
                },
            )
        return web.Response(text="authenticated")

    app = web.Application()
    app.router.add_get("/", handler)
    runner = web.AppRunner(app)
    await runner.setup()
    site = web.TCPSite(runner, "127.0.0.1", 0)
    await site.start()
    port = site._server.sockets[0].getsockname()[1]
    url = f"http://127.0.0.1:{port}/"

    rc = 0
    for n in (1, 3):
        connector = aiohttp.TCPConnector(limit=n)
        async with aiohttp.ClientSession(connector=connector) as session:

            async def go() -> str:
                # one middleware instance per request: no shared state involved
                mw = DigestAuthMiddleware("user", "pass")
                async with session.get(url, middlewares=(mw,)) as r:
                    return f"{r.status} {await r.text()}"

            tasks = [asyncio.ensure_future(go()) for _ in range(n)]
            await asyncio.wait(tasks, timeout=WAIT)
            stuck = [t for t in tasks if not t.done()]
            if stuck:
                rc = 1
                print(
                    f"limit={n}, {n} concurrent request(s): VIOLATION: {len(stuck)} request(s) "
                    f"still waiting after {WAIT}s: in use={len(connector._acquired)}/{n} "
                    f"(all held by unread 401 responses), "
                    f"retries queued for a slot={sum(len(v) for v in connector._waiters.values())}"
                )
            else:
                print(f"limit={n}: ok:", [t.result() for t in tasks])
            for t in stuck:
                t.cancel()
            await asyncio.wait(tasks)
    await runner.cleanup()
    return rc


sys.exit(asyncio.run(main()))
