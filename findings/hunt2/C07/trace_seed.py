import asyncio, sys, os
os.environ['NOPOST']='1'
sys.argv=['x','0','0']
import importlib.util
src=open('_hunt/fuzz.py').read().replace("asyncio.run(main())","")
exec(compile(src,'fuzz','exec'))
seed=int(os.environ['SEED'])
# instrument
orig_connect=FC.connect
async def connect(self, req, traces, timeout):
    t=asyncio.current_task().get_name()
    print(t,'connect start',req.connection_key.host,'closed=',self._closed,'acq=',len(self._acquired))
    try:
        r=await orig_connect(self, req, traces, timeout)
        print(t,'connect ok'); return r
    except BaseException as e:
        print(t,'connect exc',repr(e)); raise
FC.connect=connect
ow=FC._wait_for_available_connection
async def w(self,key,traces):
    t=asyncio.current_task().get_name(); print(t,'wait',key.host)
    try: return await ow(self,key,traces)
    finally: print(t,'wait done closed=',self._closed, 'avail',self._available_connections(key))
FC._wait_for_available_connection=w
oc=FC._close_immediately
def ci(self,**kw):
    print('CLOSE acq=',len(self._acquired),'waiters',{k.host:len(v) for k,v in self._waiters.items()}); return oc(self,**kw)
FC._close_immediately=ci
orel=FC._release
def rel(self,key,proto,should_close=False):
    print('release',key.host,'closed=',self._closed); return orel(self,key,proto,should_close=should_close)
FC._release=rel
print(asyncio.run(run(seed)))
