import asyncio, random, sys, types, traceback
import aiohttp
from aiohttp.connector import BaseConnector, Connection
from aiohttp.client_reqrep import ConnectionKey
from aiohttp import ClientTimeout
print(aiohttp.__file__)

class FakeTransport:
    def __init__(self): self._closing=False
    def is_closing(self): return self._closing
    def close(self): self._closing=True
    def abort(self): self._closing=True
    def get_extra_info(self,*a,**k): return None

class FakeProto:
    def __init__(self, key):
        self.key=key; self.transport=FakeTransport(); self.should_close=False; self.closed=None
        self.was_closed=False
    def is_connected(self): return self.transport is not None and not self.transport.is_closing()
    def close(self):
        self.was_closed=True
        if self.transport is not None:
            self.transport.close(); self.transport=None
    abort=close

import os
NOPOST=os.environ.get('NOPOST')=='1'

class FC(BaseConnector):
    def __init__(self, rng, **kw):
        super().__init__(**kw); self.rng=rng; self.created=[]; self.viol=[]
    def check(self, where):
        if self._closed: return
        if self._limit and len(self._acquired)>self._limit:
            self.viol.append(f"limit exceeded at {where}: {len(self._acquired)}>{self._limit}")
        if self._limit_per_host:
            for k,s in self._acquired_per_host.items():
                if len(s)>self._limit_per_host:
                    self.viol.append(f"per-host exceeded at {where}: {k.host} {len(s)}")
    async def _create_connection(self, req, traces, timeout):
        self.check("create")
        for _ in range(self.rng.randrange(0,4)):
            await asyncio.sleep(0)
            self.check("create")
        if self.rng.random()<0.2:
            raise OSError("boom")
        p=FakeProto(req.connection_key); self.created.append(p)
        return p

class FTrace:
    def __init__(self, rng, conn, fail): self.rng=rng; self.c=conn; self.fail=fail
    async def _x(self, name):
        self.c.check(name)
        for _ in range(self.rng.randrange(0,3)):
            await asyncio.sleep(0); self.c.check(name)
        if self.fail and self.rng.random()<0.1: raise RuntimeError("trace "+name)
    async def send_connection_queued_start(self): await self._x("qs")
    async def send_connection_queued_end(self): await self._x("qe")
    async def send_connection_create_start(self): await self._x("cs")
    async def send_connection_create_end(self): await self._x("ce")
    async def send_connection_reuseconn(self): await self._x("reuse")

def mkreq(h):
    return types.SimpleNamespace(connection_key=ConnectionKey(f"h{h}",80,False,True,None,None,None), proxy=None)

async def run(seed, verbose=False):
    rng=random.Random(seed)
    N=rng.randrange(2,8); H=rng.randrange(1,4); L=rng.choice([0,1,1,2,3]); Lh=rng.choice([0,0,1,2])
    use_tr=rng.random()<0.6; fail_tr=rng.random()<0.3
    do_close=rng.random()<0.15
    c=FC(rng, limit=L, limit_per_host=Lh, force_close=rng.random()<0.2)
    log=[]
    async def worker(i):
        for rep in range(rng.randrange(1,4)):
            if c._closed and NOPOST: return
            req=mkreq(rng.randrange(H))
            traces=[FTrace(rng,c,fail_tr) for _ in range(rng.randrange(1,3))] if use_tr else []
            to=ClientTimeout(connect=rng.choice([None,None,None,0.0005,0.002]))
            try:
                conn=await c.connect(req, traces, to)
            except (OSError, RuntimeError, asyncio.TimeoutError, aiohttp.ClientConnectionError) as e:
                continue
            c.check("held")
            try:
                for _ in range(rng.randrange(0,5)):
                    await asyncio.sleep(0)
                if rng.random()<0.1: conn.protocol.should_close=True
                if rng.random()<0.1 and conn.protocol.transport: conn.protocol.transport.close()
            finally:
                if rng.random()<0.3: conn.close()
                else: conn.release()
    tasks=[asyncio.ensure_future(worker(i)) for i in range(N)]
    async def chaos():
        for _ in range(rng.randrange(0,30)):
            await asyncio.sleep(0)
            if rng.random()<0.15:
                t=rng.choice(tasks)
                t.cancel()
        if do_close:
            await c.close()
    ch=asyncio.ensure_future(chaos())
    done,pending=await asyncio.wait(tasks+[ch], timeout=2.0)
    problems=list(c.viol)
    if pending:
        problems.append(f"HANG: {len(pending)} tasks pending; acquired={len(c._acquired)} waiters={ {k.host:len(v) for k,v in c._waiters.items()} } avail={ {k.host:c._available_connections(k) for k in c._waiters} }")
        for t in pending: t.cancel()
        await asyncio.wait(pending, timeout=1)
    if not c._closed:
        if c._acquired: problems.append(f"acquired left: {c._acquired}")
        if any(c._acquired_per_host.values()): problems.append(f"acquired_per_host left")
        if c._acquired_per_host and not any(c._acquired_per_host.values()): problems.append("empty per-host sets left")
        if c._waiters: problems.append(f"waiters left {dict(c._waiters)}")
        pooled={p for d in c._conns.values() for p,_ in d}
        for p in c.created:
            if not p.was_closed and p not in pooled: problems.append("proto leaked (not closed, not pooled)")
        await c.close()
    for p in c.created:
        if not p.was_closed: problems.append("proto open after close()")
    for t in tasks:
        if t.done() and not t.cancelled() and t.exception():
            problems.append("task exc: "+repr(t.exception()))
    return (N,H,L,Lh,use_tr,fail_tr,do_close), problems

async def main():
    start=int(sys.argv[1]) if len(sys.argv)>1 else 0
    n=int(sys.argv[2]) if len(sys.argv)>2 else 2000
    bad=0
    for s in range(start,start+n):
        cfg,pr=await run(s)
        if pr:
            bad+=1
            print("seed",s,cfg)
            for p in sorted(set(pr))[:6]: print("   ",p)
            if bad>15: break
    print("done bad=",bad)
asyncio.run(main())
