"""C07 / f3: connector.close() / session.close() neither closes the connection nor
returns while a request body is being uploaded to a peer that has stopped reading.

_close_immediately() calls proto.close() -> transport.close() on the connections
in `_acquired`.  A graceful transport.close() first waits for the write buffer to
be flushed; with megabytes of request body buffered for a peer that does not
read, that never happens: connection_lost() is never called, the `proto.closed`
future that close() gathers never completes, so `await session.close()` blocks,
the socket stays open, and the request itself is not failed either.
(The cancel/timeout path of the body writer got an abort() for exactly this
reason; the connector's own close path did not.)
"""
import asyncio
import sys

import aiohttp

print(aiohttp.__file__)

WAIT = 3.0


async def main() -> int:
    peers = []

    async def on_conn(reader, writer):
        peers.append(writer)
        writer.transport.pause_reading()  # the peer never reads the request

    srv = await asyncio.start_server(on_conn, "127.0.0.1", 0)
    port = srv.sockets[0].getsockname()[1]
    url = f"http://127.0.0.1:{port}/"

    connector = aiohttp.TCPConnector()
    session = aiohttp.ClientSession(connector=connector)

    async def post() -> str:
        try:
            async with session.post(url, data=b"x" * (32 * 1024 * 1024)) as r:
                return f"status {r.status}"
        except Exception as e:
            return f"failed with {e!r}"

    req = asyncio.ensure_future(post())
    transport = None
    for _ in range(1000):
        await asyncio.sleep(0.01)
        for proto in connector._acquired:
            tr = getattr(proto, "transport", None)
            if tr is not None and tr.get_write_buffer_size() > 1024 * 1024:
                transport = tr
        if transport is not None:
            break
    assert transport is not None, "upload did not stall"
    sock = transport.get_extra_info("socket")
    print("upload stalled with", transport.get_write_buffer_size(), "bytes buffered")

    rc = 0
    closer = asyncio.ensure_future(session.close())
    await asyncio.wait([closer], timeout=WAIT)
    if not closer.done():
        rc = 1
        print(
            f"VIOLATION: session.close() has not returned after {WAIT}s; "
            f"socket fileno={sock.fileno()} (still open), "
            f"{transport.get_write_buffer_size()} bytes still buffered, "
            f"request task done={req.done()}"
        )
    else:
        await asyncio.sleep(0.1)
        print("close() returned; socket fileno", sock.fileno(), "request:", req.done() and req.result())
        if sock.fileno() != -1:
            rc = 1
            print("VIOLATION: socket still open after close()")

    # tidy up so the script can exit
    transport.abort()
    await asyncio.wait([closer, req], timeout=2)
    for w in peers:
        w.transport.abort()
    srv.close()
    return rc


sys.exit(asyncio.run(main()))
