import sys, runpy
from aiohttp import client_middleware_digest_auth as D
oa=D.DigestAuthMiddleware._authenticate
def a(self, response):
    r=oa(self,response)
    if r: response.release()
    return r
D.DigestAuthMiddleware._authenticate=a
sys.argv=[sys.argv[1]]+sys.argv[2:]
runpy.run_path(sys.argv[0], run_name="__main__")
