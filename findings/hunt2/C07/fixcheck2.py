# scratch: validate the suggested fix for f1 by monkeypatching (NOT part of the demonstration)
import asyncio, sys, runpy
from aiohttp import connector as C
B=C.BaseConnector
oi=B.__init__
def init(self,*a,**k):
    oi(self,*a,**k); self._handed={}
B.__init__=init
def avail(self,key):
    total_remain=1
    if self._limit and (total_remain:=self._limit-len(self._acquired)-len(self._handed))<=0:
        return total_remain
    if host_remain:=self._limit_per_host:
        if acquired:=self._acquired_per_host.get(key):
            host_remain-=len(acquired)
        host_remain-=sum(1 for k in self._handed.values() if k==key)
        if total_remain>host_remain: return host_remain
    return total_remain
B._available_connections=avail
def rw(self):
    if not self._waiters: return
    import random
    queues=list(self._waiters); random.shuffle(queues)
    for key in queues:
        if self._available_connections(key)<1: continue
        waiters=self._waiters[key]
        while waiters:
            waiter,_=waiters.popitem(last=False)
            if not waiter.done():
                waiter.set_result(None); self._handed[waiter]=key
                return
B._release_waiter=rw
async def wfac(self,key,traces):
    attempts=0
    while True:
        fut=self._loop.create_future()
        kw=self._waiters[key]; kw[fut]=None
        if attempts: kw.move_to_end(fut,last=False)
        try:
            try:
                if traces:
                    for t in traces: await t.send_connection_queued_start()
                await fut
            finally:
                self._handed.pop(fut,None)
            if traces:
                for t in traces: await t.send_connection_queued_end()
        except BaseException:
            if fut.done() and not fut.cancelled(): self._release_waiter()
            raise
        finally:
            kw.pop(fut,None)
            if not self._waiters.get(key,True): del self._waiters[key]
        if self._available_connections(key)>0: break
        attempts+=1
        self._release_waiter()
B._wait_for_available_connection=wfac
sys.argv=[sys.argv[1]]+sys.argv[2:]
runpy.run_path(sys.argv[0], run_name="__main__")
