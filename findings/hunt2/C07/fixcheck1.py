# scratch: validate suggested fix for f2 via monkeypatch (not part of the demonstration)
import sys, runpy
from aiohttp import connector as C
from aiohttp.client_exceptions import ClientConnectionError
B=C.BaseConnector
oc=B.connect
async def connect(self, req, traces, timeout):
    if self._closed: raise ClientConnectionError("Connector is closed.")
    return await oc(self, req, traces, timeout)
B.connect=connect
ow=B._wait_for_available_connection
oa=B._available_connections
def avail(self,key):
    if self._closed: return 1   # let a woken waiter fall through to the closed check
    return oa(self,key)
B._available_connections=avail
for cls in (B, C.TCPConnector):
    pass
oci=B._close_immediately
def ci(self,**kw):
    try: return oci(self,**kw)
    finally: self._acquired_per_host.clear()
B._close_immediately=ci
sys.argv=[sys.argv[1]]+sys.argv[2:]
runpy.run_path(sys.argv[0], run_name="__main__")
