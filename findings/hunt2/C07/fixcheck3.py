import sys, runpy
from aiohttp import connector as C
B=C.BaseConnector
oci=B._close_immediately
def ci(self,**kw):
    if not self._closed:
        for proto in self._acquired:
            tr=proto.transport
            if tr is not None and tr.get_write_buffer_size():
                proto.abort()
    return oci(self,**kw)
B._close_immediately=ci
sys.argv=[sys.argv[1]]+sys.argv[2:]
runpy.run_path(sys.argv[0], run_name="__main__")
