"""C07 / f2: a queued waiter is starved for ever by a task that issues requests back to back.

limit=1.  Task A runs `while True: async with session.get(url) as r: await r.read()`.
Task B issues ONE request and has to queue for the slot.
Every time A's response completes the slot is released and B *is* woken
(_release_waiter), but the slot is not reserved for B: A's task is scheduled
first, re-enters connect(), sees _available_connections() > 0 and takes the
slot again through the pool fast path.  B wakes up, finds no capacity and
re-queues.  This repeats for as long as A keeps going, so B never gets a
connection although capacity became free hundreds of times.
"""
import asyncio
import sys

import aiohttp
from aiohttp import web

print(aiohttp.__file__)

WAIT = 3.0


async def main() -> int:
    async def handler(request: web.Request) -> web.Response:
        return web.Response(text="ok")

    app = web.Application()
    app.router.add_get("/", handler)
    runner = web.AppRunner(app)
    await runner.setup()
    site = web.TCPSite(runner, "127.0.0.1", 0)
    await site.start()
    port = site._server.sockets[0].getsockname()[1]
    url = f"http://127.0.0.1:{port}/"

    rc = 0
    for kw in ({"limit": 1}, {"limit": 10, "limit_per_host": 1}):
        connector = aiohttp.TCPConnector(**kw)
        async with aiohttp.ClientSession(connector=connector) as session:
            done_by_a = 0
            stop = False

            async def task_a() -> None:
                nonlocal done_by_a
                while not stop:
                    async with session.get(url) as r:
                        await r.read()
                    done_by_a += 1

            async def task_b() -> int:
                async with session.get(url) as r:
                    await r.read()
                return done_by_a

            a = asyncio.ensure_future(task_a())
            while done_by_a < 3:
                await asyncio.sleep(0.01)
            before = done_by_a
            b = asyncio.ensure_future(task_b())
            try:
                at = await asyncio.wait_for(b, WAIT)
                print(f"{kw}: ok, B served after A completed {at - before} more request(s)")
            except asyncio.TimeoutError:
                print(
                    f"{kw}: VIOLATION: B waited {WAIT}s for a slot and never got one, "
                    f"while the slot was released and re-taken {done_by_a - before} times by A"
                )
                rc = 1
            stop = True
            await a
    await runner.cleanup()
    return rc


sys.exit(asyncio.run(main()))
