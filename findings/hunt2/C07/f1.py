"""C07 / f1: requests that are in flight when the session/connector is closed
hang as waiters of the CLOSED connector instead of failing (limit_per_host set).

TCPConnector(limit_per_host=N), N idempotent requests (GET) to one host are
waiting for their responses, then `await session.close()`.

close() closes the N connections.  Each request sees ServerDisconnectedError,
and because GET is idempotent ClientSession retries it once -> connect() is
entered on the closed connector.  connect() never looks at `_closed` before it
consults the limits; close() cleared `_acquired` but not `_acquired_per_host`,
and `_release()` is a no-op once closed, so the per-host set still holds the N
dead connections: "no capacity" -> the request is queued in `_waiters` AFTER
close() has cancelled the waiters it knew about.  Nobody ever wakes it: the
request hangs until its total timeout (5 min by default, for ever with
total=None) although the connector it waits on is closed.
"""
import asyncio
import sys

import aiohttp
from aiohttp import web

print(aiohttp.__file__)

WAIT = 3.0


async def scenario(base: str, in_handler: list, n: int) -> int:
    connector = aiohttp.TCPConnector(limit_per_host=n)
    session = aiohttp.ClientSession(connector=connector)

    async def get() -> str:
        try:
            async with session.get(base + "/slow") as r:
                await r.read()
                return f"status {r.status}"
        except Exception as e:
            return f"failed with {e!r}"

    del in_handler[:]
    reqs = [asyncio.ensure_future(get()) for _ in range(n)]
    while len(in_handler) < n:  # all n requests are being handled by the server
        await asyncio.sleep(0.01)
    await asyncio.sleep(0.05)

    await session.close()
    assert connector.closed

    await asyncio.wait(reqs, timeout=WAIT)
    rc = 0
    for i, t in enumerate(reqs):
        if t.done():
            print(f"limit_per_host={n}: request {i}: {t.result()}")
        else:
            rc = 1
            print(
                f"limit_per_host={n}: VIOLATION: request {i} still pending {WAIT}s after "
                f"session.close() returned; connector.closed={connector.closed}, "
                f"waiters queued on it={sum(len(v) for v in connector._waiters.values())}, "
                f"_acquired_per_host={[len(v) for v in connector._acquired_per_host.values()]}"
            )
    for t in reqs:
        t.cancel()
    await asyncio.wait(reqs)
    return rc


async def main() -> int:
    release = asyncio.Event()
    in_handler: list = []

    async def slow(request: web.Request) -> web.Response:
        in_handler.append(1)
        await release.wait()
        return web.Response(text="slow")

    app = web.Application()
    app.router.add_get("/slow", slow)
    runner = web.AppRunner(app)
    await runner.setup()
    site = web.TCPSite(runner, "127.0.0.1", 0)
    await site.start()
    port = site._server.sockets[0].getsockname()[1]
    base = f"http://127.0.0.1:{port}"

    rc = 0
    rc |= await scenario(base, in_handler, 1)
    rc |= await scenario(base, in_handler, 2)
    release.set()
    await runner.cleanup()
    return rc


sys.exit(asyncio.run(main()))
