"""C01 finding 3: an HTTP/1.0 request with Transfer-Encoding keeps the connection open.

RFC 9112 section 6.1: "A server or client that receives an HTTP/1.0 message containing a
Transfer-Encoding header field MUST treat the message as if the framing is faulty, even
if a Content-Length is present, and close the connection after processing the message.
The message sender might have retained a portion of the message, in transfer, that could
be misinterpreted by a later request."

aiohttp de-chunks the HTTP/1.0 body, honours `Connection: keep-alive` and dispatches the
bytes that follow on the same connection as a second request.
"""
import asyncio
import sys

from common import banner, exchange, statuses

FIRST = (
    b"POST /first HTTP/1.0\r\nHost: h\r\nConnection: keep-alive\r\n"
    b"Transfer-Encoding: chunked\r\n\r\n"
    b"3\r\nabc\r\n0\r\n\r\n"
)
SECOND = b"GET /second HTTP/1.1\r\nHost: h\r\n\r\n"


def main():
    banner()
    handled, raw, _ = asyncio.run(exchange([FIRST + SECOND]))
    print("handled :", handled)
    print("statuses:", statuses(raw), "tail:", raw[-9:])
    first_resp = raw.split(b"\r\n\r\n", 1)[0]
    print("first response head:", first_resp)
    paths = [p for _, p, _ in handled]
    if "/second" in paths or len(statuses(raw)) > 1:
        print(
            "FAIL: HTTP/1.0 message with Transfer-Encoding did not end the connection; "
            "the bytes behind it were dispatched as request", paths[1:]
        )
        sys.exit(1)
    # also acceptable: a 400 for the first message
    sys.exit(0)


main()
