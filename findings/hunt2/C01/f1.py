"""C01 finding 1: a chunk-size line that holds a non-ASCII byte is not answered at all.

`POST ... Transfer-Encoding: chunked` followed by the chunk-size line b"\xff\r\n" is
malformed chunk framing and has to be answered with a 4xx.  The payload parser builds
its TransferEncodingError message with bytes.decode("ascii", "surrogateescape"), so the
message holds a lone surrogate; web_protocol turns the message into the text of the 400
response, Response(text=...) cannot encode it, UnicodeEncodeError escapes
_handle_request(), start() logs "Unhandled exception" and drops the connection: the
client gets zero bytes.  (Any other bad chunk size, e.g. b"zz", gets a proper 400.)
"""
import asyncio
import sys

from common import banner, exchange, statuses

HEAD = b"POST /upload HTTP/1.1\r\nHost: h\r\nTransfer-Encoding: chunked\r\n\r\n"


def main():
    banner()
    failed = False

    # control: ASCII garbage as the chunk size -> 400
    handled, raw, logs = asyncio.run(exchange([HEAD + b"zz\r\n"]))
    print("control  b'zz'   ->", statuses(raw), raw[-5:])
    if statuses(raw) != [400]:
        print("unexpected: control case is not answered with 400")

    # the finding: one non-ASCII byte as the chunk size
    handled, raw, logs = asyncio.run(exchange([HEAD + b"\xff\r\n"]))
    print("finding  b'\\xff' ->", statuses(raw), raw[:80])
    for line in logs:
        print("   server log:", line[:200])
    st = statuses(raw)
    if not st or not (400 <= st[0] < 500):
        print(
            "FAIL: malformed chunk size b'\\xff' was not answered with a client error: "
            f"statuses={st}, bytes received={raw!r}"
        )
        failed = True

    # side observation (not counted): with the chunk-size line in a second TCP segment the
    # handler already awaits the body; any bad chunk size (b"zz" as well) then ends in a
    # 500 Internal Server Error instead of a 4xx, because RequestPayloadError is not mapped.
    for bad in (b"zz", b"\xff"):
        handled, raw, logs = asyncio.run(exchange([HEAD, bad + b"\r\n"]))
        print("side note: split, chunk size", bad, "->", statuses(raw))

    sys.exit(1 if failed else 0)


main()
