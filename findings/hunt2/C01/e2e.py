import asyncio, sys
import aiohttp
from aiohttp import web

async def run(segments, delay=0.05, handler=None, read_timeout=1.0, app_kwargs=None, runner_kwargs=None):
    """Send segments to a real server; return (list of handled (method, path, body)), raw response bytes)."""
    seen = []
    async def default(request):
        body = await request.read()
        seen.append((request.method, request.path_qs, body))
        return web.Response(text="ok:" + request.path)
    app = web.Application(**(app_kwargs or {}))
    app.router.add_route("*", "/{tail:.*}", handler or default)
    runner = web.AppRunner(app, **(runner_kwargs or {}))
    await runner.setup()
    site = web.TCPSite(runner, "127.0.0.1", 0)
    await site.start()
    port = site._server.sockets[0].getsockname()[1]
    r, w = await asyncio.open_connection("127.0.0.1", port)
    out = b""
    for seg in segments:
        w.write(seg)
        await w.drain()
        await asyncio.sleep(delay)
    try:
        while True:
            chunk = await asyncio.wait_for(r.read(65536), read_timeout)
            if not chunk:
                out += b"<EOF>"
                break
            out += chunk
    except asyncio.TimeoutError:
        out += b"<TIMEOUT>"
    w.close()
    await runner.cleanup()
    return seen, out

if __name__ == "__main__":
    print(aiohttp.__file__)
    A = b"GET /a HTTP/1.1\r\nHost: h\r\n\r\n"
    B = b"GARBAGE\r\n\r\n"
    for segs in ([A + B], [A, B]):
        seen, out = asyncio.run(run(segs))
        print(seen); print(out[:300]); print(out.count(b"HTTP/1."))
