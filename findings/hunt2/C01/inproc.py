import asyncio, sys, random, re
import aiohttp
from aiohttp import web

class FakeTransport(asyncio.Transport):
    def __init__(self):
        super().__init__()
        self.out = bytearray(); self.closed = False; self.paused = False
    def write(self, data): self.out += data
    def writelines(self, l):
        for d in l: self.out += d
    def close(self): self.closed = True
    def abort(self): self.closed = True
    def is_closing(self): return self.closed
    def pause_reading(self): self.paused = True
    def resume_reading(self): self.paused = False
    def get_extra_info(self, name, default=None):
        if name == "peername": return ("127.0.0.1", 1234)
        return default
    def get_write_buffer_size(self): return 0

async def settle(n=30):
    for _ in range(n): await asyncio.sleep(0)

async def feed(segments, handler=None, **kw):
    seen = []
    async def default(request):
        try:
            body = await request.read()
        except Exception as e:
            seen.append((request.method, request.path_qs, "EXC:" + type(e).__name__))
            raise
        seen.append((request.method, request.raw_path, body))
        return web.Response(text="ok")
    app = web.Application(client_max_size=2**30)
    app.router.add_route("*", "/{tail:.*}", handler or default)
    runner = web.AppRunner(app, access_log=None, **kw)
    await runner.setup()
    proto = runner.server()
    tr = FakeTransport()
    proto.connection_made(tr)
    pending = list(segments)
    for seg in pending:
        if tr.closed: break
        # honour pause: wait until resumed
        for _ in range(200):
            if not tr.paused: break
            await asyncio.sleep(0)
        proto.data_received(seg)
        await settle()
    await settle(100)
    closed = tr.closed
    if not closed:
        proto.connection_lost(None)
    await settle()
    await runner.cleanup()
    statuses = [int(x) for x in re.findall(rb"HTTP/1\.[01] (\d\d\d)", bytes(tr.out))]
    return seen, statuses, closed, bytes(tr.out)
