"""Shared helper for the hunt scripts: a real aiohttp server on 127.0.0.1 and a raw socket client."""
import asyncio
import logging

import aiohttp
from aiohttp import web


class LogCatcher(logging.Handler):
    def __init__(self):
        super().__init__()
        self.records = []

    def emit(self, record):
        msg = record.getMessage()
        if record.exc_info and record.exc_info[1] is not None:
            msg += " :: " + repr(record.exc_info[1])
        self.records.append(msg)


async def exchange(segments, *, delay=0.05, read_timeout=1.0):
    """Start an Application, write each segment (own TCP write, `delay` apart).

    Returns (handled, raw_bytes_received, log_messages); handled lists
    (method, path_qs, body) for every request that reached the handler.
    raw ends with b"<EOF>" if the server closed, b"<TIMEOUT>" otherwise.
    """
    handled = []

    async def handler(request):
        body = await request.read()
        handled.append((request.method, request.path_qs, body))
        return web.Response(text="handled " + request.path_qs)

    catcher = LogCatcher()
    for name in ("aiohttp.server", "aiohttp.web", "asyncio"):
        lg = logging.getLogger(name)
        lg.addHandler(catcher)
        lg.propagate = False

    app = web.Application()
    app.router.add_route("*", "/{tail:.*}", handler)
    runner = web.AppRunner(app, access_log=None)
    await runner.setup()
    site = web.TCPSite(runner, "127.0.0.1", 0)
    await site.start()
    port = site._server.sockets[0].getsockname()[1]
    reader, writer = await asyncio.open_connection("127.0.0.1", port)
    raw = b""
    try:
        for seg in segments:
            writer.write(seg)
            await writer.drain()
            await asyncio.sleep(delay)
        try:
            while True:
                chunk = await asyncio.wait_for(reader.read(65536), read_timeout)
                if not chunk:
                    raw += b"<EOF>"
                    break
                raw += chunk
        except asyncio.TimeoutError:
            raw += b"<TIMEOUT>"
    except ConnectionError as exc:
        raw += b"<" + type(exc).__name__.encode() + b">"
    finally:
        writer.close()
        await runner.cleanup()
    return handled, raw, catcher.records


def statuses(raw):
    import re

    return [int(m) for m in re.findall(rb"HTTP/\d\.\d (\d\d\d) ", raw)]


def banner():
    print("aiohttp imported from", aiohttp.__file__)
