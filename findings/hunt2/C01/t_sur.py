import asyncio, sys
sys.path.insert(0, "_hunt")
from e2e import run
cases = {
 "chunksize": [b"POST /a HTTP/1.1\r\nHost: h\r\nTransfer-Encoding: chunked\r\n\r\n\xff\r\n"],
 "chunksize-split": [b"POST /a HTTP/1.1\r\nHost: h\r\nTransfer-Encoding: chunked\r\n\r\n", b"\xff\r\n"],
 "version": [b"GET /a HTTP/1.1\xff\r\nHost: h\r\n\r\n"],
 "method": [b"G\xffT /a HTTP/1.1\r\nHost: h\r\n\r\n"],
 "nosplit": [b"GET\xff\r\n\r\n"],
 "hname": [b"GET /a HTTP/1.1\r\nHo\xffst: h\r\n\r\n"],
 "hval": [b"GET /a HTTP/1.1\r\nHost: h\r\nX: a\xff\x00\r\n\r\n"],
 "nocolon": [b"GET /a HTTP/1.1\r\nHost: h\r\nX\xff\r\n\r\n"],
 "longline": [b"GET /" + b"\xff"*9000 + b" HTTP/1.1\r\nHost: h\r\n\r\n"],
 "target": [b"GET http://\xff[ HTTP/1.1\r\nHost: h\r\n\r\n"],
}
for k, segs in cases.items():
    s, out = asyncio.run(run(segs, read_timeout=0.7))
    print(k, s, out[:70])
