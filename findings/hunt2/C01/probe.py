import asyncio, sys
import aiohttp
from aiohttp.http_parser import HttpRequestParser
from aiohttp.base_protocol import BaseProtocol
print(aiohttp.__file__)

def parse(segments, **kw):
    loop = asyncio.new_event_loop()
    class P(BaseProtocol):
        pass
    proto = P(loop)
    class T:
        def pause_reading(self): pass
        def resume_reading(self): pass
    proto.transport = T()
    p = HttpRequestParser(proto, loop, 2**16, **kw)
    out = []
    for seg in segments:
        try:
            msgs, up, tail = p.feed_data(seg)
        except Exception as e:
            out.append(("ERR", type(e).__name__, str(e)[:80]))
            break
        for m, pl in msgs:
            body = b"".join(pl._buffer) if hasattr(pl, "_buffer") else None
            out.append((m.method, m.path, m.version, dict(m.headers), m.should_close, m.chunked, pl))
        if up: out.append(("UPGRADED", tail))
    loop.close()
    return out

if __name__ == "__main__":
    tests = {
     "lower": [b"get / HTTP/1.1\r\nHost: a\r\n\r\n"],
     "http12nohost": [b"GET / HTTP/1.2\r\n\r\n"],
     "http20": [b"GET / HTTP/2.0\r\n\r\n"],
     "http09": [b"GET / HTTP/0.9\r\n\r\n"],
     "10te": [b"POST / HTTP/1.0\r\nConnection: keep-alive\r\nTransfer-Encoding: chunked\r\n\r\n0\r\n\r\nGET /x HTTP/1.1\r\nHost: a\r\n\r\n"],
     "gzipchunked": [b"POST / HTTP/1.1\r\nHost: a\r\nTransfer-Encoding: gzip, chunked\r\n\r\n0\r\n\r\n"],
     "chunkext_cr": [b"POST / HTTP/1.1\r\nHost: a\r\nTransfer-Encoding: chunked\r\n\r\n1;a\rb\r\nx\r\n0\r\n\r\n"],
     "chunkext_nul": [b"POST / HTTP/1.1\r\nHost: a\r\nTransfer-Encoding: chunked\r\n\r\n1;\x00\r\nx\r\n0\r\n\r\n"],
     "lost": [b"GET /a HTTP/1.1\r\nHost: a\r\n\r\nGARBAGE\r\n\r\n"],
     "frag": [b"GET /a#frag HTTP/1.1\r\nHost: a\r\n\r\n"],
     "hi": [b"GET /a\xff HTTP/1.1\r\nHost: a\r\n\r\n"],
     "connect_path": [b"CONNECT /foo HTTP/1.1\r\nHost: a\r\n\r\n"],
     "absform": [b"GET http://[::1/ HTTP/1.1\r\nHost: a\r\n\r\n"],
     "twoconn": [b"GET / HTTP/1.1\r\nHost: a\r\nConnection: x\r\nConnection: close\r\n\r\nGET /b HTTP/1.1\r\nHost: a\r\n\r\n"],
     "hostsp": [b"GET / HTTP/1.1\r\nHost: a b\r\n\r\n"],
     "emptyname": [b"GET / HTTP/1.1\r\nHost: a\r\n: b\r\n\r\n"],
     "tabsl": [b"GET\t/ HTTP/1.1\r\nHost: a\r\n\r\n"],
     "twosp": [b"GET  / HTTP/1.1\r\nHost: a\r\n\r\n"],
     "trailsp": [b"GET / HTTP/1.1 \r\nHost: a\r\n\r\n"],
    }
    for k, v in tests.items():
        print(k, parse(v))
