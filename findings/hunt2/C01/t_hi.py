import asyncio, sys
sys.path.insert(0, "_hunt")
from e2e import run
for t in (b"/\xff", b"/a?x=\xff", b"/\xed\xa0\x80", b"/%ff", b"/\xc3\xa9"):
    s, out = asyncio.run(run([b"GET " + t + b" HTTP/1.1\r\nHost: h\r\n\r\n"]))
    print(t, s, out[:40])
