"""C01 finding 2: complete, valid pipelined requests are dropped when a later message
in the same read is malformed.

HttpParser.feed_data() collects the messages of one call in a local list and raises as
soon as a later head (or chunk) is malformed; web_protocol.data_received() (and the
re-feed in finish_response()) then replaces everything by a single 400.  So for the byte
stream  <valid request A><malformed B>  the outcome depends on how TCP cut the stream:

  two reads : A is dispatched and answered 200, then 400            (the RFC 9112 reading)
  one read  : A never reaches a handler, the only answer is the 400 (which a client or
              proxy attributes to A)

Every byte of A belongs to a well-formed message that precedes the error.
"""
import asyncio
import sys

from common import banner, exchange, statuses

A = b"POST /orders HTTP/1.1\r\nHost: h\r\nContent-Length: 7\r\n\r\nitem=42"
B = b"GARBAGE\r\n\r\n"
# second shape: A closes the connection, a stray line follows it
A2 = b"GET /report HTTP/1.1\r\nHost: h\r\nConnection: close\r\n\r\n"
B2 = b"x\r\n"


def main():
    banner()
    failed = False
    for name, a, b in (("garbage after A", A, B), ("line after Connection: close", A2, B2)):
        ref_handled, ref_raw, _ = asyncio.run(exchange([a, b]))
        one_handled, one_raw, _ = asyncio.run(exchange([a + b]))
        print(f"[{name}]")
        print("  two reads: handled", ref_handled, "statuses", statuses(ref_raw))
        print("  one read : handled", one_handled, "statuses", statuses(one_raw))
        if not ref_handled or statuses(ref_raw)[:1] != [200]:
            print("  unexpected reference behaviour")
        if one_handled != ref_handled or statuses(one_raw)[:1] != [200]:
            print(
                "  FAIL: the valid request in front of the malformed bytes was not "
                "dispatched/answered when both arrived in one read"
            )
            failed = True
    sys.exit(1 if failed else 0)


main()
