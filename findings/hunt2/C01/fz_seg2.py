import asyncio, sys, random, logging
sys.path.insert(0, "_hunt")
from inproc import feed
from aiohttp import web
logging.disable(logging.CRITICAL)

def gen_req(i):
    r = random.random()
    m = random.choice([b"GET", b"POST", b"HEAD", b"PUT", b"DELETE", b"OPTIONS"])
    ver = random.choice([b"HTTP/1.1"]*6 + [b"HTTP/1.0"])
    hdrs = [b"Host: h"]
    body = b""
    k = random.random()
    if k < 0.3:
        n = random.randint(0, 30); payload = bytes(random.choice(b"abc\r\n0123 GETHP/:") for _ in range(n))
        hdrs.append(b"Content-Length: %d" % n); body = payload
    elif k < 0.6:
        hdrs.append(b"Transfer-Encoding: chunked")
        for _ in range(random.randint(0, 3)):
            n = random.randint(1, 20); payload = bytes(random.choice(b"abc\r\n0123 GETHP/:") for _ in range(n))
            ext = random.choice([b"", b"", b";x=1", b";a"])
            body += b"%x%s\r\n%s\r\n" % (n, ext, payload)
        body += b"0\r\n" + random.choice([b"", b"", b"T: v\r\n"]) + b"\r\n"
    if random.random() < 0.15: hdrs.append(random.choice([b"Connection: close", b"Connection: keep-alive", b"Connection: upgrade\r\nUpgrade: websocket", b"Expect: 100-continue", b"Connection: upgrade\r\nUpgrade: h2c"]))
    random.shuffle(hdrs)
    return m + b" /%d " % i + ver + b"\r\n" + b"\r\n".join(hdrs) + b"\r\n\r\n" + body

MUT = [b"\n", b"\r", b" ", b"\t", b":", b"\x00", b"\r\n", b"0", b";", b"chunked", b",", b"+", b"-", b"\x0b", b"Content-Length: 3\r\n", b"Transfer-Encoding: chunked\r\n", b"\r\n\r\n", b"GET / HTTP/1.1\r\n"]
def mutate(s):
    s = bytearray(s)
    for _ in range(random.choice([0, 1, 1, 2])):
        p = random.randint(0, len(s))
        op = random.random()
        if op < 0.5: s[p:p] = random.choice(MUT)
        elif op < 0.8 and p < len(s): del s[p:p+random.randint(1, 3)]
        elif p < len(s): s[p] = random.choice(b"\r\n :;0aZ\x00\t")
    return bytes(s)

def segs(stream, mode):
    if mode == "one": return [stream]
    if mode == "byte": return [stream[i:i+1] for i in range(len(stream))]
    out = []; pos = 0
    while pos < len(stream):
        k = random.randint(1, 40); out.append(stream[pos:pos+k]); pos += k
    return out

async def main(seed):
    random.seed(seed)
    stream = mutate(b"".join(gen_req(i) for i in range(random.randint(1, 5))))
    res = {}
    hmode = random.choice(["noread", "sleepread"])
    for mode in ("byte", "one", "rand", "rand2"):
        seenl = []
        async def h(request, seenl=seenl):
            if hmode == "noread":
                seenl.append((request.method, request.raw_path, b"")); return web.Response(text="ok")
            if hmode == "sleepread":
                for _ in range(7): await asyncio.sleep(0)
                try: body = await request.read()
                except Exception as e:
                    seenl.append((request.method, request.raw_path, "EXC")); raise
                seenl.append((request.method, request.raw_path, body)); return web.Response(text="ok")
            try: body = await request.content.read(3)
            except Exception as e:
                seenl.append((request.method, request.raw_path, "EXC")); raise
            seenl.append((request.method, request.raw_path, body)); return web.Response(text="ok")
        _, st, closed, out = await feed(segs(stream, mode) + [b"\r\n\r\n"], handler=h, lingering_time=0.05)
        seen = seenl
        res[mode] = (seen, st, closed)
    def norm(r):
        seen = [x for x in r[0] if not (isinstance(x[2], str))]
        st = [400 if x == 500 else x for x in r[1]]
        if 400 in st: st = st[:st.index(400)+1]
        return seen, st, r[2]
    base = norm(res["byte"])
    for mode in ("one", "rand", "rand2"):
        r = norm(res[mode])
        if r == base: continue
        # E1 filter: handled is a prefix of base's; statuses are the same prefix followed by 400
        k = len(r[0])
        if base[0][:k] == r[0] and k < len(base[0]) and r[1] == base[1][:len(r[1])-1] + [400] and r[2] == base[2]:
            continue
        if base[0][:k] == r[0] and r[1][-1:] == [400] and r[1][:-1] == base[1][:len(r[1])-1] and r[2] == base[2]:
            continue
        print("DIFF seed", seed, hmode, mode, stream)
        print("  byte:", res["byte"])
        print("  %s:" % mode, res[mode])
        return False
    return True

bad = 0
for seed in range(int(sys.argv[1]), int(sys.argv[2])):
    if not asyncio.run(main(seed)): bad += 1
print("bad", bad)
