import asyncio, sys
sys.path.insert(0, "_hunt")
from e2e import run
from aiohttp import web
seen=[]
async def h(request):
    try:
        body = await request.read()
    except Exception as e:
        seen.append((request.path, "EXC", repr(e)))
        return web.Response(status=422, text="bad body")
    seen.append((request.method, request.path, body))
    return web.Response(text="ok:"+request.path)
async def h2(request):
    seen.append((request.method, request.path, "noread"))
    return web.Response(text="ok:"+request.path)
smug = b"GET /admin HTTP/1.1\r\nHost: h\r\n\r\n"
n = 10 + len(smug)
head = b"POST /a HTTP/1.1\r\nHost: h\r\nContent-Encoding: gzip\r\nContent-Length: %d\r\n\r\n" % n
for hd in (h, h2):
  for lt in (10.0, 0):
    seen.clear()
    s, out = asyncio.run(run([head + b"X"*10, smug], handler=hd, runner_kwargs={"lingering_time": lt}))
    print(hd.__name__, lt, seen); print(out[:60], out.count(b"HTTP/1."))
