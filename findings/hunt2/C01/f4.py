"""C01 finding 4: control bytes (NUL, bare CR, DEL, VT ...) are accepted inside a chunk extension.

RFC 9112 7.1.1: chunk-ext = *( BWS ";" BWS chunk-ext-name [ BWS "=" BWS chunk-ext-val ] ),
name = token, val = token / quoted-string.  No production admits a control byte, and a
bare CR "MUST" be treated as invalid or replaced (section 2.2).  The pure-Python payload
parser only refuses LF in the extension; everything else up to the CRLF is skipped.  The
same bytes are refused everywhere else in the message (header values, trailers, target),
and llhttp refuses them in chunk extensions ("Invalid character in chunk extensions").
"""
import asyncio
import sys

from common import banner, exchange, statuses

HEAD = b"POST /upload HTTP/1.1\r\nHost: h\r\nTransfer-Encoding: chunked\r\n\r\n"
NEXT = b"GET /next HTTP/1.1\r\nHost: h\r\n\r\n"

EXTS = {
    "NUL": b";\x00",
    "bare CR": b";a\rb",
    "bare CR + text that looks like a chunk": b";a\r3",
    "DEL": b";a=\x7f",
    "VT": b";\x0bx",
    "SOH in name": b";\x01=1",
}


def main():
    banner()
    failed = False
    # control: the same control byte in a header value is refused
    handled, raw, _ = asyncio.run(exchange([b"GET / HTTP/1.1\r\nHost: h\r\nX: a\rb\r\n\r\n"]))
    print("control (bare CR in a header value) ->", statuses(raw))
    for name, ext in EXTS.items():
        body = b"3" + ext + b"\r\nabc\r\n0\r\n\r\n"
        handled, raw, _ = asyncio.run(exchange([HEAD + body + NEXT]))
        st = statuses(raw)
        print(f"chunk-ext with {name:40s} {ext!r:12} -> statuses {st} handled {handled}")
        if st[:1] == [200]:
            failed = True
    if failed:
        print(
            "FAIL: chunk extensions holding control bytes were accepted (body delivered, "
            "200 answered, connection kept for the next request) instead of a 400"
        )
    sys.exit(1 if failed else 0)


main()
