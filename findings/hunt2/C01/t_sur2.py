import asyncio, sys
sys.path.insert(0, "_hunt")
from e2e import run
s, out = asyncio.run(run([b"POST /a HTTP/1.1\r\nHost: h\r\nTransfer-Encoding: chunked\r\n\r\n\xff\r\n"], read_timeout=0.7))
print(s, out)
