import asyncio, sys, random
sys.path.insert(0, "_hunt")
from e2e import run
from aiohttp import web
import re

def mk(i, kind):
    if kind == "get":
        return b"GET /%d HTTP/1.1\r\nHost: h\r\n\r\n" % i, b""
    if kind == "cl":
        body = (b"b%d-" % i) * random.randint(1, 50)
        return b"POST /%d HTTP/1.1\r\nHost: h\r\nContent-Length: %d\r\n\r\n" % (i, len(body)) + body, body
    if kind == "big":
        body = (b"B%d-" % i) * random.randint(20000, 80000)
        return b"POST /%d HTTP/1.1\r\nHost: h\r\nContent-Length: %d\r\n\r\n" % (i, len(body)) + body, body
    if kind == "ch":
        parts = [(b"c%d." % i) * random.randint(1, 30) for _ in range(random.randint(0, 5))]
        wire = b"".join(b"%x\r\n%s\r\n" % (len(p), p) for p in parts if p) + b"0\r\n\r\n"
        return b"POST /%d HTTP/1.1\r\nHost: h\r\nTransfer-Encoding: chunked\r\n\r\n" % i + wire, b"".join(parts)
    if kind in ("gz","gzch","gzbig","dfl"):
        import gzip, zlib
        if kind == "gzbig":
            body = (b"Z%d-" % i) * random.randint(100000, 900000)
        else:
            body = bytes(random.getrandbits(8) for _ in range(random.randint(0, 300))) + (b"g%d-" % i) * random.randint(0, 5000)
        if kind == "dfl":
            comp = zlib.compress(body); enc = b"deflate"
        else:
            comp = gzip.compress(body); enc = b"gzip"
        if kind == "gzch":
            wire = b""; pos = 0
            while pos < len(comp):
                k = random.randint(1, 700); wire += b"%x\r\n%s\r\n" % (len(comp[pos:pos+k]), comp[pos:pos+k]); pos += k
            wire += b"0\r\n\r\n"
            return b"POST /%d HTTP/1.1\r\nHost: h\r\nContent-Encoding: gzip\r\nTransfer-Encoding: chunked\r\n\r\n" % i + wire, body
        return b"POST /%d HTTP/1.1\r\nHost: h\r\nContent-Encoding: %s\r\nContent-Length: %d\r\n\r\n" % (i, enc, len(comp)) + comp, body
    if kind == "tiny":
        n = random.randint(100, 6000)
        wire = b"1\r\nx\r\n" * n + b"0\r\n\r\n"
        return b"POST /%d HTTP/1.1\r\nHost: h\r\nTransfer-Encoding: chunked\r\n\r\n" % i + wire, b"x"*n

async def main(seed, noread):
    random.seed(seed)
    n = random.randint(1, 40)
    reqs = [mk(i, random.choice(["get","cl","ch","gz","gzch","gzbig","dfl"])) for i in range(n)]
    stream = b"".join(r[0] for r in reqs)
    # random segmentation
    segs = []
    pos = 0
    mode = random.choice(["one", "rand", "big"])
    if mode == "one": segs = [stream]
    else:
        while pos < len(stream):
            k = random.randint(1, 3000 if mode=="rand" else 200000)
            segs.append(stream[pos:pos+k]); pos += k
    seen = []
    async def h(request):
        if noread and random.random() < 0.5:
            seen.append((request.path, None))
            if random.random()<0.5: await asyncio.sleep(0.001)
            return web.Response(text="ok:" + request.path)
        if random.random()<0.3: await asyncio.sleep(0.001)
        body = await request.read()
        seen.append((request.path, body))
        return web.Response(text="ok:" + request.path)
    s, out = await run(segs, delay=0.0005 if len(segs) > 50 else 0.01, handler=h, read_timeout=1.5, app_kwargs={"client_max_size": 2**30})
    paths = re.findall(rb"ok:/(\d+)", out)
    ok = [int(p) for p in paths] == list(range(n)) and len(seen) == n and all(b is None or b == reqs[i][1] for i, (p, b) in enumerate(seen)) and [p for p,_ in seen] == ["/%d" % i for i in range(n)]
    if not ok:
        print("MISMATCH seed", seed, noread, mode, n, len(segs), "responses", len(paths), "seen", len(seen), out[-200:])
        for (p,b) in seen:
            i = int(p[1:])
            if b is not None and b != reqs[i][1]: print("body diff at", i, len(b), len(reqs[i][1])); break
    return ok

bad = 0
for seed in range(int(sys.argv[1]), int(sys.argv[2])):
    for noread in (False, True):
        if not asyncio.run(main(seed, noread)): bad += 1
print("bad", bad)
