import asyncio, random, sys
sys.path.insert(0, "_hunt")
import aiohttp
from aiohttp.http_parser import HttpRequestParser
from aiohttp.http_exceptions import HttpProcessingError
from aiohttp.base_protocol import BaseProtocol
loop = asyncio.new_event_loop()
proto = BaseProtocol(loop)
alphabet = [b"/", b":", b"@", b"[", b"]", b"%", b"?", b"#", b".", b"a", b"1", b"\xff", b"\xc3\xa9", b"%zz", b"%00", b"http", b"://", b"*", b"-", b"_", b"~", b"\\", b"|", b"^", b"{", b"}", b"\"", b"<", b">", b"99999", b"::", b"%25", b"xn--", b"\xe2\x80\xa8", b"+", b"&", b"=", b";", b",", b"$", b"!", b"'", b"(", b")", b"v1.", b"[::1]", b"[v1.a]", b"%41", b"\xed\xa0\x80"]
random.seed(int(sys.argv[1]))
odd = {}
for it in range(int(sys.argv[2])):
    t = b"".join(random.choice(alphabet) for _ in range(random.randint(0, 8)))
    m = random.choice([b"GET", b"CONNECT", b"OPTIONS", b"POST"])
    if random.random() < .5 and m != b"CONNECT": t = b"/" + t
    hostv = b"".join(random.choice(alphabet) for _ in range(random.randint(0, 5)))
    data = m + b" " + t + b" HTTP/1.1\r\nHost: " + hostv + b"\r\n\r\n"
    p = HttpRequestParser(proto, loop, 2**16)
    try:
        msgs, up, tail = p.feed_data(data)
    except HttpProcessingError:
        continue
    except BaseException as e:
        odd.setdefault(type(e).__name__ + ":parse", data)
        continue
    # touch lazy attrs like web_request does
    from aiohttp.web_request import BaseRequest
    msg = msgs[0][0]
    try:
        u = msg.url
        for attr in ("host", "port", "path", "raw_path", "query_string", "raw_query_string", "path_qs", "raw_path_qs", "scheme", "authority", "fragment", "query"):
            getattr(u, attr)
        str(u); u.human_repr()
    except BaseException as e:
        odd.setdefault(type(e).__name__ + ":lazy", (data, repr(e)))
for k, v in odd.items(): print(k, v)
print("done", len(odd))
