import asyncio, sys
sys.path.insert(0, "_hunt")
from e2e import run
for v in (b"HTTP/0.9", b"HTTP/2.0", b"HTTP/9.9", b"HTTP/1.2", b"HTTP/1.9", b"HTTP/0.0"):
    s, out = asyncio.run(run([b"GET /a " + v + b"\r\n\r\n", b"GET /b HTTP/1.1\r\nHost: h\r\n\r\n"], read_timeout=0.5))
    print(v, s, out[:60], out.count(b"ok:"))
