import asyncio, random, sys, warnings, zlib, gzip
import aiohttp
from aiohttp.client_proto import ResponseHandler
from aiohttp.http_exceptions import LineTooLong
warnings.simplefilter("ignore")

class Tr(asyncio.Transport):
    def __init__(self):
        super().__init__()
        self.paused = False
        self.closed = False
    def pause_reading(self): self.paused = True
    def resume_reading(self): self.paused = False
    def close(self): self.closed = True
    def abort(self): self.closed = True
    def is_closing(self): return self.closed
    def get_extra_info(self, *a, **k): return None
    def write(self, d): pass

def build(rng):
    mode = rng.choice(["chunked", "length", "eof"])
    comp = rng.choice([None, None, "gzip", "deflate"])
    nchunks = rng.randint(0, 12)
    big = rng.random() < 0.3
    chunks = []
    for _ in range(nchunks):
        ln = rng.randint(1, 40 if not big else 400)
        if rng.random() < 0.5:
            chunks.append(bytes(rng.choice(b"ab\n") for _ in range(ln)))
        else:
            chunks.append(bytes([rng.choice(b"ab\n")]) * ln)
    body = b"".join(chunks)
    if comp == "gzip":
        wire_body = gzip.compress(body)
    elif comp == "deflate":
        wire_body = zlib.compress(body)
    else:
        wire_body = body
    head = b"HTTP/1.1 200 OK\r\n"
    if comp: head += b"Content-Encoding: " + comp.encode() + b"\r\n"
    bounds = []
    if mode == "chunked":
        head += b"Transfer-Encoding: chunked\r\n\r\n"
        if comp:
            # re-chunk wire body randomly
            pieces = []
            i = 0
            while i < len(wire_body):
                k = rng.randint(1, 30); pieces.append(wire_body[i:i+k]); i += k
        else:
            pieces = chunks
            pos = 0
            for c in chunks:
                pos += len(c); bounds.append(pos)
        wire = head + b"".join(b"%x\r\n%s\r\n" % (len(c), c) for c in pieces) + b"0\r\n\r\n"
    elif mode == "length":
        if not wire_body:
            mode = "eof"
            wire = head + b"\r\n" + wire_body
        else:
            wire = head + b"Content-Length: %d\r\n\r\n" % len(wire_body) + wire_body
    else:
        wire = head + b"\r\n" + wire_body
    return mode, comp, body, wire, bounds

async def run_one(seed):
    rng = random.Random(seed)
    loop = asyncio.get_running_loop()
    mode, comp, body, wire, bounds = build(rng)
    limit = rng.choice([1, 2, 3, 8, 16, 64, 2**16])
    proto = ResponseHandler(loop)
    tr = Tr()
    proto.connection_made(tr)
    proto.set_response_params(read_until_eof=True, read_bufsize=limit)
    # segmentation
    segs = []
    i = 0
    style = rng.choice(["tiny", "mixed", "one"])
    while i < len(wire):
        k = {"tiny": rng.randint(1, 3), "mixed": rng.randint(1, 200), "one": len(wire)}[style]
        segs.append(wire[i:i+k]); i += k
    closed = [False]
    log = []
    def pump_one():
        if segs:
            sg = segs.pop(0)
            log.append(("P", len(sg)))
            proto.data_received(sg)
            return True
        if mode == "eof" and not closed[0]:
            closed[0] = True
            log.append(("P", "close"))
            proto.connection_lost(None)
            return True
        return False
    def fail(msg):
        raise AssertionError(f"seed={seed} mode={mode} comp={comp} limit={limit} style={style}: {msg}\nlog={log[-30:]}\nbody={len(body)} got={len(got)} bounds={bounds[:20]}")
    got = b""
    # get message
    while not proto._buffer:
        if not pump_one(): fail("no message")
    msg, s = await proto.read()
    if comp is None and mode == "chunked" and False:
        pass
    kinds = ["read_n", "readany", "readline", "readuntil2", "readexactly", "readchunk", "nowait", "nowait_n", "read_all", "iter_chunks", "iter_any", "iter_chunked"]
    # choose a consumer profile: single kind or mix
    prof = rng.choice(["mix"] + kinds)
    steps = 0
    done = False
    while steps < 400 and not done:
        steps += 1
        if not tr.paused and rng.random() < 0.4:
            pump_one(); continue
        kind = rng.choice(kinds) if prof == "mix" else prof
        if kind in ("read_all",) and prof == "mix" and rng.random() < 0.9: continue
        n = rng.randint(1, 50)
        if kind == "nowait":
            if s.exception(): fail(f"exc {s.exception()!r}")
            r = s.read_nowait(); got += r; log.append(("C", kind, len(r))); 
            if s.at_eof(): done = True
            continue
        if kind == "nowait_n":
            r = s.read_nowait(n); got += r; log.append(("C", kind, n, len(r)));
            if s.at_eof(): done = True
            continue
        if kind == "read_n": coro = s.read(n)
        elif kind == "read_all": coro = s.read()
        elif kind == "readany": coro = s.readany()
        elif kind == "readline": coro = s.readline(max_line_length=10**9)
        elif kind == "readuntil2": coro = s.readuntil(b"ab", max_size=10**9)
        elif kind == "readexactly": coro = s.readexactly(n)
        elif kind == "readchunk": coro = s.readchunk()
        elif kind == "iter_chunks": coro = s.iter_chunks().__anext__()
        elif kind == "iter_any": coro = s.iter_any().__anext__()
        elif kind == "iter_chunked": coro = s.iter_chunked(n).__anext__()
        t = asyncio.ensure_future(coro)
        while True:
            await asyncio.sleep(0); await asyncio.sleep(0)
            if t.done(): break
            if tr.paused:
                fail(f"blocked in {kind} with transport paused size={s._size} splits={s._http_chunk_splits and len(s._http_chunk_splits)}")
            if kind != "read_all" and rng.random() < 0.15:
                t.cancel(); await asyncio.sleep(0); await asyncio.sleep(0); break
            if not pump_one():
                fail(f"blocked in {kind} after all input delivered; size={s._size} eof={s._eof} parser={proto._parser and (proto._parser._payload_has_more_data, proto._parser._payload_parser and proto._parser._payload_parser._chunk_tail)}")
        try:
            res = t.result()
        except asyncio.CancelledError:
            log.append(("C", kind, "cancelled")); continue
        except StopAsyncIteration:
            log.append(("C", kind, "stop"))
            if got != body: fail("iteration stopped before all data")
            done = True; continue
        except asyncio.IncompleteReadError as e:
            got += e.partial
            log.append(("C", kind, "incomplete", len(e.partial)))
            if got != body: fail("incomplete before all data")
            done = True; continue
        except Exception as e:
            fail(f"exception {e!r} in {kind}")
        if kind in ("readchunk", "iter_chunks"):
            data, end = res
            got += data
            log.append(("C", kind, len(data), end))
            if end and bounds and len(got) not in bounds: fail(f"bad boundary {len(got)}")
            if end and mode != "chunked": fail("end flag w/o chunked")
            if res == (b"", False):
                if got != body: fail("eof marker before all data")
                done = True
        else:
            got += res
            log.append(("C", kind, n, len(res)))
            if kind == "readexactly" and len(res) != n: fail("readexactly len")
            if kind in ("read_n", "iter_chunked") and len(res) > n: fail("too many")
            if kind == "readline" and (b"\n" in res[:-1]): fail("readline crossing")
            if kind == "readline" and not res.endswith(b"\n") and got != body: fail("readline short")
            if kind == "readuntil2" and not res.endswith(b"ab") and got != body: fail("readuntil short")
            if kind == "readuntil2" and res.find(b"ab") not in (-1, len(res)-2): fail("readuntil crossing")
            if kind == "read_all":
                if got != body: fail("read() incomplete")
                done = True
            if res == b"":
                if got != body: fail("eof before all data")
                done = True
        if not body.startswith(got): fail("bytes mismatch")
    if done and got != body: fail("done but mismatch")

async def main():
    print(aiohttp.__file__)
    start = int(sys.argv[1]) if len(sys.argv) > 1 else 0
    cnt = int(sys.argv[2]) if len(sys.argv) > 2 else 5000
    bad = 0
    for seed in range(start, start+cnt):
        try:
            await run_one(seed)
        except AssertionError as e:
            print(e); bad += 1
            if bad >= 6: break
        except Exception as e:
            print("seed", seed, "EXC", repr(e)); bad += 1
            import traceback; traceback.print_exc()
            if bad >= 6: break
    print("done bad=", bad)
asyncio.run(main())
