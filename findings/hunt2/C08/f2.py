"""EmptyStreamReader (the stream every body-less message gets) does not
implement the whole StreamReader read API: readuntil() and the documented
total_raw_bytes attribute fall through to StreamReader code that touches slots
EmptyStreamReader.__init__ never sets -> AttributeError; readexactly(0)
disagrees with StreamReader.readexactly(0).

So the same handler code that works for `POST` with a body (and for a body
that merely happens to be empty but is chunked) crashes with a 500 for a
body-less request, instead of seeing end-of-stream (b"").
(streams.py itself carries "# TODO add async def readuntil".)
"""
import asyncio
import sys

import aiohttp
from aiohttp.base_protocol import BaseProtocol
from aiohttp.client_proto import ResponseHandler
from aiohttp.http_parser import HttpRequestParserPy


class Transport(asyncio.Transport):
    def pause_reading(self): pass
    def resume_reading(self): pass
    def is_closing(self): return False
    def close(self): pass


async def consume(content):
    """What a handler for a line-oriented upload does."""
    out = []
    while True:
        line = await content.readuntil(b"\n")
        if not line:
            return out
        out.append(line)


async def main() -> int:
    print(aiohttp.__file__)
    loop = asyncio.get_running_loop()
    bad = []

    proto = BaseProtocol(loop)
    proto.connection_made(Transport())
    parser = HttpRequestParserPy(proto, loop, 2**16)
    proto._parser = parser

    requests = {
        "chunked, one line": b"POST / HTTP/1.1\r\nHost: a\r\nTransfer-Encoding: chunked\r\n\r\n2\r\nx\n\r\n0\r\n\r\n",
        "chunked, empty": b"POST / HTTP/1.1\r\nHost: a\r\nTransfer-Encoding: chunked\r\n\r\n0\r\n\r\n",
        "Content-Length: 0": b"POST / HTTP/1.1\r\nHost: a\r\nContent-Length: 0\r\n\r\n",
        "no body": b"GET / HTTP/1.1\r\nHost: a\r\n\r\n",
    }
    for name, raw in requests.items():
        msgs, _up, _tail = parser.feed_data(raw)
        (_msg, content), = msgs
        try:
            res = await consume(content)
            print(f"readuntil  {name:18} {type(content).__name__:18} -> {res}")
        except Exception as exc:
            print(f"readuntil  {name:18} {type(content).__name__:18} -> {exc!r}")
            bad.append(f"readuntil() on a {name!r} request: {exc!r}")
        try:
            res = await content.readexactly(0)
            print(f"readexactly(0) {name:14} -> {res!r}")
        except Exception as exc:
            print(f"readexactly(0) {name:14} -> {exc!r}")
            bad.append(f"readexactly(0) on a {name!r} request: {exc!r}")

    # client side: documented attribute StreamReader.total_raw_bytes
    for name, raw in {
        "200 with body": b"HTTP/1.1 200 OK\r\nContent-Length: 2\r\n\r\nhi",
        "204": b"HTTP/1.1 204 No Content\r\n\r\n",
        "200 Content-Length: 0": b"HTTP/1.1 200 OK\r\nContent-Length: 0\r\n\r\n",
    }.items():
        cp = ResponseHandler(loop)
        cp.connection_made(Transport())
        cp.set_response_params()
        cp.data_received(raw)
        _msg, content = await cp.read()
        await content.read()
        try:
            print(f"total_raw_bytes {name:22} -> {content.total_raw_bytes}")
        except Exception as exc:
            print(f"total_raw_bytes {name:22} -> {exc!r}")
            bad.append(f"resp.content.total_raw_bytes of a {name!r} response: {exc!r}")

    if bad:
        print("FAIL:")
        for b in bad:
            print("  ", b)
        return 1
    print("ok")
    return 0


sys.exit(asyncio.run(main()))
