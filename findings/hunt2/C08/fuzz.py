import asyncio, random, sys, warnings
import aiohttp
from aiohttp.streams import StreamReader
from aiohttp.http_exceptions import LineTooLong
warnings.simplefilter("ignore")

class Proto:
    def __init__(self, reentrant):
        self.paused = False
        self.connected = True
        self.pending = []   # producer ops waiting in "parser"
        self.stream = None
        self.reentrant = reentrant
        self.in_pump = False
        self.npause = 0
        self.nresume = 0
    def pause_reading(self):
        self.paused = True
        self.npause += 1
    def resume_reading(self, resume_parser=True):
        self.paused = False
        self.nresume += 1
        if self.reentrant and resume_parser:
            self.pump()
    def pump(self):
        if self.in_pump:
            return
        self.in_pump = True
        try:
            while self.pending and not self.paused:
                op = self.pending.pop(0)
                apply_op(self.stream, op, self)
        finally:
            self.in_pump = False

class State:
    pass

def apply_op(s, op, p):
    k = op[0]
    st = p.state
    if k == "feed":
        s.feed_data(op[1])
        st.fed += op[1]
    elif k == "begin":
        s.begin_http_chunk_receiving()
    elif k == "end":
        s.end_http_chunk_receiving()
        if len(st.fed) and (not st.bounds or st.bounds[-1] != len(st.fed)):
            st.bounds.append(len(st.fed))
    elif k == "eof":
        s.feed_eof()
        st.eof = True
    elif k == "exc":
        s.set_exception(ValueError("boom"))
        st.exc = True

def gen_producer(rng, chunked):
    ops = []
    alphabet = b"ab\n"
    n = rng.randint(0, 8)
    for _ in range(n):
        if chunked:
            ops.append(("begin",))
            for _ in range(rng.randint(0, 3)):
                ops.append(("feed", bytes(rng.choice(alphabet) for _ in range(rng.randint(0, 4)))))
            ops.append(("end",))
        else:
            ops.append(("feed", bytes(rng.choice(alphabet) for _ in range(rng.randint(0, 5)))))
    r = rng.random()
    if r < 0.8:
        ops.append(("eof",))
    elif r < 0.9:
        ops.append(("exc",))
    return ops

async def run_one(seed):
    rng = random.Random(seed)
    loop = asyncio.get_running_loop()
    chunked = rng.random() < 0.6
    reentrant = rng.random() < 0.5
    limit = rng.choice([0, 1, 2, 3, 5, 2**16])
    p = Proto(reentrant)
    st = State(); st.fed = b""; st.bounds = []; st.eof = False; st.exc = False
    p.state = st
    s = StreamReader(p, limit, loop=loop)
    p.stream = s
    p.pending = gen_producer(rng, chunked)
    got = b""
    log = []
    def fail(msg):
        raise AssertionError(f"seed={seed} chunked={chunked} reentrant={reentrant} limit={limit}: {msg}\nlog={log}\nfed={st.fed!r} got={got!r} bounds={st.bounds}")
    steps = 0
    while steps < 60:
        steps += 1
        # maybe producer step
        if p.pending and not p.paused and rng.random() < 0.5:
            op = p.pending.pop(0)
            log.append(("P", op))
            apply_op(s, op, p)
            continue
        # consumer op
        kind = rng.choice(["read_n", "read_all", "readany", "readline", "readuntil2", "readexactly", "readchunk", "nowait", "nowait_n", "unread"])
        if kind == "unread":
            if got and rng.random() < 0.5 and not st.exc:
                k = rng.randint(1, min(3, len(got)))
                log.append(("C", "unread", k))
                s._unread_data(got[-k:])
                got = got[:-k]
            continue
        n = rng.randint(1, 5)
        if kind == "read_n": coro = s.read(n)
        elif kind == "read_all":
            if rng.random() < 0.7: continue
            coro = s.read()
        elif kind == "readany": coro = s.readany()
        elif kind == "readline": coro = s.readline()
        elif kind == "readuntil2": coro = s.readuntil(b"ab")
        elif kind == "readexactly": coro = s.readexactly(n)
        elif kind == "readchunk": coro = s.readchunk()
        elif kind == "nowait":
            try:
                r = s.read_nowait()
            except ValueError:
                if not st.exc: fail("unexpected exc")
                break
            log.append(("C", kind, r)); got += r; continue
        elif kind == "nowait_n":
            try:
                r = s.read_nowait(n)
            except ValueError:
                if not st.exc: fail("unexpected exc")
                break
            log.append(("C", kind, n, r)); got += r
            if len(r) > n: fail("too many")
            continue
        t = asyncio.ensure_future(coro)
        res = None
        cancelled = False
        while True:
            await asyncio.sleep(0)
            await asyncio.sleep(0)
            if t.done():
                break
            # blocked
            if p.paused:
                fail(f"blocked in {kind} with transport paused; size={s._size} buf={list(s._buffer)} splits={s._http_chunk_splits}")
            if kind not in ("readline", "readuntil2", "readexactly") and s._buffer:
                fail(f"blocked in {kind} with non-empty buffer")
            if not p.pending:
                cancelled = True
                t.cancel()
                await asyncio.sleep(0)
                break
            if rng.random() < 0.15:
                cancelled = True
                t.cancel()
                await asyncio.sleep(0); await asyncio.sleep(0)
                break
            op = p.pending.pop(0)
            log.append(("P*", op))
            apply_op(s, op, p)
        try:
            res = t.result()
        except asyncio.CancelledError:
            log.append(("C", kind, n, "cancelled"))
            if kind == "read_all": break
            if not p.pending and not st.eof and not st.exc:
                break
            continue
        except ValueError as e:
            if "boom" not in str(e): raise
            if not st.exc: fail("unexpected exc")
            log.append(("C", kind, "exc"))
            break
        except LineTooLong:
            log.append(("C", kind, "linetoolong"))
            break  # data dropped; by design?
        except asyncio.IncompleteReadError as e:
            log.append(("C", kind, n, "incomplete", e.partial))
            got += e.partial
            if not st.eof: fail("incomplete before eof")
            if got != st.fed: fail("incomplete but data mismatch")
            continue
        log.append(("C", kind, n, res))
        if kind == "readchunk":
            data, end = res
            got += data
            if end:
                if len(got) not in st.bounds:
                    fail(f"readchunk reported boundary at {len(got)} not a sender boundary")
            if not chunked and end: fail("end flag on unchunked")
            if res == (b"", False):
                if not st.eof: fail("eof marker before eof")
                if got != st.fed: fail("eof marker before all data")
        else:
            got += res
            if kind == "read_n" and len(res) > n: fail("too many")
            if kind == "readexactly" and len(res) != n: fail("readexactly wrong len")
            if kind in ("readline",) and res and not res.endswith(b"\n") and not (st.eof and got == st.fed): fail("readline w/o newline before eof")
            if kind == "readline" and res.count(b"\n") > 1 or (kind=="readline" and b"\n" in res[:-1]): fail("readline crossing newline")
            if kind == "readuntil2" and res and not res.endswith(b"ab") and not (st.eof and got == st.fed): fail("readuntil w/o sep before eof")
            if kind == "readuntil2" and b"ab" in res[:-1] and res.find(b"ab") != len(res)-2: fail("readuntil crossing sep")
            if kind == "read_all":
                if not st.eof or got != st.fed: fail("read() returned before eof/all data")
            if res == b"" and kind in ("read_n", "readany", "readline", "readuntil2"):
                if not st.eof: fail("empty before eof")
                if got != st.fed: fail("eof before all data")
        if not st.fed.startswith(got):
            fail("bytes mismatch")
    if not st.fed.startswith(got):
        fail("bytes mismatch end")

async def main():
    print(aiohttp.__file__)
    start = int(sys.argv[1]) if len(sys.argv) > 1 else 0
    cnt = int(sys.argv[2]) if len(sys.argv) > 2 else 20000
    bad = 0
    for seed in range(start, start+cnt):
        try:
            await run_one(seed)
        except AssertionError as e:
            print(e); bad += 1
            if bad >= 5: break
        except Exception as e:
            print("seed", seed, "EXC", repr(e)); bad += 1
            import traceback; traceback.print_exc()
            if bad >= 5: break
    print("done bad=", bad)
asyncio.run(main())
