"""read() (read everything) interrupted while waiting drops the blocks it had
already taken out of the buffer.

Sibling of the repaired readline()/readuntil()/readexactly() defect: read(-1)
collects blocks in a local list across several waits; a cancellation
(asyncio.wait_for / asyncio.timeout around the read, the usual way to bound a
slow download) throws the list away.  The stream itself stays perfectly usable
(no exception is set, the connection stays open), so the caller's next read
silently continues *after* the hole: bytes received are never returned.

Driven through the real client protocol + response parser, no mocks of aiohttp
internals: only the transport is a stand-in.
"""
import asyncio
import sys

import aiohttp
from aiohttp.client_proto import ResponseHandler


class Transport(asyncio.Transport):
    def __init__(self):
        super().__init__()
        self.closing = False

    def pause_reading(self): pass
    def resume_reading(self): pass
    def is_closing(self): return self.closing
    def close(self): self.closing = True
    def abort(self): self.closing = True


async def main() -> int:
    print(aiohttp.__file__)
    loop = asyncio.get_running_loop()
    proto = ResponseHandler(loop)
    proto.connection_made(Transport())
    proto.set_response_params(read_bufsize=2**16)

    proto.data_received(
        b"HTTP/1.1 200 OK\r\nContent-Length: 12\r\n\r\n" b"first-"
    )
    _msg, content = await proto.read()

    # The caller bounds the download; the peer is slow, the bound expires.
    try:
        await asyncio.wait_for(content.read(), 0.05)
    except asyncio.TimeoutError:
        pass
    else:
        print("unexpected: read() completed")
        return 2

    # The stream is intact as far as anybody can tell ...
    assert content.exception() is None and not content.is_eof()
    # ... the rest of the body arrives, the caller carries on reading.
    proto.data_received(b"second")
    body = await content.read()

    sent = b"first-second"
    print("sent    :", sent)
    print("returned:", body)

    # control: the sibling calls that were repaired keep their bytes
    proto2 = ResponseHandler(loop)
    proto2.connection_made(Transport())
    proto2.set_response_params(read_bufsize=2**16)
    proto2.data_received(b"HTTP/1.1 200 OK\r\nContent-Length: 12\r\n\r\nfirst-")
    _msg, c2 = await proto2.read()
    try:
        await asyncio.wait_for(c2.readexactly(12), 0.05)
    except asyncio.TimeoutError:
        pass
    proto2.data_received(b"second")
    print("control (readexactly interrupted, then read()):", await c2.read())

    if body != sent:
        print(
            "FAIL: %d bytes that were received were never returned by any read "
            "call (lost: %r)" % (len(sent) - len(body), sent[: len(sent) - len(body)])
        )
        return 1
    print("ok")
    return 0


sys.exit(asyncio.run(main()))
