"""F4: a response nobody asked for arrives while the connection idles in the pool; the next request on the session must not get it.
exit 1 = the unsolicited response was delivered as the answer to the next request."""
import asyncio, sys
import aiohttp
print(aiohttp.__file__)

async def main():
    seen = []
    async def handle(reader, writer):
        n = 0
        while True:
            try:
                head = await reader.readuntil(b"\r\n\r\n")
            except asyncio.IncompleteReadError:
                return
            n += 1
            seen.append(head.split(b"\r\n")[0])
            if b"/a" in head:
                writer.write(b"HTTP/1.1 200 OK\r\nContent-Length: 5\r\n\r\nfirst")
                await writer.drain()
                await asyncio.sleep(0.2)   # the client has the response and pooled the connection
                writer.write(b"HTTP/1.1 200 OK\r\nContent-Length: 6\r\n\r\nPOISON")
                await writer.drain()
            else:
                writer.write(b"HTTP/1.1 200 OK\r\nContent-Length: 6\r\n\r\nsecond")
                await writer.drain()
    srv = await asyncio.start_server(handle, "127.0.0.1", 0)
    port = srv.sockets[0].getsockname()[1]
    bad = False
    async with aiohttp.ClientSession() as s:
        async with s.get(f"http://127.0.0.1:{port}/a") as r:
            assert await r.read() == b"first"
        await asyncio.sleep(0.5)
        try:
            async with s.get(f"http://127.0.0.1:{port}/b", timeout=aiohttp.ClientTimeout(total=3)) as r:
                body = await r.read()
                print("second request got", body)
                bad = body != b"second"
        except Exception as e:
            print("second request failed:", repr(e))
            bad = True
    srv.close()
    return 1 if bad else 0

sys.exit(asyncio.run(main()))
