"""F14 (C10, C01): a Content-Length of more than 4300 digits (fits max_field_size) raises a plain ValueError
(Python's int-string digit limit) out of the parser instead of an HTTP protocol error."""
import asyncio, sys
from unittest import mock
import aiohttp
from aiohttp.http_parser import HttpRequestParserPy, HttpResponseParserPy
from aiohttp.http_exceptions import HttpProcessingError
from aiohttp.base_protocol import BaseProtocol

def run(cls, stream):
    loop = asyncio.new_event_loop()
    try:
        proto = mock.Mock(spec=BaseProtocol); proto._reading_paused = False
        p = cls(proto, loop, 2**16)
        try:
            p.feed_data(stream); return "accepted"
        except HttpProcessingError as e:
            return "http-error"
        except Exception as e:
            return f"OTHER {type(e).__name__}: {str(e)[:60]}"
    finally:
        loop.close()
print(aiohttp.__file__)
bad = 0
for n in (4299, 4301, 8000):
    r1 = run(HttpRequestParserPy, b"POST / HTTP/1.1\r\nHost: a\r\nContent-Length: " + b"1" * n + b"\r\n\r\n")
    r2 = run(HttpResponseParserPy, b"HTTP/1.1 200 OK\r\nContent-Length: " + b"1" * n + b"\r\n\r\n")
    print(n, "digits: request ->", r1, "| response ->", r2)
    bad += r1.startswith("OTHER") + r2.startswith("OTHER")
sys.exit(1 if bad else 0)
