"""F89 (C03): lax response parser, optional CR after chunk data is consumed twice when a read ends right after it.
cd /repo && PYTHONPATH=/repo /venv/bin/python /verif/findings/F89.py   Exit 1 if the verdict on `...abc\\r\\r\\n...` depends on the segmentation."""
import asyncio
from unittest import mock

import aiohttp
from aiohttp.http_parser import HttpResponseParserPy
from aiohttp.base_protocol import BaseProtocol

print(aiohttp.__file__)
STREAM = b"HTTP/1.1 200 OK\r\nTransfer-Encoding: chunked\r\n\r\n3\r\nabc\r\r\n0\r\n\r\n"


def run(parts):
    loop = asyncio.new_event_loop()
    proto = BaseProtocol(loop)
    proto.transport = mock.Mock()
    p = HttpResponseParserPy(proto, loop, 2 ** 16, max_line_size=8190, max_field_size=8190)
    try:
        body = None
        for part in parts:
            msgs, up, tail = p.feed_data(part)
            for m, payload in msgs:
                body = payload
        exc = body.exception() if body is not None else None
        return "rejected: " + type(exc).__name__ if exc else "accepted"
    except Exception as e:
        return "rejected: " + type(e).__name__
    finally:
        loop.close()


whole = run([STREAM])
verdicts = {whole}
for i in range(1, len(STREAM)):
    verdicts.add(run([STREAM[:i], STREAM[i:]]))
print("one read:", whole, "| all single cuts:", sorted(verdicts))
raise SystemExit(0 if len(verdicts) == 1 else 1)
