"""F3 (C01, C05, C10): malformed request targets raise ValueError (not an HTTP protocol error)
out of the parser, or only later when the request object is built."""
import asyncio, sys
from unittest import mock
import aiohttp
from aiohttp.http_parser import HttpRequestParserPy
from aiohttp.http_exceptions import HttpProcessingError
from aiohttp.base_protocol import BaseProtocol

def run(stream):
    loop = asyncio.new_event_loop()
    try:
        proto = mock.Mock(spec=BaseProtocol); proto._reading_paused = False
        p = HttpRequestParserPy(proto, loop, 2**16)
        try:
            msgs, _, _ = p.feed_data(stream)
            for m, _ in msgs:
                m.url.host; m.url.port  # what BaseRequest.__init__ / handlers read
            return "accepted"
        except HttpProcessingError as e:
            return "http-error"
        except Exception as e:
            return f"OTHER {type(e).__name__}: {e}"
    finally:
        loop.close()

print(aiohttp.__file__)
bad = 0
for s in (b"GET http://[::1 HTTP/1.1\r\nHost: a\r\n\r\n",
          b"GET http://a:99999999/ HTTP/1.1\r\nHost: a\r\n\r\n",
          b"CONNECT a:b HTTP/1.1\r\nHost: a\r\n\r\n"):
    r = run(s); print(s.split(b"\r\n")[0], "->", r)
    bad += r.startswith("OTHER")
sys.exit(1 if bad else 0)
