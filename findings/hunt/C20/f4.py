"""C20: a connection whose client does not read is still open after cleanup().

"every connection is closed when cleanup returns": RequestHandler.shutdown()
ends with force_close() -> transport.close(), which only *schedules* the close
once the write buffer has been flushed.  A handler blocked in write()/drain()
on a client that stopped reading is cancelled after 2 x shutdown_timeout, but
its socket (and the buffered data) survives AppRunner.cleanup() for as long as
the peer keeps the connection - nothing ever aborts it.
"""
import asyncio
import socket
import sys

import aiohttp
from aiohttp import web

print(aiohttp.__file__)


async def main() -> int:
    log: list[str] = []
    started = asyncio.Event()
    seen = {}

    async def download(request: web.Request) -> web.StreamResponse:
        seen["transport"] = request.transport
        resp = web.StreamResponse()
        await resp.prepare(request)
        started.set()
        try:
            while True:
                await resp.write(b"x" * 65536)
        except asyncio.CancelledError:
            log.append("handler cancelled")
            raise

    app = web.Application()
    app.router.add_get("/", download)
    runner = web.AppRunner(app, shutdown_timeout=0.2)
    await runner.setup()
    site = web.TCPSite(runner, "127.0.0.1", 0)
    await site.start()

    client = socket.socket()
    client.connect(("127.0.0.1", site.port))
    client.sendall(b"GET / HTTP/1.1\r\nHost: x\r\n\r\n")  # ... and never reads
    await started.wait()
    await asyncio.sleep(0.2)  # handler is now blocked on back-pressure

    transport = seen["transport"]
    sock = transport.get_extra_info("socket")
    await runner.cleanup()
    print("cleanup() returned;", log)
    await asyncio.sleep(1.0)
    fd = sock.fileno()
    buffered = transport.get_write_buffer_size()
    client.close()
    if fd == -1:
        print("OK: server side socket closed")
        return 0
    print(
        f"VIOLATION: 1s after cleanup() returned the server-side socket is still open "
        f"(fd={fd}, {buffered} bytes still buffered, transport.is_closing()={transport.is_closing()})"
    )
    return 1


sys.exit(asyncio.run(main()))
