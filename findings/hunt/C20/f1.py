"""C20: idle keep-alive connections are NOT closed "at once" on shutdown.

Documented shutdown sequence (docs/web_advanced.rst, "Graceful shutdown"):
  2. Close idle keep-alive connections ...
  3. Call the Application.on_shutdown signal ...
Server.pre_shutdown() -> RequestHandler.close() only cancels the idle waiter:
the start() task dies with CancelledError and nobody closes the transport.
The socket stays open (and deaf: data_received() drops everything) for as long
as the on_shutdown handlers run; it is only closed by Server.shutdown() later.
"""
import asyncio
import sys

import aiohttp
from aiohttp import web

print(aiohttp.__file__)

ON_SHUTDOWN_TIME = 1.0


async def main() -> int:
    loop = asyncio.get_running_loop()
    obs = {}

    async def hello(request: web.Request) -> web.Response:
        return web.Response(text="ok")

    async def on_shutdown(app: web.Application) -> None:
        # e.g. closing websockets / notifying peers: takes a while
        obs["shutdown_started"] = loop.time()
        await asyncio.sleep(ON_SHUTDOWN_TIME)

    app = web.Application()
    app.router.add_get("/", hello)
    app.on_shutdown.append(on_shutdown)
    runner = web.AppRunner(app, shutdown_timeout=5)
    await runner.setup()
    site = web.TCPSite(runner, "127.0.0.1", 0)
    await site.start()

    r, w = await asyncio.open_connection("127.0.0.1", site.port)
    w.write(b"GET / HTTP/1.1\r\nHost: x\r\n\r\n")
    head = await r.readuntil(b"\r\n\r\nok")
    assert b"200 OK" in head and b"close" not in head.lower(), head
    await asyncio.sleep(0.05)  # the connection is now an idle keep-alive one

    t0 = loop.time()
    cleanup = asyncio.create_task(runner.cleanup())

    # The idle connection must be closed at once, i.e. the client sees EOF
    # long before the on_shutdown handlers are done.
    closed_after = None
    try:
        data = await asyncio.wait_for(r.read(1), ON_SHUTDOWN_TIME / 2)
        if data == b"":
            closed_after = loop.time() - t0
    except asyncio.TimeoutError:
        pass

    swallowed = False
    if closed_after is None:
        # still open: a client may legitimately reuse it -> request is swallowed
        w.write(b"GET / HTTP/1.1\r\nHost: x\r\n\r\n")
        try:
            data = await asyncio.wait_for(r.read(100), ON_SHUTDOWN_TIME / 4)
            obs["second"] = data
        except asyncio.TimeoutError:
            swallowed = True

    await cleanup
    rest = await asyncio.wait_for(r.read(), 1)
    total = loop.time() - t0
    w.close()

    if closed_after is not None:
        print(f"OK: idle keep-alive connection closed {closed_after:.3f}s after shutdown began")
        return 0
    print(
        "VIOLATION: idle keep-alive connection was still open "
        f"{ON_SHUTDOWN_TIME / 2:.2f}s into shutdown (on_shutdown handlers running);"
    )
    print(
        f"  request sent on it during that time: "
        f"{'no answer, no close (swallowed)' if swallowed else obs.get('second')!r}"
    )
    print(f"  it was closed only when cleanup() finished, {total:.2f}s later (tail={rest!r})")
    return 1


sys.exit(asyncio.run(main()))
