# sanity check of the suggested fix for f1 (scratch only; monkeypatch)
import sys, runpy
from aiohttp import web_protocol
def close(self):
    self._close = True
    if self._waiter:
        self._waiter.cancel()
        if self.transport is not None:
            self.transport.close()
web_protocol.RequestHandler.close = close
runpy.run_path("_hunt/f1.py", run_name="__main__")
