"""C20: GunicornWebWorker does not clean up contexts entered before a failing
startup step (the run_app bug, in the third entry point).

GunicornWebWorker._run() awaits runner.setup() and site.start() outside of any
try/finally; runner.cleanup() is only reached after the serve loop.  When a
later cleanup context (or on_startup handler, or binding a socket) fails, the
cleanup code of the contexts whose startup code completed is never run - the
worker just exits.  run_app and AppRunner(+cleanup()) run it, in reverse order.
"""
import asyncio
import socket
import sys
from unittest import mock

import aiohttp
from aiohttp import web
from aiohttp import worker as aio_worker

print(aiohttp.__file__)


class Boom(Exception):
    pass


def make_app(log: list[str], fail_ctx: bool) -> web.Application:
    async def first(app: web.Application):
        log.append("first: startup done")
        yield
        log.append("first: cleanup")

    async def second(app: web.Application):
        if fail_ctx:
            raise Boom("second context fails in startup")
        log.append("second: startup done")
        yield
        log.append("second: cleanup")

    app = web.Application()
    app.cleanup_ctx.append(first)
    app.cleanup_ctx.append(second)
    return app


class Worker(aio_worker.GunicornWebWorker):
    """The worker as gunicorn would set it up (cf. tests/test_worker.py)."""

    def __init__(self, app: web.Application, sockets: list) -> None:
        self.exit_code = 0
        self._notify_waiter = None
        self._task = None
        self.wsgi = app
        self.pid = "pid"
        self.ppid = 1
        self.alive = True
        self.max_requests = 0
        self.sockets = sockets
        self.log = mock.Mock()
        self.cfg = mock.Mock()
        self.cfg.graceful_timeout = 100
        self.cfg.keepalive = 2
        self.cfg.accesslog = None
        self.cfg.access_log_format = '%a "%{Referrer}i" %s'
        self.cfg.is_ssl = False
        self.notify = mock.Mock()


def through_gunicorn(log: list[str], fail_ctx: bool, sockets: list) -> str:
    w = Worker(make_app(log, fail_ctx), sockets)
    w.loop = asyncio.new_event_loop()
    asyncio.set_event_loop(w.loop)
    try:
        w.run()  # what gunicorn calls; ends with sys.exit()
    except SystemExit as exc:
        return f"SystemExit({exc.code})"
    except BaseException as exc:  # noqa: BLE001
        return f"{type(exc).__name__}: {exc}"
    return "returned"


def through_run_app(log: list[str]) -> str:
    try:
        web.run_app(
            make_app(log, True), host="127.0.0.1", port=0, print=None,
            handle_signals=False, loop=asyncio.new_event_loop(),
        )
    except BaseException as exc:  # noqa: BLE001
        return f"{type(exc).__name__}: {exc}"
    return "returned"


bad = 0

log: list[str] = []
print("run_app,  2nd ctx fails :", through_run_app(log), log)
assert log == ["first: startup done", "first: cleanup"], log

log = []
print("gunicorn, 2nd ctx fails :", through_gunicorn(log, True, []), log)
if log != ["first: startup done", "first: cleanup"]:
    print("  VIOLATION: startup code of 'first' completed, its cleanup code never ran")
    bad += 1

# same with a startup step after the contexts: binding the listening socket
# a socket the event loop refuses to serve on (create_server() raises ValueError)
s = socket.socket(socket.AF_INET, socket.SOCK_DGRAM)
s.bind(("127.0.0.1", 0))
log = []
print("gunicorn, site.start() fails:", through_gunicorn(log, False, [s]), log)
s.close()
want = ["first: startup done", "second: startup done", "second: cleanup", "first: cleanup"]
if log != want:
    print("  VIOLATION: both contexts started, no cleanup code ran")
    bad += 1

sys.exit(1 if bad else 0)
