"""C20: a handler whose client has gone away is never cancelled on shutdown.

With the default handler_cancellation=False a handler keeps running after its
client disconnected.  RequestHandler.connection_lost() then sets
self._task_handler = None, so RequestHandler.shutdown() - which still waits
shutdown_timeout for the request (_request_in_progress is True) - has no task
left to wait for a second time or to cancel.  The handler survives
AppRunner.cleanup(): it is still running after the cleanup contexts were exited.
A connected client (control run) is cancelled after 2 x shutdown_timeout.
"""
import asyncio
import sys

import aiohttp
from aiohttp import web

print(aiohttp.__file__)

TIMEOUT = 0.2


async def scenario(disconnect: bool) -> dict:
    loop = asyncio.get_running_loop()
    log: list[str] = []
    started = asyncio.Event()

    async def slow(request: web.Request) -> web.Response:
        started.set()
        try:
            await asyncio.sleep(3600)  # e.g. long poll / slow backend
        except asyncio.CancelledError:
            log.append("handler cancelled")
            raise
        finally:
            log.append("handler finished")
        return web.Response(text="ok")

    async def db(app: web.Application):
        log.append("ctx startup")
        yield
        log.append("ctx cleanup")

    app = web.Application()
    app.router.add_get("/", slow)
    app.cleanup_ctx.append(db)
    runner = web.AppRunner(app, shutdown_timeout=TIMEOUT)
    await runner.setup()
    site = web.TCPSite(runner, "127.0.0.1", 0)
    await site.start()

    r, w = await asyncio.open_connection("127.0.0.1", site.port)
    w.write(b"GET / HTTP/1.1\r\nHost: x\r\n\r\n")
    await started.wait()
    if disconnect:
        w.close()
        await w.wait_closed()
        await asyncio.sleep(0.05)  # server sees connection_lost; handler goes on

    t0 = loop.time()
    await runner.cleanup()
    took = loop.time() - t0
    await asyncio.sleep(4 * TIMEOUT)  # far beyond "twice the timeout"
    me = asyncio.current_task()
    alive = [t for t in asyncio.all_tasks() if t is not me and not t.done()]
    res = {"log": list(log), "cleanup_took": took, "alive": alive}
    if not disconnect:
        w.close()
    for t in alive:  # tidy up so that asyncio.run() can finish
        t.cancel()
    await asyncio.gather(*alive, return_exceptions=True)
    return res


async def main() -> int:
    ctl = await scenario(disconnect=False)
    print("control (client connected):", ctl["log"], f"cleanup took {ctl['cleanup_took']:.2f}s")
    assert "handler cancelled" in ctl["log"] and not ctl["alive"], ctl

    res = await scenario(disconnect=True)
    print("client disconnected      :", res["log"], f"cleanup took {res['cleanup_took']:.2f}s")
    if "handler cancelled" in res["log"] and not res["alive"]:
        print("OK: handler was cancelled during shutdown")
        return 0
    print(
        "VIOLATION: cleanup() returned (cleanup context exited) but the request "
        "handler was not cancelled; still running tasks "
        f"{4 * TIMEOUT:.1f}s later:"
    )
    for t in res["alive"]:
        print("   ", t.get_coro().__qualname__)
    return 1


sys.exit(asyncio.run(main()))
