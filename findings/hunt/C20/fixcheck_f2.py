# sanity check of the suggested fix for f2 (scratch only; monkeypatch)
import runpy
from aiohttp import web_protocol
orig = web_protocol.RequestHandler.connection_lost
def connection_lost(self, exc):
    task = self._task_handler
    cancel = self._manager is not None and self._manager.handler_cancellation
    orig(self, exc)
    if task is not None and not cancel and not task.done():
        self._task_handler = task   # shutdown() can still wait for / cancel it
web_protocol.RequestHandler.connection_lost = connection_lost
runpy.run_path("_hunt/f2.py", run_name="__main__")
