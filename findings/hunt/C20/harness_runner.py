import asyncio, sys, itertools
import aiohttp
from aiohttp import web
print(aiohttp.__file__)

class Boom(Exception): pass

def build(fail, log):
    # tree: root(ctx r1,r2 ; sub A (a1,a2; subsub C (c1)); sub B (b1))
    def mkctx(name):
        async def ctx(app):
            log.append(("enter", name))
            if ("setup", name) in fail:
                raise Boom(name)
            log.append(("entered", name))
            yield
            log.append(("exit", name))
            if ("teardown", name) in fail:
                raise Boom(name)
        return ctx
    def mksig(kind, name):
        async def h(app):
            log.append((kind, name))
            if (kind, name) in fail:
                raise Boom(kind + name)
        return h
    def mkapp(name, ctxs):
        app = web.Application()
        for c in ctxs:
            app.cleanup_ctx.append(mkctx(c))
        for kind in ("startup", "shutdown", "cleanup"):
            getattr(app, "on_" + kind).append(mksig(kind, name))
        return app
    root = mkapp("R", ["r1", "r2"])
    A = mkapp("A", ["a1", "a2"])
    C = mkapp("C", ["c1"])
    B = mkapp("B", ["b1"])
    A.add_subapp("/c", C)
    root.add_subapp("/a", A)
    root.add_subapp("/b", B)
    return root

async def via_runner(fail, log):
    app = build(fail, log)
    runner = web.AppRunner(app)
    try:
        try:
            await runner.setup()
        except Boom:
            pass
    finally:
        try:
            await runner.cleanup()
        except (Boom, web.CleanupError if hasattr(web, "CleanupError") else Boom, Exception) as e:
            pass

def check(fail, log, tag):
    entered = [n for k, n in log if k == "entered"]
    exits = [n for k, n in log if k == "exit"]
    ok = True
    if sorted(entered) != sorted(exits) or len(set(exits)) != len(exits):
        print(tag, "MISMATCH", sorted(fail), "entered", entered, "exits", exits); ok = False
    elif exits != entered[::-1]:
        print(tag, "ORDER", sorted(fail), "entered", entered, "exits", exits); ok = False
    return ok

names = ["r1","r2","a1","a2","c1","b1"]
steps = [("setup", n) for n in names] + [("teardown", n) for n in names] + \
        [(k, a) for k in ("startup","shutdown","cleanup") for a in "RACB"]
bad = 0
for k in (0,1,2):
    for fail in itertools.combinations(steps, k):
        log = []
        asyncio.run(via_runner(set(fail), log))
        if not check(fail, log, "runner"):
            bad += 1
print("bad", bad)
