import asyncio, sys, itertools, logging
sys.argv = ["x"]
exec(open("_hunt/harness_runner.py").read().split("names = [")[0])
from aiohttp.web_runner import GracefulExit
logging.disable(logging.CRITICAL)
def stop():
    raise GracefulExit()
def via_run_app(fail, log):
    app = build(fail, log)
    loop = asyncio.new_event_loop()
    async def trig(app):
        loop.call_later(0.001, stop)
    app.on_startup.append(trig)
    try:
        web.run_app(app, host="127.0.0.1", port=0, print=None, loop=loop, handle_signals=False)
    except (Boom, web.CleanupError if hasattr(web,"CleanupError") else Boom, Exception):
        pass
names = ["r1","r2","a1","a2","c1","b1"]
steps = [("setup", n) for n in names] + [("teardown", n) for n in names] + \
        [(k, a) for k in ("startup","shutdown","cleanup") for a in "RACB"]
bad = 0
for k in (0,1,2):
    for fail in itertools.combinations(steps, k):
        log = []
        via_run_app(set(fail), log)
        entered = [n for kk, n in log if kk == "entered"]
        exits = [n for kk, n in log if kk == "exit"]
        if sorted(entered) != sorted(exits):
            print("MISMATCH", sorted(fail), entered, exits); bad += 1
print("bad", bad)
log=[]; via_run_app(set(), log); print(log)
