"""C07 finding 2: connect() reuses an idle pooled connection without checking `limit`.

limit=1, endpoints A and B.
  1. GET A completes; its keep-alive connection sits idle in the pool (not counted).
  2. GET B starts and is in flight -> 1/1 connections in use, the connector is full.
  3. GET A is issued.  It must wait for the slot; instead the fast path at the top of
     BaseConnector.connect() takes A's idle connection straight from the pool, so two
     connections are in use at the same time with limit=1.
A request for B issued at the same moment (no idle connection) correctly waits.
"""
import asyncio
import sys

import aiohttp
from aiohttp import web

print("aiohttp:", aiohttp.__file__)

in_flight = 0
max_in_flight = 0
gate = None


async def handler(request):
    global in_flight, max_in_flight
    if request.query.get("hold"):
        in_flight += 1
        max_in_flight = max(max_in_flight, in_flight)
        try:
            await gate.wait()
        finally:
            in_flight -= 1
    return web.Response(text="ok")


async def start_server():
    app = web.Application()
    app.router.add_get("/", handler)
    runner = web.AppRunner(app)
    await runner.setup()
    site = web.TCPSite(runner, "127.0.0.1", 0)
    await site.start()
    port = site._server.sockets[0].getsockname()[1]
    return runner, f"http://127.0.0.1:{port}/"


async def main():
    global gate
    gate = asyncio.Event()
    ra, url_a = await start_server()
    rb, url_b = await start_server()
    conn = aiohttp.TCPConnector(limit=1)
    session = aiohttp.ClientSession(connector=conn)
    rc = 0
    try:

        async def get(url, **params):
            async with session.get(url, params=params) as resp:
                return await resp.text()

        await get(url_a)  # 1. leaves an idle connection to A in the pool
        assert len(conn._acquired) == 0

        t_b = asyncio.ensure_future(get(url_b, hold="1"))  # 2. fills the only slot
        while in_flight < 1:
            await asyncio.sleep(0.01)
        assert len(conn._acquired) == 1

        t_b2 = asyncio.ensure_future(get(url_b, hold="1"))  # control: must wait
        t_a = asyncio.ensure_future(get(url_a, hold="1"))  # 3. must wait as well
        await asyncio.sleep(0.3)

        in_use = len(conn._acquired)
        print(f"limit={conn.limit} connections in use={in_use} "
              f"requests being served concurrently={in_flight} "
              f"waiters={sum(len(q) for q in conn._waiters.values())}")
        if in_use > conn.limit or max_in_flight > conn.limit:
            print(f"VIOLATION: {in_use} connections in use at once with limit={conn.limit} "
                  f"(server saw {max_in_flight} concurrent requests)")
            rc = 1
        gate.set()
        await asyncio.gather(t_a, t_b, t_b2)
    finally:
        gate.set()
        await session.close()
        await ra.cleanup()
        await rb.cleanup()
    return rc


sys.exit(asyncio.run(main()))
