"""C07 finding 3: a connection is leaked when a connection-trace callback fails or the
request is cancelled while the callback runs.

BaseConnector.connect() awaits trace.send_connection_create_end() *after*
_create_connection() has returned the established protocol but while only the
placeholder is registered.  If that await raises (callback error, task cancellation,
connect/total timeout) the except branch drops the placeholder and re-raises; the
new protocol/transport is referenced by nothing in the connector, is never closed,
and connector.close()/session.close() cannot close it either.

BaseConnector._get() has the same hole for send_connection_reuseconn(): the pooled
connection was already popped from the pool; on failure it is only un-counted, not
closed and not put back.

A raw asyncio server counts the TCP connections it still has open.
"""
import asyncio
import gc
import sys

import aiohttp

print("aiohttp:", aiohttp.__file__)

open_conns = set()


class Srv(asyncio.Protocol):
    def connection_made(self, transport):
        self.transport = transport
        open_conns.add(self)

    def connection_lost(self, exc):
        open_conns.discard(self)

    def data_received(self, data):
        if b"\r\n\r\n" in data:
            self.transport.write(
                b"HTTP/1.1 200 OK\r\nContent-Length: 2\r\n\r\nok"
            )


async def scenario(name, make_trace, run):
    open_conns.clear()
    loop = asyncio.get_running_loop()
    server = await loop.create_server(Srv, "127.0.0.1", 0)
    port = server.sockets[0].getsockname()[1]
    url = f"http://127.0.0.1:{port}/"
    tc = aiohttp.TraceConfig()
    make_trace(tc)
    conn = aiohttp.TCPConnector(limit=1)
    session = aiohttp.ClientSession(connector=conn, trace_configs=[tc])
    try:
        outcome = await run(session, url)
    finally:
        counted = len(conn._acquired)
        pooled = sum(len(v) for v in conn._conns.values())
        await session.close()  # closes the connector: must close every connection
    gc.collect()  # garbage collection does not rescue it: the loop's selector keeps the transport alive
    await asyncio.sleep(0.3)
    gc.collect()
    await asyncio.sleep(0.1)
    leaked = len(open_conns)
    print(f"[{name}] request outcome: {outcome}; before close: in_use={counted} "
          f"pooled={pooled}; after session.close(): server still has {leaked} open connection(s)")
    for p in list(open_conns):
        p.transport.abort()
    server.close()
    await server.wait_closed()
    return leaked


async def main():
    failures = []

    # (a) on_connection_create_end raises
    def trace_a(tc):
        async def cb(session, ctx, params):
            raise RuntimeError("boom in on_connection_create_end")

        tc.on_connection_create_end.append(cb)

    async def run_a(session, url):
        try:
            async with session.get(url) as resp:
                return await resp.text()
        except RuntimeError as exc:
            return f"RuntimeError({exc})"

    if await scenario("create_end raises", trace_a, run_a):
        failures.append("on_connection_create_end raising leaks the new connection")

    # (b) request cancelled while on_connection_create_end is running
    def trace_b(tc):
        async def cb(session, ctx, params):
            await asyncio.sleep(0.2)

        tc.on_connection_create_end.append(cb)

    async def run_b(session, url):
        try:
            async with asyncio.timeout(0.1):
                async with session.get(url) as resp:
                    return await resp.text()
        except TimeoutError:
            return "cancelled by caller after 0.1s"

    if await scenario("cancelled in create_end", trace_b, run_b):
        failures.append("cancellation during on_connection_create_end leaks the new connection")

    # (c) on_connection_reuseconn raises: pooled connection vanishes without being closed
    def trace_c(tc):
        async def cb(session, ctx, params):
            raise RuntimeError("boom in on_connection_reuseconn")

        tc.on_connection_reuseconn.append(cb)

    async def run_c(session, url):
        async with session.get(url) as resp:
            await resp.text()  # connection goes to the pool
        try:
            async with session.get(url) as resp:
                return await resp.text()
        except RuntimeError as exc:
            return f"RuntimeError({exc})"

    if await scenario("reuseconn raises", trace_c, run_c):
        failures.append("on_connection_reuseconn raising leaks the pooled connection")

    if failures:
        for f in failures:
            print("VIOLATION:", f)
        return 1
    print("no leak")
    return 0


sys.exit(asyncio.run(main()))
