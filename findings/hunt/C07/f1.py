"""C07 finding 1: a wake-up is spent on a waiter that cannot use the slot.

limit=2, limit_per_host=1, endpoints A and B.  A1 and B1 are in use; WA1, WA2 wait
for A and WB waits for B.  A1 and B1 are released back to back (same loop tick).
_release_waiter() does not know that WA1 was already woken for A's only per-host
slot, so (depending on random.shuffle) it wakes WA2 for the second freed slot.
WA2 cannot use it (per-host limit) and silently goes back to sleep; WB, which could
use it, is never woken and stays blocked although the connector is at 1/2 overall and
0/1 for B.  It stays blocked for as long as WA1's request runs (here: until its
connect timeout expires).
"""
import asyncio
import sys

import aiohttp
from aiohttp import web

print("aiohttp:", aiohttp.__file__)

TRIALS = 40


async def start_server(name, hits, gates):
    async def handler(request):
        tag = request.query.get("tag", "")
        hits.append((name, tag))
        if tag in gates:
            await gates[tag].wait()
        return web.Response(text="ok")

    app = web.Application()
    app.router.add_get("/", handler)
    runner = web.AppRunner(app)
    await runner.setup()
    site = web.TCPSite(runner, "127.0.0.1", 0)
    await site.start()
    port = site._server.sockets[0].getsockname()[1]
    return runner, f"http://127.0.0.1:{port}/"


async def trial(n):
    hits = []
    gates = {"A1": asyncio.Event(), "B1": asyncio.Event(), "WA1": asyncio.Event()}
    ra, url_a = await start_server("A", hits, gates)
    rb, url_b = await start_server("B", hits, gates)
    conn = aiohttp.TCPConnector(limit=2, limit_per_host=1)
    timeout = aiohttp.ClientTimeout(total=None, connect=3)
    session = aiohttp.ClientSession(connector=conn, timeout=timeout)
    bad = None
    try:

        async def get(url, tag):
            async with session.get(url, params={"tag": tag}) as resp:
                return await resp.text()

        # A1 and B1 occupy both slots (handlers are blocked, so the requests are in flight)
        t_a1 = asyncio.ensure_future(get(url_a, "A1"))
        t_b1 = asyncio.ensure_future(get(url_b, "B1"))
        while len(hits) < 2:
            await asyncio.sleep(0.01)
        assert len(conn._acquired) == 2

        # three waiters, queued in this order
        t_wa1 = asyncio.ensure_future(get(url_a, "WA1"))
        await asyncio.sleep(0.02)
        t_wa2 = asyncio.ensure_future(get(url_a, "WA2"))
        await asyncio.sleep(0.02)
        t_wb = asyncio.ensure_future(get(url_b, "WB"))
        await asyncio.sleep(0.02)
        nwait = sum(len(q) for q in conn._waiters.values())
        assert nwait == 3, nwait

        # Both in-flight requests are abandoned in the same tick: A first, then B.
        t_a1.cancel()
        t_b1.cancel()
        await asyncio.gather(t_a1, t_b1, return_exceptions=True)
        gates["A1"].set()
        gates["B1"].set()

        # give everything ample time to make progress
        await asyncio.sleep(0.5)
        in_use = len(conn._acquired)
        in_use_b = sum(
            len(v) for k, v in conn._acquired_per_host.items() if str(k.port) in url_b
        )
        wb_reached_server = ("B", "WB") in hits
        if not wb_reached_server and in_use < 2 and in_use_b < 1:
            bad = (
                f"trial {n}: WB is still waiting for a slot although only {in_use}/2 "
                f"connections are in use overall and {in_use_b}/1 for endpoint B "
                f"(server hits so far: {hits})"
            )
            # how long does it stay stuck?  until WA1 finishes -- here never, so the
            # connect timeout (3s) kills it.
            try:
                await asyncio.wait_for(asyncio.shield(t_wb), 4)
                bad += "; WB finished late"
            except Exception as exc:  # noqa: BLE001
                bad += f"; WB ended with {type(exc).__name__}: {exc}"
        gates["WA1"].set()
        await asyncio.gather(t_wa1, t_wa2, t_wb, return_exceptions=True)
    finally:
        for g in gates.values():
            g.set()
        await session.close()
        await ra.cleanup()
        await rb.cleanup()
    return bad


async def main():
    for n in range(TRIALS):
        bad = await trial(n)
        if bad:
            print("VIOLATION:", bad)
            return 1
    print("no lost wake-up observed in", TRIALS, "trials")
    return 0


sys.exit(asyncio.run(main()))
