"""Parser fuzz with tiny read limits (pause/resume paths) and body comparison."""
import asyncio, random, sys, time, traceback, zlib, gzip
sys.path.insert(0, "_hunt")
import aiohttp
from aiohttp import http_exceptions
from aiohttp.base_protocol import BaseProtocol
from aiohttp.http_parser import HttpRequestParser, HttpResponseParser
from fuzz1_lib import mutate, split
print(aiohttp.__file__)
loop = asyncio.new_event_loop()

class Proto(BaseProtocol):
    def __init__(self, loop):
        super().__init__(loop); self.resumes = 0
    def data_received(self, data):
        # like real protocols: resume parser
        self.resumes += 1
        self.out.extend(self._parser.feed_data(data)[0])

def chunked(body, sizes):
    out = b""; i = 0
    for s in sizes:
        if i >= len(body): break
        piece = body[i:i+s]; i += len(piece)
        out += b"%x\r\n" % len(piece) + piece + b"\r\n"
    if i < len(body):
        piece = body[i:]; out += b"%x\r\n" % len(piece) + piece + b"\r\n"
    return out + b"0\r\n\r\n"

def seeds(rng):
    raw = bytes(rng.randrange(256) for _ in range(rng.randint(0, 300))) if rng.random() < .5 else b"abc" * rng.randint(0, 4000)
    enc = rng.choice([None, "gzip", "deflate"])
    body = raw
    if enc == "gzip": body = gzip.compress(raw)
    elif enc == "deflate": body = zlib.compress(raw)
    h = b""
    if enc: h += b"Content-Encoding: " + enc.encode() + b"\r\n"
    if rng.random() < .5:
        h += b"Transfer-Encoding: chunked\r\n"
        b = chunked(body, [rng.randint(1, 50) for _ in range(rng.randint(1, 20))])
    else:
        h += b"Content-Length: %d\r\n" % len(body); b = body
    kind = rng.choice(["req", "resp"])
    if kind == "req":
        return kind, b"POST / HTTP/1.1\r\nHost: a\r\n" + h + b"\r\n" + b + b"GET /n HTTP/1.1\r\nHost: a\r\n\r\n", raw
    return kind, b"HTTP/1.1 200 OK\r\n" + h + b"\r\n" + b + b"HTTP/1.1 204 N\r\n\r\n", raw

def run(kind, parts, limit):
    proto = Proto(loop)
    cls = HttpRequestParser if kind == "req" else HttpResponseParser
    p = cls(proto, loop, limit)
    proto._parser = p; proto.out = []
    bodies = []
    err = None
    def drain():
        # consume like a reader: read everything buffered, which resumes the protocol
        n = 0
        for m, pl in proto.out:
            while pl._buffer:
                n += 1
                if n > 200000: raise RuntimeError("HANG in drain")
                pl._bodies.append(pl.read_nowait(-1)) if hasattr(pl, "_bodies") else None
    msgs_all = []
    datas = {}
    try:
        for part in parts:
            msgs, up, tail = p.feed_data(part)
            proto.out.extend(msgs)
            # reader drains: read_nowait triggers resume_reading -> data_received(b"")
            k = 0
            progress = True
            while progress:
                progress = False
                for i, (m, pl) in enumerate(list(proto.out)):
                    if getattr(pl, "_buffer", None):
                        datas.setdefault(i, bytearray()).extend(pl.read_nowait(-1)); progress = True
                if p._payload_has_more_data and not progress:
                    # reader empty but parser has pending input: resume
                    proto.resume_reading(); progress = True
                k += 1
                if k > 100000: return ("HANG",), None
    except http_exceptions.HttpProcessingError as e:
        err = type(e).__name__
    res = []
    for i, (m, pl) in enumerate(proto.out):
        res.append((m[0] if kind == "req" else m[1], bytes(datas.get(i, b"")), pl.is_eof(), type(pl.exception()).__name__ if pl.exception() else None))
    return (err, res), p

def main():
    seed = int(sys.argv[1]) if len(sys.argv) > 1 else 0
    dur = float(sys.argv[2]) if len(sys.argv) > 2 else 20
    rng = random.Random(seed); t0 = time.time(); n = 0; seen = set()
    while time.time() - t0 < dur:
        n += 1
        kind, s, raw = seeds(rng)
        clean = True
        if rng.random() < .3:
            s = mutate(rng, s); clean = False
        parts = split(rng, s) if rng.random() < .8 else [s]
        limit = rng.choice([2**16, 1, 7, 64])
        try:
            a, p = run(kind, parts, limit)
            b, p2 = run(kind, [s], 2**16)
        except BaseException as e:
            key = (type(e).__name__, traceback.extract_tb(e.__traceback__)[-1][:2])
            if key not in seen:
                seen.add(key); print("EXC", key, kind, repr(s[:200]), [len(x) for x in parts][:20], limit); traceback.print_exc()
            continue
        if a[0] == "HANG":
            print("HANG", kind, repr(s[:300]), limit); continue
        if clean:
            ok = a[0] is None and len(a[1]) == 2 and a[1][0][1] == raw and a[1][0][2] and a[1][0][3] is None
            if not ok:
                key = ("clean", str(a)[:50])
                if key not in seen:
                    seen.add(key); print("CLEANFAIL", kind, limit, [len(x) for x in parts][:30], repr(s[:200]), "\n  got", str(a)[:400], "\n raw", raw[:50], len(raw))
        else:
            # compare bodies where both are error-free
            if a[0] is None and b[0] is None and all(x[3] is None for x in a[1] + b[1]) and a != b:
                key = ("diff", str(a)[:30])
                if key not in seen:
                    seen.add(key); print("DIFF", kind, limit, [len(x) for x in parts][:30], repr(s[:300]), "\n  seg", str(a)[:300], "\n  whole", str(b)[:300])
    print("iterations", n)
main()
