"""C10 / finding 2.

Limits that are hit inside a chunked body (chunk-size line / chunk extension
longer than max_line_size, trailer field longer than max_field_size, more
trailer fields than max_headers allows) are not turned into a protocol error:

* HttpParser.feed_data() does not raise.  It only marks the body stream as
  failed, silently throws away the rest of the current read, forgets the body
  parser and carries on: the bytes of the *next* read are parsed as a brand new
  message (here: a request that the sender only ever put inside a body).
* Consequently the server never answers 400 for these inputs: a handler that
  does not read the body answers 200, one that reads it answers 500.

The very same violations in the header block, and other chunk framing errors
(non-hex size), are raised from feed_data() and answered with 400.

exit 1 = bug present.
"""
import asyncio
import logging
import re
import sys

import aiohttp
from aiohttp import web
from aiohttp.base_protocol import BaseProtocol
from aiohttp.http_exceptions import HttpProcessingError
from aiohttp.http_parser import HttpRequestParser

print("aiohttp from", aiohttp.__file__)
logging.getLogger("aiohttp").setLevel(logging.CRITICAL)

MAX_LINE = 64
MAX_FIELD = 64
MAX_HEADERS = 16

HEAD = b"POST /upload HTTP/1.1\r\nHost: a\r\nTransfer-Encoding: chunked\r\n\r\n"
SMUGGLED = b"GET /smuggled HTTP/1.1\r\nHost: a\r\n\r\n"

CASES = {
    # name: body that violates a limit (each one byte / one field over)
    "chunk-size line > max_line_size": b"0" * MAX_LINE + b"3\r\nabc\r\n0\r\n\r\n",
    "chunk extension > max_line_size": b"3;" + b"e" * (MAX_LINE - 1) + b"\r\nabc\r\n0\r\n\r\n",
    "trailer field > max_field_size": b"3\r\nabc\r\n0\r\nT: " + b"v" * (MAX_FIELD - 2) + b"\r\n\r\n",
    "more trailers than max_headers": b"3\r\nabc\r\n0\r\n"
    + b"".join(b"T%d: v\r\n" % i for i in range(MAX_HEADERS + 1))
    + b"\r\n",
}
CONTROL = {
    "control: header field > max_field_size": (
        b"POST /upload HTTP/1.1\r\nHost: a\r\nX: " + b"v" * (MAX_FIELD - 2) + b"\r\n\r\n"
    ),
    "control: non-hex chunk size": HEAD + b"zz\r\nabc\r\n0\r\n\r\n",
}

BAD = []


class Proto(BaseProtocol):
    def data_received(self, data: bytes) -> None:
        pass


def parser_level() -> None:
    loop = asyncio.new_event_loop()

    def run(reads: list[bytes]) -> tuple[list[str], str | None]:
        proto = Proto(loop)
        parser = HttpRequestParser(
            proto,
            loop,
            2**16,
            max_line_size=MAX_LINE,
            max_field_size=MAX_FIELD,
            max_headers=MAX_HEADERS,
        )
        proto._parser = parser
        out: list[str] = []
        try:
            for data in reads:
                msgs, _, _ = parser.feed_data(data)
                out += [f"{m.method} {m.path}" for m, _ in msgs]
        except HttpProcessingError as exc:
            return out, type(exc).__name__
        return out, None

    for name, data in CONTROL.items():
        msgs, err = run([data, SMUGGLED])
        print(f"[parser] {name:42s} messages={msgs} error={err}")
        assert err is not None, "control must be rejected"

    for name, body in CASES.items():
        # read 1: the request with the offending body (+ some more body bytes),
        # read 2: what the sender still considers body data.
        msgs, err = run([HEAD + body, SMUGGLED])
        verdict = "ok"
        if err is None:
            verdict = "NOT REJECTED"
            if "GET /smuggled" in msgs:
                verdict += ", next read parsed as a new request"
            BAD.append(("parser", name, msgs))
        print(f"[parser] {name:42s} messages={msgs} error={err}  -> {verdict}")
    loop.close()


async def server_level() -> None:
    async def handler(request: web.Request) -> web.Response:
        if request.path == "/read":
            await request.read()
        return web.Response(text="handled " + request.path)

    app = web.Application()
    app.router.add_route("*", "/{tail:.*}", handler)
    runner = web.AppRunner(
        app,
        max_line_size=MAX_LINE,
        max_field_size=MAX_FIELD,
        max_headers=MAX_HEADERS,
    )
    await runner.setup()
    site = web.TCPSite(runner, "127.0.0.1", 0)
    await site.start()
    port = site._server.sockets[0].getsockname()[1]  # type: ignore[union-attr]

    async def talk(data: bytes) -> list[bytes]:
        r, w = await asyncio.open_connection("127.0.0.1", port)
        w.write(data)
        await w.drain()
        buf = b""
        try:
            while True:
                part = await asyncio.wait_for(r.read(65536), 1)
                if not part:
                    break
                buf += part
        except (asyncio.TimeoutError, ConnectionError):
            pass
        w.close()
        return re.findall(rb"HTTP/1\.[01] (\d\d\d)", buf)

    for name, data in CONTROL.items():
        print(f"[server] {name:42s} statuses={await talk(data)}")
    for path in (b"/noread", b"/read"):
        for name, body in CASES.items():
            st = await talk(HEAD.replace(b"/upload", path) + body)
            ok = st == [b"400"]
            print(f"[server] {path.decode():8s}{name:34s} statuses={st}  ->", "ok" if ok else "NOT A 400")
            if not ok:
                BAD.append(("server", path.decode(), name, st))
    await runner.cleanup()


parser_level()
try:
    asyncio.run(server_level())
except OSError as exc:  # no loopback: parser-level result stands
    print("loopback not available:", exc)

if BAD:
    print(f"\nFAIL: {len(BAD)} limit violations inside a chunked body were not rejected")
    sys.exit(1)
print("OK")
