import asyncio, sys
sys.path.insert(0, "_hunt")
import aiohttp
from aiohttp import http_exceptions
from fuzz1_lib import mk
print(aiohttp.__file__)

def feed(kind, data, mls, mfs, mh, mode):
    p = mk(kind, mls, mfs, mh)
    pls = []
    try:
        parts = [data] if mode == "whole" else [data[i:i+1] for i in range(len(data))]
        for part in parts:
            msgs, up, tail = p.feed_data(part)
            pls += [pl for _, pl in msgs]
    except http_exceptions.HttpProcessingError as e:
        return "ERR " + type(e).__name__
    for pl in pls:
        if pl.exception() is not None:
            return "PLEXC " + str(pl.exception()).replace("\n", " ")[:60]
    return "OK msgs=%d eof=%s" % (len(pls), [pl.is_eof() for pl in pls])

L = 32
def line(prefix, total, fill=b"a"):
    return prefix + fill * (total - len(prefix))

for kind in ("req", "resp"):
    for eol in ((b"\r\n",) if kind == "req" else (b"\r\n", b"\n")):
        start = (lambda n: line(b"POST /", n - 9) + b" HTTP/1.1") if kind == "req" else (lambda n: line(b"HTTP/1.1 200 ", n))
        base_start = b"POST / HTTP/1.1" if kind == "req" else b"HTTP/1.1 200 OK"
        hdrs = b"Host: a" + eol + b"Transfer-Encoding: chunked" + eol
        for delta in (-1, 0, 1):
            n = L + delta
            cases = {
                "startline": start(n) + eol + hdrs + eol + b"0" + eol + eol,
                "field": base_start + eol + hdrs + line(b"X: ", n) + eol + eol + b"0" + eol + eol,
                "chunksize": base_start + eol + hdrs + eol + line(b"", n, b"0") [:-1] + b"1" + eol + b"a" + eol + b"0" + eol + eol,
                "chunkext": base_start + eol + hdrs + eol + line(b"1;", n) + eol + b"a" + eol + b"0" + eol + eol,
                "lastchunkext": base_start + eol + hdrs + eol + line(b"0;", n) + eol + eol,
                "trailer": base_start + eol + hdrs + eol + b"0" + eol + line(b"T: ", n) + eol + eol,
            }
            for name, data in cases.items():
                # start line limit = L (others 100) for startline/chunk*, field limit = L for field/trailer
                if name in ("field", "trailer"):
                    mls, mfs = 100, L
                else:
                    mls, mfs = L, 100
                r1 = feed(kind, data, mls, mfs, 128, "whole")
                r2 = feed(kind, data, mls, mfs, 128, "bytes")
                expect_ok = delta <= 0
                flag = ""
                if r1.startswith("OK") != expect_ok or r2.startswith("OK") != expect_ok or r1[:3] != r2[:3]:
                    flag = "   <<<<<<"
                print(kind, repr(eol), name, "len=L%+d" % delta, "|", r1, "|", r2, flag)
