import asyncio, sys, logging
import aiohttp
from aiohttp import web
print(aiohttp.__file__)
logging.basicConfig(level=logging.DEBUG)
async def handler(request):
    return web.Response(text="hello " + request.path)

async def talk(port, segs, delay=0.05):
    r, w = await asyncio.open_connection("127.0.0.1", port)
    for s in segs:
        try:
            w.write(s); await w.drain()
        except Exception as e:
            print("write exc", e)
        await asyncio.sleep(delay)
    try:
        data = await asyncio.wait_for(r.read(65536), 2)
    except asyncio.TimeoutError:
        data = b"<timeout>"
    except Exception as e:
        data = repr(e).encode()
    w.close()
    return data

async def main():
    app = web.Application(); app.router.add_route("*", "/{tail:.*}", handler)
    runner = web.AppRunner(app); await runner.setup()
    site = web.TCPSite(runner, "127.0.0.1", 0); await site.start()
    port = site._server.sockets[0].getsockname()[1]
    head = b"POST / HTTP/1.1\r\nHost: a\r\nTransfer-Encoding: chunked\r\n\r\n"
    print(await talk(port, [head + b"zz\r\n"]))
    print(await talk(port, [head, b"zz\r\n"]))
    await runner.cleanup()
asyncio.run(main())
