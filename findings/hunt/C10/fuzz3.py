"""Client-level fuzz: ResponseHandler + fake transport; reader awaits concurrently."""
import asyncio, random, sys, time, traceback
sys.path.insert(0, "_hunt")
import aiohttp
from aiohttp import http_exceptions
from aiohttp.client_proto import ResponseHandler
from aiohttp.client_exceptions import ClientError
from fuzz1_lib import RESP_SEEDS, mutate, split
print(aiohttp.__file__)

class Tr(asyncio.Transport):
    def __init__(self): super().__init__(); self.closed=False
    def write(self, d): pass
    def close(self): self.closed=True
    def is_closing(self): return self.closed
    def pause_reading(self): pass
    def resume_reading(self): pass
    def get_extra_info(self, n, default=None): return default
    def abort(self): self.closed=True

async def reader(proto, res):
    try:
        while True:
            msg, payload = await proto.read()
            res.append(("msg", msg.code))
            try:
                while True:
                    d = await payload.readany()
                    if not d: break
            except Exception as e:
                res.append(("payload_exc", type(e)))
                return
    except Exception as e:
        res.append(("read_exc", type(e)))

async def one(parts, mls, mfs, mh, limit):
    loop = asyncio.get_running_loop()
    proto = ResponseHandler(loop)
    tr = Tr(); proto.connection_made(tr)
    proto.set_response_params(read_until_eof=True, max_line_size=mls, max_field_size=mfs, max_headers=mh, read_bufsize=limit)
    res = []
    t = asyncio.ensure_future(reader(proto, res))
    await asyncio.sleep(0)
    for p in parts:
        if proto._connection_lost_called if hasattr(proto, "_connection_lost_called") else False: break
        proto.data_received(p)
        await asyncio.sleep(0); await asyncio.sleep(0)
        if tr.closed: break
    proto.connection_lost(None)
    try:
        await asyncio.wait_for(t, 2)
    except asyncio.TimeoutError:
        res.append(("HANG",))
    return res

async def main():
    seed = int(sys.argv[1]) if len(sys.argv) > 1 else 0
    dur = float(sys.argv[2]) if len(sys.argv) > 2 else 20
    rng = random.Random(seed); t0 = time.time(); n = 0; seen = set()
    while time.time() - t0 < dur:
        n += 1
        s = rng.choice(RESP_SEEDS)
        for _ in range(rng.randint(0, 3)): s = mutate(rng, s)
        parts = split(rng, s)
        mls = rng.choice([8190, 40]); mfs = rng.choice([8190, 40]); mh = rng.choice([128, 6]); limit = rng.choice([2**16, 1, 4])
        try:
            res = await one(parts, mls, mfs, mh, limit)
        except BaseException as e:
            key = ("EXC", type(e).__name__, traceback.extract_tb(e.__traceback__)[-1][:2])
            if key not in seen:
                seen.add(key); print(key, repr(s), [len(p) for p in parts], limit); traceback.print_exc()
            continue
        for r in res:
            bad = False
            if r[0] == "HANG": bad = True
            if r[0] == "payload_exc" and not issubclass(r[1], ClientError): bad = True
            if r[0] == "read_exc" and not issubclass(r[1], (ClientError, http_exceptions.HttpProcessingError)): bad = True
            if bad and r not in seen:
                seen.add(r); print("BAD", r, repr(s), [len(p) for p in parts], mls, mfs, mh, limit, res)
    print("iterations", n)
asyncio.run(main())
