import sys
sys.path.insert(0, "_hunt")
from fuzz1_lib import mk
from aiohttp import http_exceptions
for kind in ("req", "resp"):
  for mh in (8, 128):
    for nf in (mh - 4, mh - 3, mh - 2, mh - 1):
        p = mk(kind, 8190, 8190, mh)
        start = b"POST / HTTP/1.1\r\n" if kind == "req" else b"HTTP/1.1 200 OK\r\n"
        fields = [b"Host: a", b"Transfer-Encoding: chunked"] + [b"X-%d: v" % i for i in range(nf - 2)]
        data = start + b"\r\n".join(fields) + b"\r\n\r\n" + b"3\r\nabc\r\n0\r\n\r\n"
        try:
            msgs, up, tail = p.feed_data(data)
            pl = msgs[0][1]
            print(kind, "max_headers", mh, "fields", nf, "-> msg ok; body eof:", pl.is_eof(), "exc:", repr(pl.exception()))
        except http_exceptions.HttpProcessingError as e:
            print(kind, "max_headers", mh, "fields", nf, "->", type(e).__name__, e.message)
