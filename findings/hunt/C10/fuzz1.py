"""Direct parser fuzz: exception types, retained bytes, segmentation independence."""
import asyncio
import random
import sys
import time
import traceback

import aiohttp
from aiohttp import http_exceptions
from aiohttp.base_protocol import BaseProtocol
from aiohttp.http_parser import HttpRequestParser, HttpResponseParser

print(aiohttp.__file__)

loop = asyncio.new_event_loop()


class Proto(BaseProtocol):
    def data_received(self, data):
        pass


def mk(kind, mls, mfs, mh, limit=2**16):
    proto = Proto(loop)
    if kind == "req":
        p = HttpRequestParser(proto, loop, limit, max_line_size=mls, max_field_size=mfs, max_headers=mh)
    else:
        p = HttpResponseParser(proto, loop, limit, max_line_size=mls, max_field_size=mfs, max_headers=mh,
                               read_until_eof=True)
    proto._parser = p
    return p


def retained(p):
    n = len(p._tail) + sum(len(x) for x in p._lines)
    pp = p._payload_parser
    if pp is not None:
        n += len(pp._chunk_tail) + sum(len(x) for x in pp._trailer_lines)
    return n


def run(kind, data_parts, mls, mfs, mh):
    p = mk(kind, mls, mfs, mh)
    out = []
    pls = []
    p.pls = pls
    try:
        for part in data_parts:
            msgs, up, tail = p.feed_data(part)
            for m, pl in msgs:
                out.append(("msg", m[0], m[1], tuple(m.raw_headers) if hasattr(m, 'raw_headers') else None))
                pls.append(pl)
            lim = max(mls, mfs) + 1
            pp = p._payload_parser
            if len(p._tail) > lim and not (p._max_msg_queue_size):
                out.append(("RETAINED tail", len(p._tail)))
            if pp is not None and int(pp._chunk) != 1 and len(pp._chunk_tail) > lim and len(part) <= lim:
                out.append(("RETAINED chunk_tail", len(pp._chunk_tail)))
            if up:
                out.append(("up",))
                break
        try:
            p.feed_eof()
        except http_exceptions.HttpProcessingError as e:
            out.append(("eoferr", type(e).__name__))
    except http_exceptions.HttpProcessingError as e:
        out.append(("err", type(e).__name__))
    return out, p


REQ_SEEDS = [
    b"GET /path?q=1 HTTP/1.1\r\nHost: a\r\nX-A: b\r\n\r\n",
    b"POST / HTTP/1.1\r\nHost: a\r\nContent-Length: 5\r\n\r\nhello",
    b"POST / HTTP/1.1\r\nHost: a\r\nTransfer-Encoding: chunked\r\n\r\n5;ext=1\r\nhello\r\n0\r\nTr: x\r\n\r\n",
    b"CONNECT host:80 HTTP/1.1\r\nHost: a\r\n\r\n",
    b"OPTIONS * HTTP/1.1\r\nHost: a\r\n\r\n",
    b"GET http://h:80/x HTTP/1.1\r\nHost: a\r\nConnection: upgrade\r\nUpgrade: websocket\r\n\r\n",
    b"POST / HTTP/1.1\r\nHost: a\r\nContent-Encoding: gzip\r\nTransfer-Encoding: chunked\r\n\r\n3\r\nabc\r\n0\r\n\r\n",
    b"POST / HTTP/1.0\r\nContent-Length: 1\r\nConnection: keep-alive\r\n\r\nxGET / HTTP/1.1\r\nHost: b\r\n\r\n",
]
RESP_SEEDS = [
    b"HTTP/1.1 200 OK\r\nContent-Length: 5\r\n\r\nhello",
    b"HTTP/1.1 200 OK\r\nTransfer-Encoding: chunked\r\n\r\n5;e\r\nhello\r\n0\r\nTr: x\r\n\r\n",
    b"HTTP/1.1 200 OK\r\nX: a\r\n b\r\n\tc\r\n\r\nbody",
    b"HTTP/1.1 204 No\r\n\r\nHTTP/1.1 200 OK\r\nContent-Length: 0\r\n\r\n",
    b"HTTP/1.0 200 OK\nContent-Encoding: deflate\nContent-Length: 3\n\nabc",
    b"HTTP/1.1 101 Sw\r\nConnection: upgrade\r\nUpgrade: websocket\r\n\r\nxxx",
    b"HTTP/1.1 200 OK\r\nContent-Encoding: br\r\nTransfer-Encoding: chunked\r\n\r\n3\r\nabc\r\n0\r\n\r\n",
]
TOKENS = [b"\r", b"\n", b"\r\n", b" ", b"\t", b":", b";", b",", b"\x00", b"\xff", b"\x80", b"0", b"f", b"-",
          b"+", b"[", b"]", b"@", b"#", b"?", b"%", b"%zz", b"//", b"http://", b"chunked", b"Content-Length: ",
          b"Transfer-Encoding: ", b"Host: ", b"HTTP/1.1", b"HTTP/1.0", b"99999999999999999999", b"\xe2\x84\xaa",
          b"[::1]", b":99999", b":-1", b":abc", b"\xc2\xa0", b"\x0b", b"\x0c", b"\x1f", b"\x7f", b"Connection: close\r\n",
          b"Content-Encoding: gzip\r\n", b"Content-Encoding: zstd\r\n", b"Upgrade: tcp\r\n", b"0\r\n\r\n"]


def mutate(rng, s):
    s = bytearray(s)
    for _ in range(rng.randint(1, 4)):
        op = rng.randint(0, 6)
        pos = rng.randint(0, len(s))
        if op == 0:
            s[pos:pos] = rng.choice(TOKENS)
        elif op == 1 and s:
            e = min(len(s), pos + rng.randint(1, 6))
            del s[pos:e]
        elif op == 2 and s:
            pos = min(pos, len(s) - 1)
            s[pos] = rng.randint(0, 255)
        elif op == 3:
            s[pos:pos] = rng.choice([b"a", b"0", b" ", b"f"]) * rng.choice([1, 5, 15, 16, 17, 31, 32, 33, 40, 100])
        elif op == 4 and s:
            e = min(len(s), pos + rng.randint(1, 20))
            s[pos:pos] = s[pos:e]
        elif op == 5:
            s[pos:pos] = bytes(rng.randint(0, 255) for _ in range(rng.randint(1, 8)))
        elif op == 6:
            other = rng.choice(REQ_SEEDS + RESP_SEEDS)
            s[pos:] = other[rng.randint(0, len(other)):]
    return bytes(s)


def split(rng, s):
    if not s:
        return [s]
    mode = rng.randint(0, 2)
    if mode == 0:
        return [s[i:i + 1] for i in range(len(s))]
    n = rng.randint(1, 5)
    cuts = sorted(rng.randint(0, len(s)) for _ in range(n))
    parts = []
    prev = 0
    for c in cuts + [len(s)]:
        parts.append(s[prev:c])
        prev = c
    return parts


def main():
    seed = int(sys.argv[1]) if len(sys.argv) > 1 else 0
    dur = float(sys.argv[2]) if len(sys.argv) > 2 else 20
    rng = random.Random(seed)
    t0 = time.time()
    n = 0
    bad = 0
    seen = set()
    while time.time() - t0 < dur:
        n += 1
        kind = rng.choice(["req", "resp"])
        seeds = REQ_SEEDS if kind == "req" else RESP_SEEDS
        s = rng.choice(seeds)
        if rng.random() < 0.1:
            s = bytes(rng.randint(0, 255) for _ in range(rng.randint(0, 60)))
        else:
            for _ in range(rng.randint(0, 3)):
                s = mutate(rng, s)
        mls = rng.choice([8190, 16, 32, 40, 0, 1])
        mfs = rng.choice([8190, 16, 32, 40, 0, 1])
        mh = rng.choice([128, 3, 4, 5, 6, 0, 1, 2])
        try:
            whole, p1 = run(kind, [s], mls, mfs, mh)
            parts = split(rng, s)
            # retained check while feeding in parts
            seg, p2 = run(kind, parts, mls, mfs, mh)
        except BaseException as e:
            key = (type(e).__name__, traceback.extract_tb(e.__traceback__)[-1][:2])
            if key not in seen:
                seen.add(key)
                bad += 1
                print("EXC", kind, repr(s), mls, mfs, mh)
                traceback.print_exc()
            continue
        if any("RETAINED" in str(x) for x in whole + seg):
            print("RETAINED", kind, repr(s), [len(x) for x in parts], mls, mfs, mh, whole, seg)
        if any(pl.exception() is not None for pl in p1.pls + p2.pls):
            continue
        w_err = [x for x in whole if x[0] == "err"]
        s_err = [x for x in seg if x[0] == "err"]
        if (w_err or s_err):
            if bool(w_err) == bool(s_err):
                continue
        if whole != seg:
            key = ("seg", kind, str(whole[-1:]), str(seg[-1:]))
            if key not in seen:
                seen.add(key)
                bad += 1
                print("SEGDIFF", kind, repr(s), [len(x) for x in parts], mls, mfs, mh, "\n   whole:", whole, "\n   seg:  ", seg)
    print("iterations", n, "bad", bad)


main()
