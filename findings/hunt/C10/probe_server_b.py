import asyncio, sys
import aiohttp
from aiohttp import web
print(aiohttp.__file__)

async def handler(request):
    if request.path == "/read":
        body = await request.read()
        return web.Response(text="read %d" % len(body))
    return web.Response(text="hello " + request.path)

async def talk(port, segs, delay=0.05):
    r, w = await asyncio.open_connection("127.0.0.1", port)
    for s in segs:
        w.write(s); await w.drain(); await asyncio.sleep(delay)
    try:
        data = await asyncio.wait_for(r.read(65536), 2)
        more = await asyncio.wait_for(r.read(65536), 1)
    except asyncio.TimeoutError:
        more = b"<timeout>"
    w.close()
    return data + more

async def main():
    app = web.Application(); app.router.add_route("*", "/{tail:.*}", handler)
    runner = web.AppRunner(app); await runner.setup()
    site = web.TCPSite(runner, "127.0.0.1", 0); await site.start()
    port = site._server.sockets[0].getsockname()[1]
    head = lambda path: b"POST " + path + b" HTTP/1.1\r\nHost: a\r\nTransfer-Encoding: chunked\r\n\r\n"
    cases = {
        "bad hex chunk size": b"zz\r\n",
        "chunk ext too long": b"3;" + b"a" * 9000 + b"\r\nabc\r\n0\r\n\r\n",
        "trailer too long": b"3\r\nabc\r\n0\r\nT: " + b"a" * 9000 + b"\r\n\r\n",
        "too many trailers": b"3\r\nabc\r\n0\r\n" + b"".join(b"T%d: v\r\n" % i for i in range(200)) + b"\r\n",
    }
    for path in (b"/noread", b"/read"):
        for name, body in cases.items():
            out = await talk(port, [head(path) + body, b"GET /smuggled HTTP/1.1\r\nHost: a\r\n\r\n"])
            import re
            print(path, name, "->", re.findall(rb"HTTP/1.1 \d+ [^\r]*", out), re.findall(rb"hello [^\r\n]*|read \d+", out))
    await runner.cleanup()
asyncio.run(main())
